"""Emit traced kernels (tools/regen/tracer.py) as Gallina terms over R.

    from tools.regen import emit_coq as EC
    text, info = EC.kernel_file(trace)           # text of coq/gen/Gen_kern_<name>.v
    EC.term(node)                                # one expression as a Coq term (with lets)

One ``Definition <kern>_<group>_<i>_<j> (params : R) : R := term.`` per output entry;
every definition of a kernel takes the SAME parameter list (``info['params']``): the
input variables in declaration order (an opaque angle ``t`` contributes ``c_t s_t``
and, when ``cos(k*t)`` was taken, ``c_t_<k> s_t_<k>``), then the stub symbols.
``<kern>_path (params) : Prop`` is the path condition of the trace and
``<kern>_hyp (params) : Prop`` the stub hypotheses (``M . Inv(M) = I``).

Constants: integers print as numerals, dyadic rationals as ``(n / d)`` (exact); the
floats nearest to sqrt 2, PI, 2 PI, PI/2 print as ``sqrt 2``, ``PI`` ... (a float
constant that is meant to be an irrational number is the only place where the
emitted real-number term is not literally what the float code holds; the table is
RECOGNISED below and every use is reported in ``info['irrational_constants']``).
"""
import math
from fractions import Fraction

from . import tracer as T

RECOGNISED = [
    (math.sqrt(2.0), 'sqrt 2'),
    (math.pi, 'PI'),
    (2.0 * math.pi, '(2 * PI)'),
    (math.pi / 2.0, '(PI / 2)'),
    (math.sqrt(0.5), '(/ sqrt 2)'),
]

FN = {'sqrt': 'sqrt', 'cos': 'cos', 'sin': 'sin', 'tan': 'tan', 'exp': 'exp', 'log': 'ln',
      'abs': 'Rabs', 'arcsin': 'asin', 'arccos': 'acos', 'arctan': 'atan'}


def const_term(c, used=None):
    if c != c or c in (float('inf'), float('-inf')):
        raise T.TraceError('non-finite constant in an emitted term')
    for val, txt in RECOGNISED:
        if c == val or c == -val:
            if used is not None:
                used.add(txt)
            return txt if c > 0 else '(- %s)' % txt
    if c == int(c) and abs(c) < 2 ** 62:
        n = int(c)
        return str(n) if n >= 0 else '(%d)' % n
    f = Fraction(c)
    if f.numerator < 0:
        return '(- (%d / %d))' % (-f.numerator, f.denominator)
    return '(%d / %d)' % (f.numerator, f.denominator)


def _refcounts(root):
    cnt = {}
    stack = [root]
    while stack:
        n = stack.pop()
        if n.uid in cnt:
            cnt[n.uid] += 1
            continue
        cnt[n.uid] = 1
        stack.extend(a for a in n.args if isinstance(a, T.E))
    return cnt


def term(root, used_consts=None, share=True):
    """Coq term for the DAG node; sub-DAGs used more than once become let-bindings."""
    cnt = _refcounts(root) if share else {}
    names = {}
    lets = []

    def atom(n):
        return n.op in ('var', 'const', 'angle')

    def go(n):
        if n.uid in names:
            return names[n.uid]
        op = n.op
        if op == 'const':
            s = const_term(n.args[0], used_consts)
        elif op == 'var':
            s = n.args[0]
        elif op == 'angle':
            raise T.TraceError('opaque angle %s used outside cos/sin' % n.args[0])
        elif op in ('add', 'sub', 'mul', 'div'):
            sym = {'add': '+', 'sub': '-', 'mul': '*', 'div': '/'}[op]
            s = '(%s %s %s)' % (go(n.args[0]), sym, go(n.args[1]))
        elif op == 'neg':
            s = '(- %s)' % go(n.args[0])
        elif op == 'pow':
            k = n.args[1]
            if k >= 0:
                s = '(%s ^ %d)' % (go(n.args[0]), k)
            else:
                s = '(/ (%s ^ %d))' % (go(n.args[0]), -k)
        elif op == 'fn':
            s = '(%s %s)' % (FN[n.args[0]], go(n.args[1]))
        elif op == 'fn2':
            raise T.TraceError('no Gallina counterpart emitted for %s' % n.args[0])
        else:
            raise T.TraceError('emit: unknown op %s' % op)
        if share and cnt.get(n.uid, 0) > 1 and not atom(n):
            nm = 't%d' % (len(lets) + 1)
            lets.append((nm, s))
            names[n.uid] = nm
            return nm
        return s

    import sys
    sys.setrecursionlimit(max(10000, sys.getrecursionlimit()))
    body = go(root)
    out = ''.join('let %s := %s in\n    ' % (nm, s) for nm, s in lets) + body
    return out


CMP = {('==', True): '=', ('==', False): '<>', ('!=', True): '<>', ('!=', False): '=',
       ('<', True): '<', ('<', False): '>=', ('<=', True): '<=', ('<=', False): '>',
       ('>', True): '>', ('>', False): '<=', ('>=', True): '>=', ('>=', False): '<'}


def params_of(trace):
    """the common parameter list of a kernel's definitions"""
    allvars = set()
    for _, _, e, _ in trace.outputs:
        allvars.update(T.variables(e))
    for lhs, _, rhs, _ in trace.path:
        allvars.update(T.variables(lhs))
        allvars.update(T.variables(rhs))
    params = []
    for name, _ in trace.inputs:
        if name in trace.angles:
            tags = sorted({v[2:] for v in allvars
                           if v[:2] in ('c_', 's_') and (v[2:] == name or v[2:].startswith(name + '_'))},
                          key=lambda t: (len(t), t))
            if not tags:
                tags = [name]
            for tag in tags:
                params += ['c_' + tag, 's_' + tag]
        else:
            params.append(name)
    params += [name for name, _ in trace.stubs]
    return params


def def_name(kern, group, idx):
    return '%s_%s%s' % (kern, group, ''.join('_%d' % i for i in idx))


def kernel_file(trace, header_note=''):
    used = set()
    params = params_of(trace)
    plist = '(%s : R)' % ' '.join(params) if params else ''
    lines = ['(* GENERATED on every run by tools/regen/tracer_*.py from the CURRENT polymath source.',
             '   Do not edit. Kernel: %s. %s *)' % (trace.name, header_note),
             'From Coq Require Import Reals.', 'Local Open Scope R_scope.', '']
    defs = []
    for group, idx, e, v in trace.outputs:
        nm = def_name(trace.name, group, idx)
        defs.append(nm)
        lines.append('Definition %s %s : R :=\n    %s.' % (nm, plist, term(e, used)))
    conds = []
    for lhs, op, rhs, outcome in trace.path:
        conds.append('(%s %s %s)' % (term(lhs, used, share=False), CMP[(op, outcome)],
                                      term(rhs, used, share=False)))
    conds = list(dict.fromkeys(conds))
    lines.append('')
    lines.append('Definition %s_path %s : Prop :=\n    %s.' %
                 (trace.name, plist, ' /\\\n    '.join(conds) if conds else 'True'))
    hyps = []
    for kind, d in trace.hyps:
        if kind == 'inv':
            n = d['n']
            for i in range(n):
                for j in range(n):
                    s = ' + '.join('%s * %s' % (term(d['M'][i][k], used, share=False), d['names'][k][j])
                                   for k in range(n))
                    hyps.append('(%s = %d)' % (s, 1 if i == j else 0))
    lines.append('Definition %s_hyp %s : Prop :=\n    %s.' %
                 (trace.name, plist, ' /\\\n    '.join(hyps) if hyps else 'True'))
    info = {'params': params, 'defs': defs, 'irrational_constants': sorted(used),
            'path': conds, 'n_hyps': len(hyps)}
    return '\n'.join(lines) + '\n', info
