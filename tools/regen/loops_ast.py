#!/venv/bin/python
"""Fail-closed AST translator for small imperative integer / list functions of polymath (regeneration tie for the
shape arithmetic used by C04 and C13).

Reads, from the CURRENT source tree (VERIF_REPO or /repo):
  * polymath/qube.py                 : Qube.broadcasted_shape   (the loop over the collected shapes)
  * polymath/extensions/math_ops.py  : _check_axis              (range and duplicate check of reduction axes)
and writes Gen_loops.v with, per function, a record of its local variables, one setter per variable and

  gen_broadcasted_shape (shapes : list (list Z)) (item : list Z) : option (list Z)
  gen_check_axis        (rank : Z) (axis : list Z)               : option (list bool)

Translation scheme (a state monad over the record of locals, None = the function raises):

  x = e                 fun s => Some (set_x s e)
  x[i] = e              fun s => index check; Some (set_x s (update x i e))      Python index rule: -len <= i < len
  if c: A else: B       fun s => if c then A s else B s
  for x in e: A         fun s => fold_left (fun acc x => bind acc (fun s => A (set_x s x))) e (Some s)
  for i in range(e): A  the same over 0 .. e-1
  try: A  except IndexError: raise ...      A (every exception is None already)
  raise ...             fun _ => None
  pass                  Some
  return e              (last statement only) the value of the function

An expression that subscripts a list carries its index check with it; a failed check makes the statement None
(Python raises IndexError).  Reading conventions (modelled, not verified): Python ints are Z; `k * [c]` is `repeat`;
`+` on lists is `++`; tuple()/list() are the identity on lists; `len(arg._shape_)` is the parameter `rank`; the
argument handling in front of the loops (keyword `item`, collecting `.shape` of the objects, `axis` given as None /
int / list / tuple) is skipped literally and listed in SKIP below - a change there makes the translation fail.
Anything outside the subset raises Untranslatable."""
import ast
import os
import sys

REPO = os.environ.get('VERIF_REPO', '/repo')
HERE = os.path.dirname(os.path.dirname(os.path.dirname(os.path.abspath(__file__))))

Z, L, LL, LB, B = 'Z', 'list Z', 'list (list Z)', 'list bool', 'bool'
IT, LIT = 'item', 'list item'
DEFAULT = {Z: '0', L: '[]', LL: '[]', LB: '[]', B: 'false', IT: 'ItOther', LIT: '[]'}
ELEM = {L: Z, LL: L, LB: B, LIT: IT}
COERCE = {(IT, B): '(ItBool %s)'}      # a Python bool stored in a variable that holds index items


class Untranslatable(Exception):
    pass


def _src(n):
    return ast.unparse(n)


class Fn:
    def __init__(self, path, cls, name, params, locals_, ambient, skip, ret, tag, pairs=None):
        self.pairs = pairs or {}
        self.path, self.cls, self.name, self.tag = path, cls, name, tag
        self.params, self.locals, self.ambient, self.skip, self.ret = params, locals_, ambient, skip, ret
        self.vars = dict(params)
        self.vars.update(locals_)


class Tr:
    def __init__(self, spec):
        self.spec = spec
        self.rec = 'st_' + spec.tag
        self.loops = []       # loop bodies, innermost first, as top-level definitions

    # ---- expressions: -> (coq, type, [checks]) with the state bound to `s`
    def var(self, name):
        return '(v_%s_%s s)' % (self.spec.tag, name)

    def expr(self, e, want=None):
        text = _src(e)
        sp = self.spec
        if text in sp.ambient:
            c, t = sp.ambient[text]
            if c in sp.vars:
                return (self.var(c), t, [])
            for v in sp.vars:                       # "{name}" in an ambient entry reads that local
                c = c.replace('{%s}' % v, self.var(v))
            return (c, t, [])
        if isinstance(e, ast.Name):
            if e.id in sp.vars:
                return (self.var(e.id), sp.vars[e.id], [])
            raise Untranslatable('unknown name %s' % e.id)
        if isinstance(e, ast.Constant):
            if isinstance(e.value, bool):
                return ('true' if e.value else 'false', B, [])
            if isinstance(e.value, int):
                return ('(%d)' % e.value, Z, [])
            raise Untranslatable('constant %r' % (e.value,))
        if isinstance(e, (ast.List, ast.Tuple)):
            if not e.elts:
                if want in (L, LL, LB):
                    return ('[]', want, [])
                raise Untranslatable('empty list of unknown type')
            items = [self.expr(x) for x in e.elts]
            t0 = items[0][1]
            if any(t != t0 for _, t, _ in items) or t0 not in (Z, B):
                raise Untranslatable('list display %s' % text)
            return ('[' + '; '.join(c for c, _, _ in items) + ']', L if t0 == Z else LB, sum((k for _, _, k in items), []))
        if isinstance(e, ast.UnaryOp) and isinstance(e.op, ast.USub):
            c, t, k = self.expr(e.operand)
            if t == Z:
                return ('(- %s)' % c, Z, k)
        if isinstance(e, ast.UnaryOp) and isinstance(e.op, ast.Not):
            c, k = self.truth(e.operand)
            return ('(negb %s)' % c, B, k)
        if isinstance(e, ast.BinOp) and isinstance(e.op, ast.Mult) and any(
                isinstance(x, (ast.List, ast.Tuple)) and len(x.elts) == 1 for x in (e.left, e.right)):
            # k * [c]  /  [c] * k : k copies of c
            lst, num = (e.left, e.right) if isinstance(e.left, (ast.List, ast.Tuple)) else (e.right, e.left)
            c, tc, kc = self.expr(lst.elts[0])
            n, tn, kn = self.expr(num)
            if tn == Z and tc in (Z, B):
                return ('(repeat %s (Z.to_nat %s))' % (c, n), L if tc == Z else LB, kc + kn)
            raise Untranslatable('repetition %s' % text)
        if isinstance(e, ast.BinOp):
            a, ta, ka = self.expr(e.left)
            b, tb, kb = self.expr(e.right)
            k = ka + kb
            if ta == Z and tb == Z:
                ops = {ast.Add: '(%s + %s)', ast.Sub: '(%s - %s)', ast.Mult: '(%s * %s)', ast.Mod: '(%s mod %s)',
                       ast.FloorDiv: '(%s / %s)'}
                for kk, v in ops.items():
                    if isinstance(e.op, kk):
                        return (v % (a, b), Z, k)
            if isinstance(e.op, ast.Add) and ta == tb and ta in (L, LB):
                return ('(%s ++ %s)' % (a, b), ta, k)
            raise Untranslatable('binary operation %s' % text)
        if isinstance(e, ast.Compare) and len(e.ops) == 1:
            a, ta, ka = self.expr(e.left)
            b, tb, kb = self.expr(e.comparators[0])
            if ta == Z and tb == Z:
                t = {ast.Lt: '(%s <? %s)', ast.LtE: '(%s <=? %s)', ast.Gt: '(%s >? %s)', ast.GtE: '(%s >=? %s)',
                     ast.Eq: '(%s =? %s)', ast.NotEq: '(negb (%s =? %s))'}
                for kk, v in t.items():
                    if isinstance(e.ops[0], kk):
                        return (v % (a, b), B, ka + kb)
            raise Untranslatable('comparison %s' % text)
        if isinstance(e, ast.BoolOp):
            vals = [self.truth(v) for v in e.values]
            if any(k for _, k in vals[1:]):
                raise Untranslatable('subscript in a short-circuited operand: %s' % text)
            op = '&&' if isinstance(e.op, ast.And) else '||'
            out = vals[0][0]
            for v, _ in vals[1:]:
                out = '(%s %s %s)' % (out, op, v)
            return (out, B, vals[0][1])
        if isinstance(e, ast.Subscript) and not isinstance(e.slice, ast.Slice):
            a, ta, ka = self.expr(e.value)
            i, ti, ki = self.expr(e.slice)
            if ta in ELEM and ti == Z:
                d = DEFAULT[ELEM[ta]]
                return ('(nth (pyidx (length %s) %s) %s %s)' % (a, i, a, d), ELEM[ta], ka + ki + ['(pyok (length %s) %s)' % (a, i)])
            raise Untranslatable('subscript %s' % text)
        if isinstance(e, ast.Call) and not e.keywords:
            fn = _src(e.func)
            if fn == 'len' and len(e.args) == 1:
                a, t, k = self.expr(e.args[0])
                if t in ELEM:
                    return ('(Z.of_nat (length %s))' % a, Z, k)
            if fn in ('tuple', 'list') and len(e.args) == 1:
                a, t, k = self.expr(e.args[0])
                if t in ELEM:
                    return (a, t, k)
            raise Untranslatable('call %s' % text)
        raise Untranslatable('expression %s' % text)

    def truth(self, e):
        c, t, k = self.expr(e)
        if t == B:
            return c, k
        if t == Z:
            return '(negb (%s =? 0))' % c, k
        raise Untranslatable('condition %s' % _src(e))

    # ---- statements: -> coq term of type  st -> option st
    def guard(self, checks, body):
        if not checks:
            return body
        return 'if negb (%s) then None else %s' % (' && '.join(checks), body)

    def setter(self, name, val):
        return '(set_%s_%s s %s)' % (self.spec.tag, name, val)

    def block(self, stmts):
        parts = [self.stmt(s) for s in stmts]
        parts = [p_ for p_ in parts if p_ is not None]
        if not parts:
            return '(fun s => Some s)'
        out = parts[0]
        for p_ in parts[1:]:
            out = '(seq_ %s %s)' % (out, p_)
        return out

    def stmt(self, st):
        sp = self.spec
        text = _src(st)
        if text in sp.skip:
            return None
        if isinstance(st, ast.Expr) and isinstance(st.value, ast.Constant):
            return None
        if (isinstance(st, ast.Assign) and len(st.targets) == 1 and isinstance(st.targets[0], ast.Name)
                and st.targets[0].id in sp.pairs and _src(st.value) == '{False: [], True: []}'):
            f_, t_ = sp.pairs[st.targets[0].id]
            return '(fun s => Some %s)' % self.setter(t_, '[]').replace(' s ', ' %s ' % self.setter(f_, '[]'), 1)
        if (isinstance(st, ast.Expr) and isinstance(st.value, ast.Call) and isinstance(st.value.func, ast.Attribute)
                and st.value.func.attr == 'append' and isinstance(st.value.func.value, ast.Subscript)
                and isinstance(st.value.func.value.value, ast.Name) and st.value.func.value.value.id in sp.pairs
                and len(st.value.args) == 1 and not st.value.keywords):
            f_, t_ = sp.pairs[st.value.func.value.value.id]
            c, k = self.truth(st.value.func.value.slice)
            e, te, ke = self.expr(st.value.args[0])
            if te != Z:
                raise Untranslatable('appended value %s' % text)
            return '(fun s => %s)' % self.guard(k + ke, 'if %s then Some %s else Some %s' % (
                c, self.setter(t_, '(%s ++ [%s])' % (self.var(t_), e)), self.setter(f_, '(%s ++ [%s])' % (self.var(f_), e))))
        if isinstance(st, ast.Pass):
            return '(fun s => Some s)'
        if isinstance(st, ast.Raise):
            return '(fun _ => None)'
        if isinstance(st, ast.Assign) and len(st.targets) == 1:
            tg = st.targets[0]
            if isinstance(tg, ast.Name):
                if tg.id == '_':
                    c, t, k = self.expr(st.value)
                    return '(fun s => %s)' % self.guard(k, 'Some s')
                if tg.id not in sp.vars:
                    raise Untranslatable('assignment to undeclared name %s' % tg.id)
                c, t, k = self.expr(st.value, want=sp.vars[tg.id])
                if (sp.vars[tg.id], t) in COERCE:
                    c, t = COERCE[(sp.vars[tg.id], t)] % c, sp.vars[tg.id]
                if t != sp.vars[tg.id]:
                    raise Untranslatable('%s : %s is assigned a %s' % (tg.id, sp.vars[tg.id], t))
                return '(fun s => %s)' % self.guard(k, 'Some %s' % self.setter(tg.id, c))
            if isinstance(tg, ast.Subscript) and isinstance(tg.value, ast.Name) and not isinstance(tg.slice, ast.Slice):
                nm = tg.value.id
                if nm not in sp.vars or sp.vars[nm] not in ELEM:
                    raise Untranslatable('item assignment to %s' % nm)
                i, ti, ki = self.expr(tg.slice)
                c, t, k = self.expr(st.value)
                if ti != Z or t != ELEM[sp.vars[nm]]:
                    raise Untranslatable('item assignment %s' % text)
                a = self.var(nm)
                upd = '(lset (pyidx (length %s) %s) %s %s)' % (a, i, c, a)
                return '(fun s => %s)' % self.guard(ki + k + ['(pyok (length %s) %s)' % (a, i)], 'Some %s' % self.setter(nm, upd))
            raise Untranslatable('assignment %s' % text)
        if isinstance(st, ast.If):
            c, k = self.truth(st.test)
            a = self.block(st.body)
            b = self.block(st.orelse) if st.orelse else '(fun s => Some s)'
            return '(fun s => %s)' % self.guard(k, 'if %s then %s s else %s s' % (c, a, b))
        if isinstance(st, ast.For) and not st.orelse and isinstance(st.target, ast.Name):
            x = st.target.id
            if x not in sp.vars:
                raise Untranslatable('loop variable %s is not declared' % x)
            it = st.iter
            if isinstance(it, ast.Call) and _src(it.func) == 'range' and len(it.args) == 1 and not it.keywords:
                n, tn, kn = self.expr(it.args[0])
                if tn != Z or sp.vars[x] != Z:
                    raise Untranslatable('range loop %s' % _src(it))
                seq = '(zrange %s)' % n
            else:
                n, tn, kn = self.expr(it)
                if tn not in ELEM or ELEM[tn] != sp.vars[x]:
                    raise Untranslatable('loop over %s' % _src(it))
                seq = n
            body = self.block(st.body)
            name = 'loop%d_%s' % (len(self.loops), sp.tag)
            self.loops.append('Definition %s (acc : option %s) (x_ : %s) : option %s :=\n  match acc with None => None | Some s => %s %s end.'
                              % (name, self.rec, sp.vars[x], self.rec, body, self.setter(x, 'x_')))
            return '(fun s => %s)' % self.guard(kn, 'fold_left %s %s (Some s)' % (name, seq))
        if isinstance(st, ast.Try) and not st.orelse and not st.finalbody and len(st.handlers) == 1:
            h = st.handlers[0]
            if _src(h.type) == 'IndexError' and len(h.body) == 1 and isinstance(h.body[0], ast.Raise):
                return self.block(st.body)
        raise Untranslatable('statement %s' % text)

    def function(self, fn):
        sp = self.spec
        body = list(fn.body)
        ret = None
        if body and isinstance(body[-1], ast.Return) and body[-1].value is not None:
            ret = body.pop().value
        for top in body:
            if _src(top) in sp.skip:
                continue
            for s in ast.walk(top):
                if isinstance(s, ast.Return):
                    raise Untranslatable('return inside the body')
        names = list(sp.vars)
        rec = self.rec
        n = sp.tag
        out = []
        out.append('Record %s := mk_%s { %s }.' % (rec, n, '; '.join('v_%s_%s : %s' % (n, v, sp.vars[v]) for v in names)))
        for v in names:
            out.append('Definition set_%s_%s (s : %s) (x : %s) : %s := mk_%s %s.'
                       % (n, v, rec, sp.vars[v], rec, n, ' '.join('x' if w == v else '(v_%s_%s s)' % (n, w) for w in names)))
        prog = self.block(body)
        init = 'mk_%s %s' % (n, ' '.join(p_ if p_ in sp.params else DEFAULT[sp.vars[p_]] for p_ in names))
        if sp.ret is None:
            raise Untranslatable('no result declared')
        if ret is not None and sp.ret[0] is not None:
            if _src(ret) != sp.ret[2]:
                raise Untranslatable('return value %s' % _src(ret))
            c = sp.ret[0]
            for v in sp.vars:
                c = c.replace('{%s}' % v, self.var(v))
        elif ret is not None:
            c, t, k = self.expr(ret)
            if k or t != sp.ret[1]:
                raise Untranslatable('return value %s' % _src(ret))
        else:
            c, t, _ = self.expr(ast.parse(sp.ret[0], mode='eval').body)
        sig = ' '.join('(%s : %s)' % (p_, t_) for p_, t_ in sp.params.items())
        out.extend(self.loops)
        out.append('Definition body_%s : %s -> option %s :=\n  %s.' % (n, rec, rec, prog))
        out.append('Definition gen_%s %s : option (%s) :=\n  match body_%s (%s) with None => None | Some s => Some %s end.'
                   % (n, sig, sp.ret[1], n, init, c))
        return '\n'.join(out)


SPECS = [
    Fn('polymath/qube.py', 'Qube', 'broadcasted_shape',
       params={'shapes': LL, 'item': L},
       locals_={'new_shape': L, 'len_broadcast': Z, 'shape': L, 'len_shape': Z, 'i': Z},
       ambient={},
       skip={"item = ()",
             "if 'item' in keywords:\n    item = keywords['item']\n    del keywords['item']",
             "if keywords:\n    raise TypeError('broadcasted_shape() got an unexpected keyword argument \"%s\"' % list(keywords.keys())[0])",
             "shapes = []",
             "for obj in objects:\n    if obj is None or Qube.is_real_number(obj):\n        shape = ()\n    elif isinstance(obj, (tuple, list)):\n        shape = tuple(obj)\n    else:\n        shape = obj.shape\n    shapes.append(shape)"},
       ret=(None, L), tag='bs'),
    Fn('polymath/extensions/math_ops.py', None, '_check_axis',
       params={'rank': Z, 'axis': L},
       locals_={'selections': LB, 'i': Z},
       ambient={'len(arg._shape_)': ('rank', Z)},
       skip={"if axis is None:\n    return",
             "if isinstance(axis, tuple):\n    axis_for_show = axis\nelif isinstance(axis, list):\n    axis_for_show = tuple(axis)\nelse:\n    axis_for_show = axis\n    axis = (axis,)"},
       ret=('selections', LB), tag='ca'),
]

SPECS.append(
    Fn('polymath/extensions/indexer.py', None, '_prep_scalar_index',
       params={'indx': LIT},
       locals_={'has_ellipsis': B, 'has_bool': B, 'masked': B, 'size_zero': B, 'shapes_f': L, 'shapes_t': L, 'item': IT},
       ambient={'isinstance(item, Qube)': ('(is_qube {item})', B), 'item._shape_': ('(qshaped {item})', B),
                'item.is_bool()': ('(qisbool {item})', B), 'item._mask_': ('(qmask {item})', B),
                'item._values_': ('(ItBool (qval {item}))', IT),
                'isinstance(item, (bool, np.bool_))': ('(is_pybool {item})', B),
                'not item': ('(negb (boolval {item}))', B),
                'item is Ellipsis': ('(is_ell {item})', B), 'item is None': ('(is_none {item})', B),
                'isinstance(item, slice)': ('(is_slice {item})', B),
                'item != slice(None, None, None)': ('(negb (slice_full {item}))', B)},
       skip={"if not isinstance(indx, (tuple, list)):\n    indx = (indx,)"},
       ret=('({masked}, {size_zero}, {shapes_f}, {shapes_t})', 'bool * bool * list Z * list Z',
            '(masked, size_zero, tuple(shapes[False]), tuple(shapes[True]))'),
       tag='psi', pairs={'shapes': ('shapes_f', 'shapes_t')}))

PRELUDE = '''(* GENERATED by tools/regen/loops_ast.py from %s - do not edit *)
From Coq Require Import List ZArith Bool.
From PM Require Import LoopModel.
Import ListNotations.
Local Open Scope Z_scope.

'''


def find(tree, cls, name):
    nodes = tree.body
    if cls:
        for n in tree.body:
            if isinstance(n, ast.ClassDef) and n.name == cls:
                nodes = n.body
    for n in nodes:
        if isinstance(n, ast.FunctionDef) and n.name == name:
            return n
    raise Untranslatable('function %s not found' % name)


PROP = None          # set by the harness: emit only the functions this property's obligation file uses
USED_BY = {'C04': ['broadcasted_shape'], 'C13': ['_check_axis'], 'C09': ['_prep_scalar_index'],
           'C10': ['_prep_scalar_index']}


def generate(out_path=None):
    defs = []
    for sp in SPECS:
        if PROP in USED_BY and sp.name not in USED_BY[PROP]:
            continue
        tree = ast.parse(open(os.path.join(REPO, sp.path)).read())
        fn = find(tree, sp.cls, sp.name)
        try:
            defs.append(Tr(sp).function(fn))
        except Untranslatable as e:
            raise Untranslatable('%s %s: %s' % (sp.path, sp.name, e))
    text = PRELUDE % REPO + '\n\n'.join(defs) + '\n'
    out_path = out_path or os.path.join(HERE, 'coq', 'gen', 'Gen_loops.v')
    os.makedirs(os.path.dirname(out_path), exist_ok=True)
    with open(out_path, 'w') as f:
        f.write(text)
    return (out_path, len(defs), text.count('\n'))


if __name__ == '__main__':
    try:
        print(generate(sys.argv[1] if len(sys.argv) > 1 else None))
    except Untranslatable as e:
        print('UNTRANSLATABLE:', e)
        sys.exit(3)
