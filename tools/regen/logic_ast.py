#!/venv/bin/python
"""Fail-closed AST translator for the boolean formulas of polymath (regeneration tie for C14 and
for Qube.or_/and_ used by C01).

Reads, from the CURRENT source tree (VERIF_REPO or /repo):
  * polymath/extensions/tvl.py : tvl_and, tvl_or        (straight-line NumPy boolean code)
  * polymath/qube.py           : Qube.or_, Qube.and_    (isinstance ladders, two-argument case)
and writes coq/gen/Gen_logic.v with

  gen_tvl_and_val / gen_tvl_and_mask / gen_tvl_or_val / gen_tvl_or_mask
      : bobj -> bobj -> mi -> bool         value / mask of the result element at index r
  gen_or2 / gen_and2 : gm -> gm -> gm      the ladder over  gm := GS bool | GA (mi -> bool)

Reading convention (the only semantic assumption, = NumPy element-wise semantics, modelled
not verified): an expression built from `&`, `|`, np.logical_not, Qube.and_, Qube.or_ over the
operands' value / mask / antimask arrays denotes, at a result index r, the same boolean
expression over the operand elements that broadcast onto r.

Accepted subset: Assign to a Name; If on `Qube.is_one_false(<obj>._mask_)` whose two branches
assign the same names; `result = Qube.BOOLEAN_CLASS(<expr>, <expr>)`; the `builtins` epilogue and
the `as_boolean` prologue are recognised literally and skipped.  Anything else raises
Untranslatable: the check then reports the broken tie instead of proving facts about stale text."""
import ast
import os
import sys

REPO = os.environ.get('VERIF_REPO', '/repo')
HERE = os.path.dirname(os.path.dirname(os.path.dirname(os.path.abspath(__file__))))


class Untranslatable(Exception):
    pass


def _src(node):
    return ast.unparse(node)


def expr_to_coq(e, env):
    """boolean element expression at index r"""
    if isinstance(e, ast.Name):
        if e.id in env:
            return env[e.id]
        raise Untranslatable('unknown name %s' % e.id)
    if isinstance(e, ast.Attribute) and isinstance(e.value, ast.Name) and e.value.id in ('self', 'arg'):
        o = 'a' if e.value.id == 'self' else 'b'
        idx = '(bproj (bsh %s) r)' % o
        if e.attr == '_values_':
            return '(bval %s %s)' % (o, idx)
        if e.attr == '_mask_':
            return '(mget (bmask %s) %s)' % (o, idx)
        if e.attr == 'antimask':
            return '(negb (mget (bmask %s) %s))' % (o, idx)
        raise Untranslatable('attribute %s' % _src(e))
    if isinstance(e, ast.BinOp) and isinstance(e.op, (ast.BitAnd, ast.BitOr)):
        f = 'andb' if isinstance(e.op, ast.BitAnd) else 'orb'
        return '(%s %s %s)' % (f, expr_to_coq(e.left, env), expr_to_coq(e.right, env))
    if isinstance(e, ast.Call):
        fn = _src(e.func)
        if fn == 'np.logical_not' and len(e.args) == 1 and not e.keywords:
            return '(negb %s)' % expr_to_coq(e.args[0], env)
        if fn in ('Qube.and_', 'Qube.or_') and len(e.args) == 2 and not e.keywords:
            f = 'andb' if fn.endswith('and_') else 'orb'
            return '(%s %s %s)' % (f, expr_to_coq(e.args[0], env), expr_to_coq(e.args[1], env))
    raise Untranslatable('expression %s' % _src(e))


PROLOGUE = {'self = Qube.BOOLEAN_CLASS.as_boolean(self)', 'arg = Qube.BOOLEAN_CLASS.as_boolean(arg)'}
EPILOGUE = ['if builtins is None:\n    builtins = Qube.PREFER_BUILTIN_TYPES',
            'if builtins:\n    return result.as_builtin()', 'return result']


def translate_tvl(fn):
    env = {}
    body = [s for s in fn.body if not (isinstance(s, ast.Expr) and isinstance(s.value, ast.Constant))]
    result = None
    tail = []
    for st in body:
        text = _src(st)
        if text in PROLOGUE:
            continue
        if result is not None:
            tail.append(text)
            continue
        if isinstance(st, ast.Assign) and len(st.targets) == 1 and isinstance(st.targets[0], ast.Name):
            name = st.targets[0].id
            if name == 'result':
                c = st.value
                if not (isinstance(c, ast.Call) and _src(c.func) == 'Qube.BOOLEAN_CLASS' and len(c.args) == 2 and not c.keywords):
                    raise Untranslatable('result = %s' % _src(c))
                result = (expr_to_coq(c.args[0], env), expr_to_coq(c.args[1], env))
            else:
                env[name] = expr_to_coq(st.value, env)
            continue
        if isinstance(st, ast.If):
            t = st.test
            if not (isinstance(t, ast.Call) and _src(t.func) == 'Qube.is_one_false' and len(t.args) == 1
                    and isinstance(t.args[0], ast.Attribute) and t.args[0].attr == '_mask_'
                    and isinstance(t.args[0].value, ast.Name) and t.args[0].value.id in ('self', 'arg')):
                raise Untranslatable('if %s' % _src(t))
            o = 'a' if t.args[0].value.id == 'self' else 'b'

            def branch(stmts):
                out = {}
                for s2 in stmts:
                    if not (isinstance(s2, ast.Assign) and len(s2.targets) == 1 and isinstance(s2.targets[0], ast.Name)):
                        raise Untranslatable('branch statement %s' % _src(s2))
                    out[s2.targets[0].id] = expr_to_coq(s2.value, dict(env, **out))
                return out
            b1, b2 = branch(st.body), branch(st.orelse)
            if set(b1) != set(b2):
                raise Untranslatable('branches assign different names')
            for k in b1:
                env[k] = '(if one_false (bmask %s) then %s else %s)' % (o, b1[k], b2[k])
            continue
        raise Untranslatable('statement %s' % text)
    if result is None:
        raise Untranslatable('no result construction')
    if tail != EPILOGUE:
        raise Untranslatable('unexpected epilogue %r' % tail)
    return result


def gm_expr(e, names):
    """expression of the or_/and_ ladder over gm"""
    if isinstance(e, ast.Name) and e.id in names:
        return names[e.id]
    if isinstance(e, ast.Constant) and isinstance(e.value, bool):
        return '(GS %s)' % ('true' if e.value else 'false')
    if isinstance(e, ast.BinOp) and isinstance(e.op, (ast.BitAnd, ast.BitOr)):
        f = 'andb' if isinstance(e.op, ast.BitAnd) else 'orb'
        return '(gbin %s %s %s)' % (f, gm_expr(e.left, names), gm_expr(e.right, names))
    raise Untranslatable('ladder expression %s' % _src(e))


def ladder(stmts, names):
    """statements -> gm term; every path must end in return"""
    if not stmts:
        raise Untranslatable('path without return')
    st, rest = stmts[0], stmts[1:]
    if isinstance(st, ast.Return):
        return gm_expr(st.value, names)
    if isinstance(st, ast.If):
        t = st.test
        if isinstance(t, ast.Call) and _src(t.func) == 'isinstance' and isinstance(t.args[0], ast.Name) \
                and _src(t.args[1]) == '(bool, np.bool_)':
            v = t.args[0].id
            then = ladder(st.body + rest, dict(names, **{v + '!bool': True}))
            if st.orelse:
                other = ladder(st.orelse + rest, names)
            else:
                other = ladder(rest, names)
            return '(match %s with GS %s_b => %s | GA _ => %s end)' % (
                names[v], v, then.replace('<<%s>>' % v, v + '_b'), other)
        if isinstance(t, ast.Name) and names.get(t.id + '!bool'):
            then = ladder(st.body + rest, names)
            other = ladder((st.orelse or []) + rest, names)
            return '(if <<%s>> then %s else %s)' % (t.id, then, other)
        if isinstance(t, ast.Compare) and len(t.ops) == 1 and isinstance(t.ops[0], ast.Is):
            # `mask0 is mask1`: identical array object -> returning it equals the element-wise result
            same = ladder(st.body + rest, names)
            other = ladder((st.orelse or []) + rest, names)
            return '(gsame %s %s)' % (same, other)
    raise Untranslatable('ladder statement %s' % _src(st))


def translate_ladder(fn):
    body = [s for s in fn.body if not (isinstance(s, ast.Expr) and isinstance(s.value, ast.Constant))]
    first = body[0]
    if not (isinstance(first, ast.If) and _src(first.test) == 'len(masks) == 2'):
        raise Untranslatable('expected `if len(masks) == 2:` first, got %s' % _src(first)[:60])
    stmts = list(first.body)
    names = {}
    while stmts and isinstance(stmts[0], ast.Assign):
        a = stmts.pop(0)
        if _src(a.value) == 'masks[0]':
            names[a.targets[0].id] = 'm0'
        elif _src(a.value) == 'masks[1]':
            names[a.targets[0].id] = 'm1'
        else:
            raise Untranslatable(_src(a))
    return ladder(stmts, names)


def find(tree, name, cls=None):
    nodes = tree.body
    if cls:
        for n in tree.body:
            if isinstance(n, ast.ClassDef) and n.name == cls:
                nodes = n.body
    for n in nodes:
        if isinstance(n, ast.FunctionDef) and n.name == name:
            return n
    raise Untranslatable('function %s not found' % name)


def generate(out_path=None):
    tvl = ast.parse(open(os.path.join(REPO, 'polymath', 'extensions', 'tvl.py')).read())
    qube = ast.parse(open(os.path.join(REPO, 'polymath', 'qube.py')).read())
    av, am = translate_tvl(find(tvl, 'tvl_and'))
    ov, om = translate_tvl(find(tvl, 'tvl_or'))
    or2 = translate_ladder(find(qube, 'or_', 'Qube'))
    and2 = translate_ladder(find(qube, 'and_', 'Qube'))
    text = '''(* GENERATED by tools/regen/logic_ast.py from %s - do not edit *)
From Coq Require Import List Bool.
From PM Require Import Base Mask C14Model.
Import ListNotations.

Definition gen_tvl_and_val (a b : bobj) (r : mi) : bool := %s.
Definition gen_tvl_and_mask (a b : bobj) (r : mi) : bool := %s.
Definition gen_tvl_or_val (a b : bobj) (r : mi) : bool := %s.
Definition gen_tvl_or_mask (a b : bobj) (r : mi) : bool := %s.

(* masks as Qube.or_/and_ see them: one Python bool or an array *)
Inductive gm := GS (b : bool) | GA (f : mi -> bool).
Definition gget (m : gm) (r : mi) : bool := match m with GS b => b | GA f => f r end.
Definition gbin (f : bool -> bool -> bool) (x y : gm) : gm := GA (fun r => f (gget x r) (gget y r)).
(* `mask0 is mask1`: both names denote one array; either branch may be taken *)
Definition gsame (same other : gm) : gm := other.
Definition gen_or2 (m0 m1 : gm) : gm := %s.
Definition gen_and2 (m0 m1 : gm) : gm := %s.
''' % (REPO, av, am, ov, om, or2, and2)
    out_path = out_path or os.path.join(HERE, 'coq', 'gen', 'Gen_logic.v')
    os.makedirs(os.path.dirname(out_path), exist_ok=True)
    with open(out_path, 'w') as f:
        f.write(text)
    return (out_path, 6, text.count('\n'))


if __name__ == '__main__':
    try:
        print(generate(sys.argv[1] if len(sys.argv) > 1 else None))
    except Untranslatable as e:
        print('UNTRANSLATABLE:', e)
        sys.exit(3)
