#!/venv/bin/python
"""Fail-closed AST translator for the axis arithmetic of polymath's relabeling methods (regeneration tie for C15).

Reads, from the CURRENT source tree (VERIF_REPO or /repo):
  * polymath/extensions/shaper.py   : swap_axes, roll_axis, move_axis
  * polymath/extensions/item_ops.py : transpose_numer, transpose_denom
and writes Gen_shape.v with one total Gallina function per method,

  gen_swap_axes       (len_shape axis1 axis2 : Z) : plan
  gen_roll_axis       (len_shape axis start rank : Z) : plan
  gen_move_axis       (len_shape : Z) (source destination : list Z) (rank : Z) : plan
  gen_transpose_numer (len_shape nrank axis1 axis2 : Z) : plan
  gen_transpose_denom (len_shape nrank drank axis1 axis2 : Z) : plan

(`plan` is defined in coq/theories/ShpModel.v).  The integer prologue of each method (normalisation of negative
axes, `rank or len_shape`, range checks that raise, duplicates) is translated statement by statement into lets and
ifs over Z and list Z; the rest of the method must have exactly the shape

    [if <cond>: return self if recursive else self.wod]            -> PSelf
    [if len_shape < rank: self = self.reshape((rank - len_shape) * (1,) + self._shape_, recursive=recursive)]  -> pad
    new_values = <np.swapaxes | np.rollaxis | np.moveaxis>(self._values_, e1, e2)
    new_mask   = the same function on self._mask_ unless the mask is a single value   (or the mask itself)
    obj = Qube.__new__(type(self)); obj.__init__(new_values, new_mask, example=self); obj._readonly_ = self._readonly_
    [if recursive: for (key, deriv) in self._derivs_.items(): obj.insert_deriv(key, deriv.<same method>(..., False ...))]
    return obj

Reading conventions (modelled, not verified): `len(self._shape_)`, `self._nrank_`, `self._drank_` are the integer
parameters len_shape, nrank, drank (>= 0); `rank=None` is 0; an integer `source`/`destination` is the one-element
list; Python's `%` and `//` on integers with a positive right operand are Z.modulo and Z.div; the error messages
are not modelled (any `raise` is PErr).  Anything outside this subset raises Untranslatable: the check then reports
the broken tie instead of proving facts about stale text."""
import ast
import os
import sys

REPO = os.environ.get('VERIF_REPO', '/repo')
HERE = os.path.dirname(os.path.dirname(os.path.dirname(os.path.abspath(__file__))))


class Untranslatable(Exception):
    pass


def _src(n):
    return ast.unparse(n)


# ---------------------------------------------------------------- expressions
Z, L, B = 'Z', 'L', 'B'


class Env:
    def __init__(self, types, ambient):
        self.types = dict(types)          # python name -> Z | L | B
        self.ambient = dict(ambient)      # source text -> (coq text, type)

    def copy(self):
        e = Env(self.types, self.ambient)
        return e


def cmpop(op, a, b):
    t = {ast.Lt: '(%s <? %s)', ast.LtE: '(%s <=? %s)', ast.Gt: '(%s >? %s)', ast.GtE: '(%s >=? %s)',
         ast.Eq: '(%s =? %s)', ast.NotEq: '(negb (%s =? %s))'}
    for k, v in t.items():
        if isinstance(op, k):
            return v % (a, b)
    raise Untranslatable('comparison operator %s' % type(op).__name__)


def expr(e, env):
    """-> (coq text, type)"""
    text = _src(e)
    if text in env.ambient:
        return env.ambient[text]
    if isinstance(e, ast.Name):
        if e.id in env.types:
            return (e.id, env.types[e.id])
        raise Untranslatable('unknown name %s' % e.id)
    if isinstance(e, ast.Constant):
        if isinstance(e.value, bool):
            return ('true' if e.value else 'false', B)
        if isinstance(e.value, int):
            return ('(%d)' % e.value, Z)
        raise Untranslatable('constant %r' % (e.value,))
    if isinstance(e, ast.UnaryOp):
        if isinstance(e.op, ast.USub):
            a, t = expr(e.operand, env)
            if t != Z:
                raise Untranslatable('negation of %s' % text)
            return ('(- %s)' % a, Z)
        if isinstance(e.op, ast.Not):
            return ('(negb %s)' % truth(e.operand, env), B)
        raise Untranslatable('unary %s' % text)
    if isinstance(e, ast.BinOp):
        a, ta = expr(e.left, env)
        b, tb = expr(e.right, env)
        if ta == Z and tb == Z:
            ops = {ast.Add: '(%s + %s)', ast.Sub: '(%s - %s)', ast.Mult: '(%s * %s)', ast.Mod: '(%s mod %s)',
                   ast.FloorDiv: '(%s / %s)'}
            for k, v in ops.items():
                if isinstance(e.op, k):
                    return (v % (a, b), Z)
        raise Untranslatable('binary operation %s' % text)
    if isinstance(e, ast.Compare):
        parts = []
        left = e.left
        for op, right in zip(e.ops, e.comparators):
            a, ta = expr(left, env)
            b, tb = expr(right, env)
            if ta != Z or tb != Z:
                # len(set(x)) != len(x)
                raise Untranslatable('comparison %s' % text)
            parts.append(cmpop(op, a, b))
            left = right
        out = parts[0]
        for p_ in parts[1:]:
            out = '(%s && %s)' % (out, p_)
        return (out, B)
    if isinstance(e, ast.BoolOp):
        vals = [expr(v, env) for v in e.values]
        if all(t == B for _, t in vals):
            op = '&&' if isinstance(e.op, ast.And) else '||'
            out = vals[0][0]
            for v, _ in vals[1:]:
                out = '(%s %s %s)' % (out, op, v)
            return (out, B)
        if isinstance(e.op, ast.Or) and len(vals) == 2 and vals[0][1] == Z and vals[1][1] == Z:
            # `x or y` on integers (None is 0): y when x is 0
            return ('(if %s =? 0 then %s else %s)' % (vals[0][0], vals[1][0], vals[0][0]), Z)
        raise Untranslatable('boolean operation %s' % text)
    if isinstance(e, ast.IfExp):
        c = truth(e.test, env)
        a, ta = expr(e.body, env)
        b, tb = expr(e.orelse, env)
        if ta != tb:
            raise Untranslatable('conditional expression of two types %s' % text)
        return ('(if %s then %s else %s)' % (c, a, b), ta)
    if isinstance(e, ast.Call) and not e.keywords:
        fn = _src(e.func)
        if fn == 'len' and len(e.args) == 1:
            # len(set(x)) : number of distinct entries
            a0 = e.args[0]
            if isinstance(a0, ast.Call) and _src(a0.func) == 'set' and len(a0.args) == 1:
                a, t = expr(a0.args[0], env)
                if t == L:
                    return ('(Z.of_nat (length (zdistinct %s)))' % a, Z)
            a, t = expr(a0, env)
            if t == L:
                return ('(Z.of_nat (length %s))' % a, Z)
            raise Untranslatable('len of %s' % _src(a0))
        if fn in ('min', 'max') and len(e.args) == 2:
            a, ta = expr(e.args[0], env)
            b, tb = expr(e.args[1], env)
            if ta == Z and tb == Z:
                return ('(Z.%s %s %s)' % (fn, a, b), Z)
        if fn in ('tuple', 'list') and len(e.args) == 1:
            a, t = expr(e.args[0], env)
            if t == L:
                return (a, L)
        raise Untranslatable('call %s' % text)
    if isinstance(e, ast.ListComp) and len(e.generators) == 1:
        g = e.generators[0]
        if isinstance(g.target, ast.Name) and not g.ifs and not g.is_async:
            src, t = expr(g.iter, env)
            if t == L:
                inner = env.copy()
                inner.types[g.target.id] = Z
                body, tb = expr(e.elt, inner)
                if tb == Z:
                    return ('(map (fun %s => %s) %s)' % (g.target.id, body, src), L)
        raise Untranslatable('comprehension %s' % text)
    if isinstance(e, ast.Tuple) or isinstance(e, ast.List):
        items = [expr(x, env) for x in e.elts]
        if all(t == Z for _, t in items):
            return ('[' + '; '.join(a for a, _ in items) + ']', L)
        raise Untranslatable('tuple %s' % text)
    raise Untranslatable('expression %s' % text)


def truth(e, env):
    """a Python condition as a Coq bool"""
    if _src(e) == 'self._shape_':
        return '(negb (len_shape =? 0))'
    a, t = expr(e, env)
    if t == B:
        return a
    if t == Z:
        return '(negb (%s =? 0))' % a
    if t == L:
        return '(negb (Nat.eqb (length %s) 0))' % a
    raise Untranslatable('condition %s' % _src(e))


# ---------------------------------------------------------------- statements
SELF_RETURN = 'return self if recursive else self.wod'
NEW_OBJ = ['obj = Qube.__new__(type(self))', None, 'obj._readonly_ = self._readonly_']
NPOPS = {'swapaxes': 'NSwap', 'rollaxis': 'NRoll', 'moveaxis': 'NMove'}


def only_raises(stmts):
    return len(stmts) == 1 and isinstance(stmts[0], ast.Raise)


def arr_op(call, which, env):
    """np.<f>(self._<which>_, a, b) or self._<which>_.<f>(a, b) -> coq nop"""
    if not (isinstance(call, ast.Call) and not call.keywords):
        raise Untranslatable('array operation %s' % _src(call))
    fn = _src(call.func)
    target = 'self._%s_' % which
    args = None
    name = None
    if fn.startswith('np.') and fn[3:] in NPOPS and len(call.args) == 3 and _src(call.args[0]) == target:
        name, args = fn[3:], call.args[1:]
    elif fn.startswith(target + '.') and fn[len(target) + 1:] in NPOPS and len(call.args) == 2:
        name, args = fn[len(target) + 1:], call.args
    if name is None:
        raise Untranslatable('array operation %s on %s' % (_src(call), target))
    vals = [expr(a, env) for a in args]
    if name == 'moveaxis':
        out = []
        for a, t in vals:
            out.append(a if t == L else '[%s]' % a)
            if t not in (L, Z):
                raise Untranslatable('moveaxis argument %s' % a)
        return '(NMove %s %s)' % tuple(out)
    if any(t != Z for _, t in vals):
        raise Untranslatable('axis argument of %s' % _src(call))
    return '(%s %s %s)' % (NPOPS[name], vals[0][0], vals[1][0])


class Fn:
    def __init__(self, name, params, ambient, skip=(), has_recursive=True, deriv_positions=None):
        self.name, self.params, self.ambient, self.skip = name, params, ambient, set(skip)
        self.has_recursive = has_recursive
        self.deriv_positions = deriv_positions


def assigned_simple(stmts, env):
    """a branch made of plain assignments to names -> {name: (coq, type)} evaluated in order"""
    out = {}
    e2 = env.copy()
    for s in stmts:
        if not (isinstance(s, ast.Assign) and len(s.targets) == 1 and isinstance(s.targets[0], ast.Name)):
            raise Untranslatable('branch statement %s' % _src(s))
        nm = s.targets[0].id
        if nm in out:
            raise Untranslatable('name %s assigned twice in one branch' % nm)
        for other in out:
            if any(isinstance(n, ast.Name) and n.id == other for n in ast.walk(s.value)):
                raise Untranslatable('branch reads %s after assigning it' % other)
        out[nm] = expr(s.value, e2)
    return out


def translate(fn, spec):
    env = Env(spec.params, spec.ambient)
    body = [s for s in fn.body if not (isinstance(s, ast.Expr) and isinstance(s.value, ast.Constant))]
    lines = []                 # coq text, each line ends with `in` or `else`
    state = {'pad': '0', 'v': None, 'm': None, 'obj': 0, 'dargs': None, 'done': False}
    fresh = [0]

    def let(name, val):
        lines.append('  let %s := %s in' % (name, val))

    i = 0
    while i < len(body):
        st = body[i]
        text = _src(st)
        i += 1
        if state['done']:
            raise Untranslatable('statement after return: %s' % text)
        if text in spec.skip:
            continue
        # --- construction of the result object
        if state['v'] is not None and state['obj'] < 3:
            k = state['obj']
            if k == 1:
                if not (isinstance(st, ast.Expr) and isinstance(st.value, ast.Call)
                        and _src(st.value.func) == 'obj.__init__' and len(st.value.args) == 2
                        and _src(st.value.args[0]) == 'new_values'
                        and [(_kw.arg, _src(_kw.value)) for _kw in st.value.keywords] == [('example', 'self')]):
                    raise Untranslatable('construction of the result: %s' % text)
                marg = _src(st.value.args[1])
                if marg == 'self._mask_' and state['m'] is None:
                    state['m'] = 'NId'
                elif marg == 'new_mask' and state['m'] is not None:
                    pass
                else:
                    raise Untranslatable('mask of the result: %s' % marg)
                state['obj'] = 2
                continue
            if k in (0, 2) and text == NEW_OBJ[k]:
                state['obj'] = k + 1
                continue
            if k == 0 and isinstance(st, ast.If) and state['m'] is None:
                pass            # the mask statement, below
            else:
                raise Untranslatable('construction of the result: %s' % text)
        if state['obj'] == 3:
            if text == 'return obj':
                state['done'] = True
                continue
            if (isinstance(st, ast.If) and _src(st.test) == 'recursive' and not st.orelse and len(st.body) == 1
                    and isinstance(st.body[0], ast.For) and state['dargs'] is None):
                f = st.body[0]
                if not (_src(f.target) == '(key, deriv)' and _src(f.iter) == 'self._derivs_.items()'
                        and len(f.body) == 1 and not f.orelse):
                    raise Untranslatable('derivative loop %s' % _src(f))
                c = f.body[0]
                if not (isinstance(c, ast.Expr) and isinstance(c.value, ast.Call)
                        and _src(c.value.func) == 'obj.insert_deriv' and len(c.value.args) == 2
                        and not c.value.keywords and _src(c.value.args[0]) == 'key'):
                    raise Untranslatable('derivative loop body %s' % _src(c))
                d = c.value.args[1]
                if not (isinstance(d, ast.Call) and _src(d.func) == 'deriv.' + spec.name and not d.keywords):
                    raise Untranslatable('derivative is not given the same method: %s' % _src(d))
                pos = spec.deriv_positions
                if len(d.args) != len(pos):
                    raise Untranslatable('derivative call arguments %s' % _src(d))
                out = []
                for a, p_ in zip(d.args, pos):
                    if p_ == 'recursive':
                        if _src(a) != 'False':
                            raise Untranslatable('derivative call must pass recursive=False: %s' % _src(d))
                        continue
                    v, t = expr(a, env)
                    out.append(v if t == L else '[%s]' % v)
                state['dargs'] = '[' + '; '.join(out) + ']'
                continue
            raise Untranslatable('statement after the result was built: %s' % text)
        # --- values / mask relabeling
        if isinstance(st, ast.Assign) and len(st.targets) == 1 and _src(st.targets[0]) == 'new_values':
            if state['v'] is not None:
                raise Untranslatable('new_values assigned twice')
            state['v'] = arr_op(st.value, 'values', env)
            continue
        if isinstance(st, ast.If) and _src(st.test) in ('np.isscalar(self._mask_)', 'np.shape(self._mask_)'):
            scalar_first = _src(st.test).startswith('np.isscalar')
            sb, ab = (st.body, st.orelse) if scalar_first else (st.orelse, st.body)
            if not (len(sb) == 1 and _src(sb[0]) == 'new_mask = self._mask_' and len(ab) == 1
                    and isinstance(ab[0], ast.Assign) and _src(ab[0].targets[0]) == 'new_mask'):
                raise Untranslatable('mask relabeling %s' % text)
            if state['m'] is not None:
                raise Untranslatable('new_mask assigned twice')
            state['m'] = arr_op(ab[0].value, 'mask', env)
            continue
        if state['v'] is not None:
            raise Untranslatable('statement between relabeling and construction: %s' % text)
        # --- integer prologue
        if isinstance(st, ast.Assign) and len(st.targets) == 1 and isinstance(st.targets[0], ast.Name):
            nm = st.targets[0].id
            v, t = expr(st.value, env)
            let(nm, v)
            env.types[nm] = t
            continue
        if isinstance(st, ast.If):
            if only_raises(st.body) and not st.orelse:
                lines.append('  if %s then PErr else' % truth(st.test, env))
                continue
            if len(st.body) == 1 and _src(st.body[0]) == SELF_RETURN and not st.orelse:
                if not spec.has_recursive:
                    raise Untranslatable(text)
                lines.append('  if %s then PSelf else' % truth(st.test, env))
                continue
            if (_src(st.test) == 'len_shape < rank' and not st.orelse and len(st.body) == 1 and _src(st.body[0]) ==
                    'self = self.reshape((rank - len_shape) * (1,) + self._shape_, recursive=recursive)'):
                if state['pad'] != '0':
                    raise Untranslatable('two paddings')
                let('pad', '(if len_shape <? rank then rank - len_shape else 0)')
                state['pad'] = 'pad'
                continue
            # assignments in both branches
            c = truth(st.test, env)
            b1 = assigned_simple(st.body, env)
            b2 = assigned_simple(st.orelse, env)
            fresh[0] += 1
            cn = 'c%d' % fresh[0]
            let(cn, c)
            for nm in sorted(set(b1) | set(b2)):
                if nm in b1 and nm in b2:
                    (x, tx), (y, ty) = b1[nm], b2[nm]
                elif nm in env.types:
                    (x, tx) = b1.get(nm, (nm, env.types[nm]))
                    (y, ty) = b2.get(nm, (nm, env.types[nm]))
                else:
                    raise Untranslatable('%s is assigned on one branch only and has no earlier value' % nm)
                if tx != ty:
                    raise Untranslatable('%s gets two types' % nm)
                let(nm + "'", '(if %s then %s else %s)' % (cn, x, y))
            for nm in sorted(set(b1) | set(b2)):
                let(nm, nm + "'")
                env.types[nm] = (b1.get(nm) or b2.get(nm))[1]
            continue
        if isinstance(st, ast.For) and not st.orelse:
            # for (name, axes) in (('source', source), ('destination', destination)): for x in axes: if c: raise
            if (isinstance(st.target, ast.Tuple) and len(st.target.elts) == 2 and isinstance(st.iter, ast.Tuple)
                    and all(isinstance(t_, ast.Tuple) and len(t_.elts) == 2 and isinstance(t_.elts[0], ast.Constant)
                            for t_ in st.iter.elts)):
                label, var = st.target.elts
                for t_ in st.iter.elts:
                    inner = env.copy()
                    v, ty = expr(t_.elts[1], env)
                    lines.extend(raising_loop(st.body, {var.id: (v, ty)}, inner))
                continue
            lines.extend(raising_loop([st], {}, env))
            continue
        raise Untranslatable('statement %s' % text)
    if not state['done'] or state['v'] is None or state['m'] is None:
        raise Untranslatable('%s: no result construction found' % spec.name)
    if spec.has_recursive and state['dargs'] is None:
        raise Untranslatable('%s: derivatives are not relabeled' % spec.name)
    lines.append('  PRel %s %s %s %s.' % (state['pad'], state['v'], state['m'], state['dargs'] or '[]'))
    return '\n'.join(lines)


def raising_loop(stmts, subst, env):
    """[for x in <list>: if cond: raise]  ->  if existsb (fun x => cond) <list> then PErr else"""
    if not (len(stmts) == 1 and isinstance(stmts[0], ast.For) and isinstance(stmts[0].target, ast.Name)
            and not stmts[0].orelse and len(stmts[0].body) == 1 and isinstance(stmts[0].body[0], ast.If)
            and only_raises(stmts[0].body[0].body) and not stmts[0].body[0].orelse):
        raise Untranslatable('loop %s' % _src(stmts[0]))
    f = stmts[0]
    it = _src(f.iter)
    if it in subst:
        src, t = subst[it]
    else:
        src, t = expr(f.iter, env)
    if t != L:
        raise Untranslatable('loop over %s' % it)
    inner = env.copy()
    inner.types[f.target.id] = Z
    cond = truth(f.body[0].test, inner)
    return ['  if existsb (fun %s => %s) %s then PErr else' % (f.target.id, cond, src)]


AMB = {'len(self._shape_)': ('len_shape', Z), 'self._nrank_': ('nrank', Z), 'self._drank_': ('drank', Z),
       }

SPECS = [
    ('shaper.py', Fn('swap_axes', {'axis1': Z, 'axis2': Z}, AMB, deriv_positions=['a', 'a', 'recursive']),
     '(len_shape axis1 axis2 : Z)'),
    ('shaper.py', Fn('roll_axis', {'axis': Z, 'start': Z, 'rank': Z}, AMB,
                     deriv_positions=['a', 'a', 'recursive', 'a']),
     '(len_shape axis start rank : Z)'),
    ('shaper.py', Fn('move_axis', {'source': L, 'destination': L, 'rank': Z}, AMB,
                     skip={'if isinstance(source, numbers.Integral):\n    source = (source,)',
                           'if isinstance(destination, numbers.Integral):\n    destination = (destination,)'},
                     deriv_positions=['a', 'a', 'recursive', 'a']),
     '(len_shape : Z) (source destination : list Z) (rank : Z)'),
    ('item_ops.py', Fn('transpose_numer', {'axis1': Z, 'axis2': Z}, AMB, deriv_positions=['a', 'a', 'recursive']),
     '(len_shape nrank axis1 axis2 : Z)'),
    ('item_ops.py', Fn('transpose_denom', {'axis1': Z, 'axis2': Z}, AMB, has_recursive=False),
     '(len_shape nrank drank axis1 axis2 : Z)'),
]


def find(tree, name):
    for n in tree.body:
        if isinstance(n, ast.FunctionDef) and n.name == name:
            return n
    raise Untranslatable('function %s not found' % name)


def generate(out_path=None):
    trees = {}
    defs = []
    for fname, spec, sig in SPECS:
        if fname not in trees:
            trees[fname] = ast.parse(open(os.path.join(REPO, 'polymath', 'extensions', fname)).read())
        fn = find(trees[fname], spec.name)
        want = [a.arg for a in fn.args.args]
        for pn in spec.params:
            if pn not in want:
                raise Untranslatable('%s has no parameter %s' % (spec.name, pn))
        try:
            body = translate(fn, spec)
        except Untranslatable as e:
            raise Untranslatable('%s.%s: %s' % (fname, spec.name, e))
        defs.append('Definition gen_%s %s : plan :=\n%s\n' % (spec.name, sig, body))
    text = '''(* GENERATED by tools/regen/shape_ast.py from %s - do not edit *)
From Coq Require Import List ZArith Bool.
From PM Require Import Base Mask C15Model ShpModel.
Import ListNotations.
Local Open Scope Z_scope.

%s''' % (REPO, '\n'.join(defs))
    out_path = out_path or os.path.join(HERE, 'coq', 'gen', 'Gen_shape.v')
    os.makedirs(os.path.dirname(out_path), exist_ok=True)
    with open(out_path, 'w') as f:
        f.write(text)
    return (out_path, len(defs), sum(d.count('\n') for d in defs))


if __name__ == '__main__':
    try:
        print(generate(sys.argv[1] if len(sys.argv) > 1 else None))
    except Untranslatable as e:
        print('UNTRANSLATABLE:', e)
        sys.exit(3)
