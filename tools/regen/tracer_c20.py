"""C20 kernels for the symbolic tracer: Polynomial.__add__ __sub__ __neg__ __mul__ __pow__
deriv eval run on symbolic coefficients, and the obligation each traced instance must meet.
(DESIGN.md section 7, C20; same machinery as tracer_c16.py, which is reused unchanged.)

    python -m tools.regen.tracer_c20 [kernel names]      # run from /verif; VERIF_REPO honoured

writes  coq/gen/Gen_kern_poly_<op>_<orders>.v   the coefficient expressions the CURRENT source computes
        coq/gen/obl/C20_poly_<...>.v            obligations: hand-written schemas over the list model
                                                (C20Model / C20Real) instantiated on the emitted terms
        _build/C20/trace_manifest.json

Instances: add sub mul for every order pair 0..5 (36 each), neg deriv eval for orders 0..5,
** for orders 0..5 and exponents 0..4.  Per instance:
  ref   every traced coefficient = the corresponding entry of padd/psub/pmul/pneg/ppow/pderiv of the
        hand-written general list model applied to the symbolic coefficient lists (ring);
  hom   forall x, peval [traced coefficients] x = peval p x (+ - *) peval q x,  (peval p x)^n,
        - peval p x,  peval (pderiv p) x   (ring);
  eval: traced eval value = peval [coefficients] x (Horner) = the explicit sum of c_i x^(n-i).
"""
import json
import os
import sys

import numpy as np

from .tracer_c16 import FloatIO, Obl, seed_vals

HERE = os.path.dirname(os.path.dirname(os.path.dirname(os.path.abspath(__file__))))
MAXORD = 5
MAXEXP = 4
RING = 'c20_ring.'


class Obl20(Obl):
    def add(self, name, hyps, concl, tactic, quant=''):
        stmt = ''
        if self.P:
            stmt += 'forall %s : R, ' % self.P
        stmt += quant
        for h in hyps:
            stmt += '%s -> ' % h
        stmt += concl
        unfold = 'unfold %s in *' % ', '.join(self.info['defs'])
        proof = 'Proof. intros. %s. %s Qed.' % (unfold, tactic)
        self.lemmas.append(('C20_%s_%s' % (self.kern, name), stmt, proof))


def rlist(items):
    items = list(items)
    if not items:
        return '(@nil R)'
    return '(%s)' % ' :: '.join(list(items) + ['nil'])


def coefs(prefix, order):
    return rlist('%s%d' % (prefix, i) for i in range(order + 1))


KERNELS = []


def kernel(name, oblig):
    def deco(fn):
        KERNELS.append((name, fn, oblig))
        return fn
    return deco


def out_list(o, n):
    return rlist(o.d('r', i) for i in range(n))


def _ref(o, n, model):
    return o.conj('%s = nth %d%%nat %s 0' % (o.d('r', i), i, model) for i in range(n))


for _o1 in range(MAXORD + 1):
    for _o2 in range(MAXORD + 1):
        for _op, _sym, _model in (('add', '+', 'padd'), ('sub', '-', 'psub'), ('mul', '*', 'pmul')):
            def _bin(io, Pm, o1=_o1, o2=_o2, op=_op):
                p = Pm.Polynomial(io.vector('a', seed_vals(1 + o1, o1 + 1)))
                q = Pm.Polynomial(io.vector('b', seed_vals(9 + o2, o2 + 1)))
                r = {'add': lambda: p + q, 'sub': lambda: p - q, 'mul': lambda: p * q}[op]()
                assert type(r).__name__ == 'Polynomial'
                io.output('r', r.values, r.mask)

            def _bin_obl(o, o1=_o1, o2=_o2, op=_op, sym=_sym, model=_model):
                n = (o1 + o2 + 1) if op == 'mul' else (max(o1, o2) + 1)
                A, B = coefs('a', o1), coefs('b', o2)
                o.add('length', [], '%d%%nat = length (%s %s %s)' % (n, model, A, B), 'reflexivity.')
                o.add('ref', [], _ref(o, n, '(%s %s %s)' % (model, A, B)), RING)
                o.add('hom', [], 'peval %s x = peval %s x %s peval %s x' % (out_list(o, n), A, sym, B), RING,
                      quant='forall x : R, ')
            kernel('poly_%s_%d_%d' % (_op, _o1, _o2), _bin_obl)(_bin)

for _o1 in range(MAXORD + 1):
    def _neg(io, Pm, o1=_o1):
        p = Pm.Polynomial(io.vector('a', seed_vals(2 + o1, o1 + 1)))
        r = -p
        io.output('r', r.values, r.mask)

    def _neg_obl(o, o1=_o1):
        A = coefs('a', o1)
        o.add('ref', [], _ref(o, o1 + 1, '(pneg %s)' % A), RING)
        o.add('hom', [], 'peval %s x = - peval %s x' % (out_list(o, o1 + 1), A), RING, quant='forall x : R, ')
    kernel('poly_neg_%d' % _o1, _neg_obl)(_neg)

    def _der(io, Pm, o1=_o1):
        p = Pm.Polynomial(io.vector('a', seed_vals(3 + o1, o1 + 1)))
        r = p.deriv()
        io.output('r', r.values, r.mask)

    def _der_obl(o, o1=_o1):
        A = coefs('a', o1)
        n = max(o1, 1)
        o.add('length', [], '%d%%nat = length (pderiv %s)' % (n, A), 'reflexivity.')
        o.add('ref', [], _ref(o, n, '(pderiv %s)' % A), RING)
        o.add('hom', [], 'peval %s x = peval (pderiv %s) x' % (out_list(o, n), A), RING, quant='forall x : R, ')
        # the formal derivative, spelled out: coefficient i is (order - i) * a_i
        if o1 >= 1:
            o.add('formal', [], o.conj('%s = %d * a%d' % (o.d('r', i), o1 - i, i) for i in range(o1)), RING)
    kernel('poly_deriv_%d' % _o1, _der_obl)(_der)

    def _ev(io, Pm, o1=_o1):
        p = Pm.Polynomial(io.vector('a', seed_vals(4 + o1, o1 + 1)))
        x = io.scalar('x', 0.7)
        r = p.eval(Pm.Scalar(x))
        io.output('v', r.values if hasattr(r, 'values') else r, getattr(r, 'mask', False))

    def _ev_obl(o, o1=_o1):
        A = coefs('a', o1)
        o.add('horner', [], '%s = peval %s x' % (o.d('v'), A), RING)
        o.add('powers', [], '%s = %s' % (o.d('v'), ' + '.join('a%d * x ^ %d' % (i, o1 - i) for i in range(o1 + 1))), RING)
    kernel('poly_eval_%d' % _o1, _ev_obl)(_ev)

    for _n in range(MAXEXP + 1):
        def _pow(io, Pm, o1=_o1, n=_n):
            p = Pm.Polynomial(io.vector('a', seed_vals(5 + o1, o1 + 1)))
            r = p ** n
            io.output('r', r.values, r.mask)

        def _pow_obl(o, o1=_o1, n=_n):
            A = coefs('a', o1)
            L = 1 if n == 0 else n * o1 + 1
            o.add('length', [], '%d%%nat = length (ppow %s %d)' % (L, A, n), 'reflexivity.')
            o.add('ref', [], _ref(o, L, '(ppow %s %d)' % (A, n)), RING)
            o.add('hom', [], 'peval %s x = (peval %s x) ^ %d' % (out_list(o, L), A, n), RING, quant='forall x : R, ')
        kernel('poly_pow_%d_%d' % (_o1, _n), _pow_obl)(_pow)


OBL_HEADER = '''(* GENERATED on every run by tools/regen/tracer_c20.py. Do not edit.
   Obligations of traced kernel %s: hand-written schemas (C20Model / C20Real) instantiated on the
   coefficient expressions emitted from the current source. *)
From Coq Require Import Reals List.
From PM Require Import C20Model C20Real.
From PMGen Require Import Gen_kern_%s.
Import ListNotations.
Local Open Scope R_scope.
'''


def _extend_proxy(T):
    """Qube.from_scalars (used by eval) builds its value array with np.array([...]); in the tracer
    process a list holding Sym values / object arrays must become an object array instead of being
    coerced to float.  Added to the proxy of THIS process only (tracer.py itself is not edited)."""
    def _array(obj, dtype=None, *args, **kw):
        if isinstance(obj, (list, tuple)) and obj and any(T._is_symbolic(e) for e in obj):
            parts = []
            for e in obj:
                if isinstance(e, T.Sym):
                    a = np.empty((), dtype=object)
                    a[()] = e
                else:
                    a = np.asarray(e, dtype=object)
                parts.append(a)
            return np.stack(parts)
        return np.array(obj, dtype, *args, **kw)
    T.NpProxy.array = staticmethod(_array)


def run_float(name, fn, Pm):
    io = FloatIO(name)
    fn(io, Pm)
    return io


def main(argv):
    from . import tracer as T
    from . import emit_coq as EC
    verif = HERE
    gen = os.environ.get('VERIF_GEN') or os.path.join(verif, 'coq', 'gen')
    obl = os.path.join(gen, 'obl')
    build = os.path.join(os.environ.get('VERIF_BUILD') or os.path.join(verif, '_build'), 'C20')
    for d in (gen, obl, build):
        os.makedirs(d, exist_ok=True)
    only = set(argv[1:])
    Pm = T.install()
    _extend_proxy(T)
    manifest = {'kernels': [], 'errors': []}
    for name, fn, oblig in KERNELS:
        if only and name not in only:
            continue
        entry = {'name': name}
        try:
            with T.Trace(name) as tr:
                fn(tr, Pm)
            bad = tr.sanity()
            text, info = EC.kernel_file(tr)
            # every definition takes the same parameters; a coefficient that does not occur in any output
            # (e.g. the constant term in deriv) must still be a parameter of the lemma statements
            declared = [nm for nm, _ in tr.inputs]
            if info['params'] != declared:
                raise T.TraceError('parameter list %s differs from the declared inputs %s' % (info['params'], declared))
            o = Obl20(name, info)
            oblig(o)
            with open(os.path.join(gen, 'Gen_kern_%s.v' % name), 'w') as f:
                f.write(text)
            with open(os.path.join(obl, 'C20_%s.v' % name), 'w') as f:
                f.write(OBL_HEADER % (name, name))
                for lname, stmt, proof in o.lemmas:
                    f.write('\nLemma %s :\n  %s.\n%s\n' % (lname, stmt, proof))
                f.write('\nDefinition C20_%s_all := (%s).\n' % (name, ', '.join(['I'] + [l[0] for l in o.lemmas])))
                f.write('Print Assumptions C20_%s_all.\n' % name)
            env = tr.env()
            memo = {}
            entry.update({
                'params': info['params'], 'defs': info['defs'],
                'inputs': tr.inputs,
                'outputs': [[g, list(idx), T.evaluate(e, env, memo), v] for g, idx, e, v in tr.outputs],
                'masks': tr.masks, 'path': info['path'],
                'sanity_bad': [[g, list(i), v, w] for g, i, v, w in bad],
                'lemmas': [l[0] for l in o.lemmas],
                'dag_nodes': max(T.node_size(e) for _, _, e, _ in tr.outputs),
            })
        except Exception as e:       # fail closed: the harness reports a broken tie
            import traceback
            entry['error'] = '%s: %s' % (type(e).__name__, e)
            entry['traceback'] = traceback.format_exc()[-1500:]
            manifest['errors'].append(name)
            T._CURRENT[0] = None
        manifest['kernels'].append(entry)
    with open(os.path.join(build, 'trace_manifest.json'), 'w') as f:
        json.dump(manifest, f, indent=0)
    print('traced %d kernels, %d errors' % (len(manifest['kernels']), len(manifest['errors'])))
    return 0


if __name__ == '__main__':
    sys.exit(main(sys.argv))
