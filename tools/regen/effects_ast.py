#!/venv/bin/python
"""Fail-closed AST analysis of the SELF-MUTATING methods of polymath (regeneration tie for C18, C19 and C08).

Reads, from the CURRENT source tree (VERIF_REPO or /repo), every method that changes its receiver in place
(the in-place operators of Qube and of the classes that override them, item assignment, set_units,
insert_deriv(s), delete_deriv(s), as_readonly, the low-level _set_values_/_set_mask_/_new_values_) and emits, for
each, the list of its control-flow PATHS as sequences of abstract events:

    EReq                 self.require_writable()
    EChk                 a validation helper that may raise (self._require_*, Units.require_*)
    ERaise               `raise ...` or a call of Qube._raise_* (always raises): ends the path
    EPure c              a statement without effect on the fields of the receiver (c = it calls a method of the receiver
                         or reads antimask / corners / _slicer / wod, so it may FILL the cache with fresh views)
    EMut f               a store into a field of the receiver (f = values | mask | units | derivs | readonly):
                         self._f_ = ..., self._f_ op= ..., self._f_[...] = ..., del self._f_[...], self._f_.fill(...),
                         setattr/delattr(self, ...), self.__dict__[...]
    EInvFull             self._cache_.clear()
    (self._new_values_() is an ordinary ECall: what it invalidates is read from its own body)
    EInvKey k            del self._cache_[k]
    ECall n              a call of another analysed method on the receiver (self.n(...), super(...).n(...), C.n(self, ...))
    ECallFailed n        the same call inside `try:` on the path through an `except` handler
    ERet                 return
    (no event)           self._f_ = self._f_.copy() and self._f_ = Qube._array_to_readonly(self._f_): same content
    EInherit             (derived objects only) obj._cache_ = self._cache_.copy(): the new object, whose fields were
                         just copied from the receiver, takes over the receiver's cache entries

The number fast paths build their result as `obj = self.clone(..., retain_cache=True); obj._set_values_(...,
retain_cache=True)`: these methods (DERIVED) and clone() itself are analysed once more with `obj` as the subject.

`if` contributes both branches, a loop zero, one and two iterations of its body, `try/except` the normal path and,
for every statement of the body that may have raised, one path per handler; `with` its body.  Anything outside
this subset - an unknown attribute of self being assigned, `self = ...`, try/finally, loop/else, more than
MAX_PATHS paths -
raises Untranslatable: the check then reports the broken tie instead of proving facts about stale text.

Output: coq/gen/Gen_effects.v   (Definition gen_table : list fn)."""
import ast
import os
import sys

REPO = os.environ.get('VERIF_REPO', '/repo')
HERE = os.path.dirname(os.path.dirname(os.path.dirname(os.path.abspath(__file__))))
MAX_PATHS = 4000


class Untranslatable(Exception):
    pass


# (file, class or None for module-level extension functions, [method names])
TARGETS = [
    ('polymath/qube.py', 'Qube', ['_set_values_', '_new_values_', '_set_mask_', 'insert_deriv', 'insert_derivs',
                                  'delete_deriv', 'delete_derivs', 'set_units', 'as_readonly', 'match_readonly',
                                  '__iadd__', '__isub__', '__imul__', '__itruediv__', '__idiv__', '__ifloordiv__',
                                  '__imod__', '__iand__', '__ior__', '__ixor__']),
    ('polymath/extensions/indexer.py', None, ['__setitem__']),
    ('polymath/matrix3.py', 'Matrix3', ['__imul__']),
    ('polymath/matrix.py', 'Matrix', ['__ifloordiv__', '__imod__']),
    ('polymath/boolean.py', 'Boolean', ['__iadd__', '__isub__', '__imul__', '__itruediv__', '__ifloordiv__', '__imod__']),
    ('polymath/polynomial.py', 'Polynomial', ['__iadd__', '__isub__', '__imul__', '__itruediv__']),
]
BASES = {}          # class name -> first base class name (filled by collect)
DEFINES = {}        # class name -> set of method names it defines


def resolve(cls, name):
    """the class whose definition of `name` an object of class `cls` runs (MRO = chain of first bases)"""
    c = cls
    while c is not None:
        if name in DEFINES.get(c, ()):
            return c
        c = BASES.get(c)
    return None


FIELDS = {'_values_': 'FValues', '_mask_': 'FMask', '_units_': 'FUnits', '_derivs_': 'FDerivs',
          '_readonly_': 'FReadonly'}
CACHE_KEYS = {'antimask': 'KAnti', 'corners': 'KCorn', 'slicer': 'KSlic', 'wod': 'KWod', 'unshrunk': 'KUnsh'}
CACHING_PROPS = {'antimask', 'corners', '_slicer', 'wod', 'cache'}
# methods of the receiver that are known not to touch its cache (pure predicates / formatting helpers)
CACHE_FREE = {'is_int', 'is_float', 'is_bool', 'dtype', '_opstr', 'require_writable'}
MUTATOR_NAMES = set(n for _, _, ns in TARGETS for n in ns)


SUBJ = ['self']      # the variable whose object is analysed ('self', or 'obj' for objects derived from a clone)


def is_self(n):
    return isinstance(n, ast.Name) and n.id == SUBJ[0]


def self_field(n):
    """'_values_' ... if n is self.<field>, else None"""
    if isinstance(n, ast.Attribute) and is_self(n.value):
        return n.attr
    return None


def store_events(target, deleting=False):
    """events of one assignment / deletion target"""
    if isinstance(target, (ast.Tuple, ast.List)):
        out = []
        for e in target.elts:
            out += store_events(e, deleting)
        return out
    if isinstance(target, ast.Starred):
        return store_events(target.value, deleting)
    if isinstance(target, ast.Name):
        if target.id == SUBJ[0]:
            raise Untranslatable('the analysed object is rebound (%s = ...)' % SUBJ[0])
        return []
    base = target
    sub = False
    while isinstance(base, ast.Subscript):
        sub = True
        base = base.value
    f = self_field(base)
    if f is not None:
        if f in FIELDS:
            return [('EMut', FIELDS[f])]
        if f == '_cache_':
            if not sub:
                raise Untranslatable('self._cache_ is rebound')
            key = target.slice
            if isinstance(key, ast.Constant) and key.value in CACHE_KEYS:
                return [('EInvKey', CACHE_KEYS[key.value])] if deleting else [('EPure', False)]
            return [('EPure', False)]       # a cached entry is replaced by an equivalent one (as_readonly)
        if f == '__dict__' and sub:
            if SUBJ[0] != 'self':            # clone(): every attribute is transferred
                return [('EMut', x) for x in sorted(set(FIELDS.values()))]
            return [('EMut', 'FDerivs')]     # the d_d<key> attributes
        raise Untranslatable('store into self.%s' % f)
    if isinstance(base, ast.Attribute) or isinstance(base, ast.Name):
        # a store into something that is not the receiver's own field (a local array, another object)
        return []
    raise Untranslatable('store target %s' % ast.dump(target)[:80])


def call_events(stmt):
    """events contributed by the calls inside one simple statement; -> (events, always_raises, has_other_call)"""
    ev = []
    raises = False
    other = False
    for n in ast.walk(stmt):
        if not isinstance(n, ast.Call):
            continue
        fn = n.func
        if isinstance(fn, ast.Attribute):
            recv, name = fn.value, fn.attr
            # self._cache_.clear()
            if name == 'clear' and self_field(recv) == '_cache_':
                ev.append(('EInvFull',))
                continue
            if name in ('fill', 'sort', 'resize', 'put', 'itemset') and self_field(recv) in FIELDS:
                ev.append(('EMut', FIELDS[self_field(recv)]))
                continue
            on_self = is_self(recv) or (isinstance(recv, ast.Call) and isinstance(recv.func, ast.Name)
                                        and recv.func.id == 'super')
            explicit = (isinstance(recv, ast.Name) and recv.id[:1].isupper() and n.args and is_self(n.args[0]))
            if on_self or explicit:
                if name == '__init__' and SUBJ[0] != 'self':
                    ev.append(('EInvFull',))
                    ev += [('EMut', x) for x in sorted(set(FIELDS.values()))]
                    continue
                if name == 'require_writable':
                    ev.append(('EReq',))
                    continue
                if name.startswith('_require_') or name.startswith('_check_'):
                    ev.append(('EChk',))
                    continue
                if name == '_set_values_':
                    args = n.args[1:] if explicit else n.args
                    kw = {k.arg: k.value for k in n.keywords}
                    has_mask = len(args) >= 2 or ('mask' in kw and not (isinstance(kw['mask'], ast.Constant)
                                                                        and kw['mask'].value is None))
                    rc = kw.get('retain_cache')
                    retain = isinstance(rc, ast.Constant) and rc.value is True
                    if has_mask or rc is None or (isinstance(rc, ast.Constant) and not rc.value):
                        name = '_set_values_@full'
                    elif retain:
                        name = '_set_values_@retain'
                if name in MUTATOR_NAMES or name.startswith('_set_values_@'):
                    base = name.split('@')[0]
                    tag = name[len(base):]
                    if explicit:                                  # C.m(self, ...)
                        owner = resolve(recv.id, base)
                    elif not is_self(recv):                       # super(C, self).m(...)
                        sc = recv.args[0].id if (recv.args and isinstance(recv.args[0], ast.Name)) else CURRENT[0]
                        owner = resolve(BASES.get(sc), base)
                    else:
                        owner = None                              # self.m(...): decided by the class of the receiver
                    if (explicit or not is_self(recv)) and owner is None:
                        raise Untranslatable('cannot resolve %s.%s' % (ast.unparse(recv), base))
                    ev.append(('ECall', (owner + '.' if owner else '') + base + tag))
                    continue
            if isinstance(recv, ast.Name) and recv.id in ('Qube', 'Units') and name.startswith('_raise_'):
                raises = True
                continue
            if isinstance(recv, ast.Name) and recv.id == 'Units' and name.startswith('require_'):
                ev.append(('EChk',))
                continue
            if on_self and name not in CACHE_FREE:
                other = True             # a method of the receiver: it may ask for (and fill) a cached view
        elif isinstance(fn, ast.Name):
            if fn.id in ('setattr', 'delattr') and n.args and is_self(n.args[0]):
                ev.append(('EMut', 'FDerivs'))
                continue
    for n in ast.walk(stmt):             # the cached properties themselves
        if isinstance(n, ast.Attribute) and is_self(n.value) and n.attr in CACHING_PROPS:
            other = True
    return ev, raises, other


def simple(stmt):
    """-> (events, terminated)"""
    if isinstance(stmt, ast.Pass):
        return [], False
    if isinstance(stmt, ast.Expr) and isinstance(stmt.value, ast.Constant):
        return [], False                    # docstring
    if isinstance(stmt, ast.Return):
        ev, raises, other = call_events(stmt)
        return ([('EPure', True)] if other else []) + ev + [('ERet',)], True
    if isinstance(stmt, ast.Raise):
        return [('ERaise',)], True
    if isinstance(stmt, (ast.FunctionDef, ast.Import, ast.ImportFrom, ast.Global, ast.Assert)):
        return [('EPure', False)], False
    if isinstance(stmt, (ast.Break, ast.Continue)):
        return [('EBreak',)], False
    if isinstance(stmt, ast.Assign) and len(stmt.targets) == 1:
        t, v = stmt.targets[0], stmt.value
        if isinstance(t, ast.Name) and t.id == SUBJ[0] and SUBJ[0] != 'self':
            # the analysed object comes into being
            if isinstance(v, ast.Call) and isinstance(v.func, ast.Attribute):
                if v.func.attr == 'clone':
                    kw = {k.arg: k.value for k in v.keywords}
                    rc = kw.get('retain_cache')
                    if isinstance(rc, ast.Constant) and rc.value is True:
                        return [('ECall', 'clone@retain')], False
                    if rc is None or (isinstance(rc, ast.Constant) and not rc.value):
                        return [('EInvFull',)], False
                    raise Untranslatable('clone with a computed retain_cache')
                if v.func.attr == '__new__':
                    return [('EInvFull',)], False
            raise Untranslatable('%s is bound to %s' % (SUBJ[0], ast.unparse(v)[:60]))
        f = self_field(t)
        if f in FIELDS and ast.unparse(v) in ('%s.%s.copy()' % (SUBJ[0], f), 'Qube._array_to_readonly(%s.%s)' % (SUBJ[0], f)):
            return [('EPure', False)], False     # the same content in a new / read-only array: no view changes
        if self_field(t) == '_cache_':
            src = ast.unparse(v)
            if src == 'self._cache_.copy()' and SUBJ[0] != 'self':
                return [('EInherit',)], False
            if src == '{}':
                return [('EInvFull',)], False
            raise Untranslatable('cache assigned from %s' % src[:60])
    if isinstance(stmt, (ast.Expr, ast.Assign, ast.AugAssign, ast.AnnAssign, ast.Delete)):
        ev, raises, other = call_events(stmt)
        out = []
        if other:
            out.append(('EPure', True))
        out += ev
        if raises:
            return out + [('ERaise',)], True
        if isinstance(stmt, ast.Assign):
            for t in stmt.targets:
                out += store_events(t)
        elif isinstance(stmt, (ast.AugAssign, ast.AnnAssign)):
            out += store_events(stmt.target)
        elif isinstance(stmt, ast.Delete):
            for t in stmt.targets:
                out += store_events(t, deleting=True)
        if not out:
            out = [('EPure', False)]
        return out, False
    raise Untranslatable('statement %s' % type(stmt).__name__)


def cond_events(test):
    ev, raises, other = call_events(ast.Expr(value=test))
    if raises:
        raise Untranslatable('a condition that always raises')
    return ([('EPure', True)] if other else []) + [e for e in ev if e[0] != 'EPure']


def seq(stmts):
    """all paths through a statement list: [(events, status)] with status in 'go' | 'end' (return / raise) |
    'break' (leaves the innermost loop iteration)"""
    results = [([], 'go')]
    for st in stmts:
        new = []
        for ev, status in results:
            if status != 'go':
                new.append((ev, status))
                continue
            for ev2, st2 in stmt_paths(st):
                new.append((ev + ev2, st2))
        # paths that differ only in pure statements are the same path
        seen, results = set(), []
        for ev, status in new:
            ev = compress(ev)
            k = (tuple(ev), status)
            if k not in seen:
                seen.add(k)
                results.append((ev, status))
        if len(results) > MAX_PATHS:
            raise Untranslatable('more than %d paths' % MAX_PATHS)
    return results


CURRENT = [None]    # class being analysed
SPEC = {}       # source text of an `if` test -> the branch taken (call-site specialisation of _set_values_)


def guarded_delete(st):
    """`if '<key>' in X._cache_: del X._cache_['<key>']` (X the analysed object) is an unconditional removal of the
    entry: -> its events, or None"""
    t = st.test
    if not (isinstance(t, ast.Compare) and len(t.ops) == 1 and isinstance(t.ops[0], ast.In)
            and isinstance(t.left, ast.Constant) and isinstance(t.left.value, str)
            and self_field(t.comparators[0]) == '_cache_' and not st.orelse and len(st.body) == 1):
        return None
    d = st.body[0]
    if not (isinstance(d, ast.Delete) and len(d.targets) == 1 and isinstance(d.targets[0], ast.Subscript)
            and self_field(d.targets[0].value) == '_cache_' and isinstance(d.targets[0].slice, ast.Constant)
            and d.targets[0].slice.value == t.left.value):
        return None
    k = t.left.value
    return [('EInvKey', CACHE_KEYS[k])] if k in CACHE_KEYS else [('EPure', False)]


def stmt_paths(st):
    if isinstance(st, ast.If):
        g = guarded_delete(st)
        if g is not None:
            return [(g, 'go')]
        c = cond_events(st.test)
        out = []
        src = ast.unparse(st.test)
        if src in SPEC:
            branches = seq(st.body) if SPEC[src] else (seq(st.orelse) if st.orelse else [([], 'go')])
        else:
            branches = seq(st.body) + (seq(st.orelse) if st.orelse else [([], 'go')])
        for ev, status in branches:
            out.append((c + ev, status))
        return out
    if isinstance(st, (ast.For, ast.While)):
        if st.orelse:
            raise Untranslatable('loop with else')
        head = cond_events(st.iter if isinstance(st, ast.For) else st.test)
        body = seq(st.body)
        out = [(head, 'go')]                                  # zero iterations
        once = []
        for ev, status in body:
            if status == 'end':
                out.append((head + ev, 'end'))
            else:
                once.append(ev)
                out.append((head + ev, 'go'))               # one iteration
        for e1 in once:                                       # two iterations (a check of the second iteration
            for ev, status in body:                           # after a mutation of the first one)
                out.append((head + e1 + ev, 'end' if status == 'end' else 'go'))
        if len(out) > MAX_PATHS:
            raise Untranslatable('more than %d paths' % MAX_PATHS)
        return out
    if isinstance(st, ast.Try):
        if st.finalbody:
            raise Untranslatable('try with finally')
        out = list(seq(st.body + st.orelse))
        # the exception may come from any statement of the body: the statements before it have run
        for k, failing in enumerate(st.body):
            if isinstance(failing, (ast.If, ast.For, ast.While, ast.Try, ast.With)):
                if k or len(st.body) > 1:
                    raise Untranslatable('compound statement inside a multi-statement try body')
                failed = [('EPure', True)]
            else:
                ev0, _, _ = call_events(failing)
                failed = [('ECallFailed', e[1]) for e in ev0 if e[0] == 'ECall'] or [('EPure', True)]
            for pre, pst in (seq(st.body[:k]) if k else [([], 'go')]):
                if pst != 'go':
                    continue
                for h in st.handlers:
                    for ev, status in seq(h.body):
                        out.append((pre + failed + ev, status))
        return out
    if isinstance(st, ast.With):
        head = []
        for item in st.items:
            head += cond_events(item.context_expr)
        return [(head + ev, status) for ev, status in seq(st.body)]
    ev, term = simple(st)
    if ev and ev[-1] == ('EBreak',):
        return [(ev[:-1], 'break')]
    return [(ev, 'end' if term else 'go')]


def analyse(fnode):
    paths = []
    for ev, status in seq(fnode.body):
        if status == 'break':
            raise Untranslatable('break outside a loop')
        ev = [e for e in ev if e != ('EBreak',)]
        if status == 'go':
            ev = ev + [('ERet',)]
        paths.append(ev)
    # de-duplicate, keep order
    seen, out = set(), []
    for p in paths:
        k = tuple(p)
        if k not in seen:
            seen.add(k)
            out.append(p)
    return out


def find_function(tree, cls, name):
    if cls is None:
        for n in tree.body:
            if isinstance(n, ast.FunctionDef) and n.name == name:
                return n
        return None
    for n in tree.body:
        if isinstance(n, ast.ClassDef) and n.name == cls:
            for m in n.body:
                if isinstance(m, ast.FunctionDef) and m.name == name:
                    return m
    return None


def coq_event(e):
    if e[0] == 'EPure':
        return '(EPure %s)' % ('true' if e[1] else 'false')
    if e[0] == 'EMut':
        return '(EMut %s)' % e[1]
    if e[0] == 'EInvKey':
        return '(EInvKey %s)' % e[1]
    if e[0] == 'EInherit':
        return 'EInherit'
    if e[0] in ('ECall', 'ECallFailed'):
        return '(%s "%s")' % (e[0], e[1])
    return e[0]


def discover():
    """class hierarchy of the package and every class that defines one of the analysed method names"""
    import glob
    found = []
    listed = set((c or 'Qube', n) for _, c, ns in TARGETS for n in ns)
    for path in sorted(glob.glob(os.path.join(REPO, 'polymath', '*.py'))):
        tree = ast.parse(open(path).read())
        for n in tree.body:
            if isinstance(n, ast.ClassDef):
                b0 = n.bases[0] if n.bases else None
                BASES[n.name] = b0.id if isinstance(b0, ast.Name) else None
                DEFINES.setdefault(n.name, set())
                for m in n.body:
                    if isinstance(m, ast.FunctionDef):
                        DEFINES[n.name].add(m.name)
                        if m.name in MUTATOR_NAMES and (n.name, m.name) not in listed:
                            found.append((os.path.relpath(path, REPO), n.name, m.name))
    # extension functions are attached to Qube
    DEFINES.setdefault('Qube', set()).update(n for _, c, ns in TARGETS if c is None for n in ns)
    return found


# objects derived from a clone that keeps the cache of its source (the number fast paths): (method, subject variable)
DERIVED = [('__add__', 'obj'), ('__sub__', 'obj'), ('_mul_by_number', 'obj'), ('_div_by_number', 'obj'),
           ('_floordiv_by_number', 'obj'), ('_mod_by_number', 'obj')]


def collect_derived(tree):
    out = []
    fn = find_function(tree, 'Qube', 'clone')
    if fn is None:
        raise Untranslatable('Qube.clone not found')
    CURRENT[0] = 'Qube'
    SUBJ[0] = 'obj'
    try:
        if 'retain_cache' not in [ast.unparse(x.test) for x in ast.walk(fn) if isinstance(x, ast.If)]:
            raise Untranslatable('clone: the cache branch `if retain_cache` was not found')
        SPEC['retain_cache'] = True
        out.append(('Qube', 'clone@retain', analyse(fn)))
        SPEC.clear()
        n_sites = 0
        for name, subj in DERIVED:
            f = find_function(tree, 'Qube', name)
            if f is None:
                raise Untranslatable('Qube.%s not found' % name)
            SUBJ[0] = subj
            paths = analyse(f)
            n_sites += sum(1 for p in paths if ('ECall', 'clone@retain') in p)
            out.append(('Qube', 'derived:' + name, paths))
        # every clone(retain_cache=True) of the package must be among the analysed sites
        total = 0
        import glob
        for path in glob.glob(os.path.join(REPO, 'polymath', '*.py')) + glob.glob(os.path.join(REPO, 'polymath', 'extensions', '*.py')):
            for n in ast.walk(ast.parse(open(path).read())):
                if isinstance(n, ast.Call) and isinstance(n.func, ast.Attribute) and n.func.attr == 'clone':
                    for k in n.keywords:
                        if k.arg == 'retain_cache' and not (isinstance(k.value, ast.Constant) and not k.value.value) \
                                and not (isinstance(k.value, ast.Name) and k.value.id == 'retain_cache'):
                            total += 1
        listed = 0
        for name, subj in DERIVED:
            f = find_function(tree, 'Qube', name)
            for n in ast.walk(f):
                if isinstance(n, ast.Call) and isinstance(n.func, ast.Attribute) and n.func.attr == 'clone' and \
                        any(k.arg == 'retain_cache' for k in n.keywords):
                    listed += 1
        if total != listed:
            raise Untranslatable('%d calls clone(retain_cache=True) in the package, %d in the analysed methods' % (total, listed))
    finally:
        SUBJ[0] = 'self'
        SPEC.clear()
    return out


def collect():
    table = []
    extra = discover()
    if extra:
        raise Untranslatable('in-place methods not listed in TARGETS (a new override?): %s' % extra)
    for rel, cls, names in TARGETS:
        CURRENT[0] = cls or 'Qube'
        path = os.path.join(REPO, rel)
        tree = ast.parse(open(path).read())
        for name in names:
            fn = find_function(tree, cls, name)
            if fn is None:
                raise Untranslatable('%s: %s.%s not found' % (rel, cls, name))
            if not fn.args.args or fn.args.args[0].arg != 'self':
                raise Untranslatable('%s.%s: first parameter is not self' % (cls, name))
            try:
                paths = analyse(fn)
            except Untranslatable as e:
                raise Untranslatable('%s %s.%s: %s' % (rel, cls or 'Qube', name, e))
            table.append((cls or 'Qube', name, paths))
            if name == '_set_values_':
                test = 'retain_cache and mask is None'
                if test not in [ast.unparse(x.test) for x in ast.walk(fn) if isinstance(x, ast.If)]:
                    raise Untranslatable('_set_values_: the cache branch `if %s` was not found' % test)
                for tag, val in (('@full', False), ('@retain', True)):
                    SPEC[test] = val
                    if val:
                        SPEC['mask is not None'] = False      # implied by the branch taken
                    try:
                        table.append((cls or 'Qube', name + tag, analyse(fn)))
                    finally:
                        SPEC.clear()
    table += collect_derived(ast.parse(open(os.path.join(REPO, 'polymath', 'qube.py')).read()))
    return table


def compress(path):
    """drop runs of EPure (their number is immaterial), keep one EPure true where a call happened"""
    out = []
    for e in path:
        if e[0] == 'EPure' and out and out[-1][0] == 'EPure':
            if e[1] and not out[-1][1]:
                out[-1] = e
            continue
        out.append(e)
    return out


def generate(out_path=None):
    table = collect()
    out_path = out_path or os.path.join(HERE, 'coq', 'gen', 'Gen_effects.v')
    os.makedirs(os.path.dirname(out_path), exist_ok=True)
    lines = ['(* GENERATED by tools/regen/effects_ast.py from %s - do not edit *)' % REPO,
             'From Coq Require Import List String.', 'From PM Require Import EffModel.',
             'Import ListNotations.', 'Open Scope string_scope.', '']
    names = []
    npaths = 0
    for cls, name, paths in table:
        ps, seen = [], set()
        for p in paths:
            p = compress(p)
            if tuple(p) not in seen:
                seen.add(tuple(p))
                ps.append(p)
        ident = 'fn_%s_%s' % (cls, name.replace('derived:', 'derived_').strip('_').replace('_@', '_at_').replace('@', '_at_'))
        names.append(ident)
        npaths += len(ps)
        lines.append('Definition %s : fn := mkfn "%s" "%s" [' % (ident, cls, name))
        lines.append(';\n'.join('  [' + '; '.join(coq_event(e) for e in p) + ']' for p in ps))
        lines.append('].')
        lines.append('')
    lines.append('Definition gen_table : list fn := [%s].' % '; '.join(names))
    with open(out_path, 'w') as f:
        f.write('\n'.join(lines) + '\n')
    return out_path, len(table), npaths


if __name__ == '__main__':
    try:
        p, nf, np_ = generate(sys.argv[1] if len(sys.argv) > 1 else None)
        print('wrote %s: %d functions, %d paths' % (p, nf, np_))
    except Untranslatable as e:
        print('UNTRANSLATABLE:', e)
        sys.exit(2)
