#!/venv/bin/python
"""G-units: translate the arithmetic core of polymath/units.py into Gallina.

    units_ast.py <path/to/units.py> <out/Gen_units.v>

A deliberately small, FAIL-CLOSED translator (DESIGN.md 4.2).  It reads the current
text of units.py with Python's `ast` module and emits one Gallina definition per
function listed in SIGS, plus the table of named units read from the module-level
`Units.X = Units((..), (..), "name")` assignments.  The vocabulary of the emitted code
(res monad, units record, fl, uarg, pdiv ...) is coq/theories/C12Pre.v.

What is translated: assignments (also tuple and augmented), if/elif/else, return,
`raise X(...)` -> Err, integer / tuple / comparison expressions, `isinstance` on
{Units, numbers.Real, numbers.Integral}, `is None`, the single `while` of gcd (as a
fuel-indexed Fixpoint), calls among the listed functions, self-recursion (fuel).
Typing is by the declared parameter types below; `if x is None` / `isinstance` tests
narrow the type of x in the branches (emitted as `match`).

What is deliberately NOT given meaning (and is checked to be confined):
  * names of units: every expression of type NAME (the `name` parameters, `.name`,
    Units.mul_names/div_names/name_power calls) is dropped; statements that assign
    only NAME variables are skipped.  Names are covered by the correspondence and the
    direct oracle (str(u) must not raise), not by theorems.
  * floats: np.sqrt / math.sqrt of an int is `np_sqrt` (exact for perfect squares,
    otherwise the token FInexact); any FInexact reaching a triple makes the result
    `Inexact` - the distinct "float fallback" outcome.  self.factor / factor_inv are
    not modelled.
  * object identity: `a is b` on two objects becomes a free boolean parameter of the
    emitted function (alias_<line>); theorems quantify over it.  Separately an alias
    fact is emitted per static helper: attr_assign_guarded_<fn> = true iff every
    attribute assignment / set_name on a variable that may alias a parameter is
    preceded by `if v is p ...: v = v.copy()` naming every such parameter.

Anything else raises TranslateError naming function and line: the check then reports a
broken tie ('regeneration') instead of proving something about stale text.
"""
import ast
import hashlib
import sys


class TranslateError(Exception):
    pass


# parameter / return types of the translated functions
#   Z int | T3 3-tuple of int | U Units | OU Units-or-None | ARG anything (closed set) |
#   H half-integer given doubled | NAME ignored | B bool | FL real from sqrt | UNIT None
SIGS = [
    # (python name, in class?, [(param, type)], return type, optional?)
    ('gcd', False, [('a', 'Z'), ('b', 'Z')], 'Z', False),
    ('__init__', True, [('self', 'SELF'), ('exponents', 'T3'), ('triple', 'T3'), ('name', 'NAME')], 'U', False),
    ('#named', None, None, None, False),
    ('__copy__', True, [('self', 'U')], 'U', False),
    ('copy', True, [('self', 'U')], 'U', False),
    ('can_match', True, [('first', 'OU'), ('second', 'OU')], 'B', False),
    ('require_compatible', True, [('first', 'OU'), ('second', 'OU')], 'UNIT', False),
    ('do_match', True, [('first', 'OU'), ('second', 'OU')], 'B', False),
    ('require_match', True, [('first', 'OU'), ('second', 'OU')], 'UNIT', False),
    ('is_angle', True, [('arg', 'OU')], 'B', False),
    ('require_angle', True, [('arg', 'OU')], 'UNIT', False),
    ('is_unitless', True, [('arg', 'OU')], 'B', False),
    ('require_unitless', True, [('arg', 'OU')], 'UNIT', False),
    ('_sqrt_of_coefficient', True, [('value', 'Z')], 'FL', True),
    ('sqrt', True, [('self', 'U'), ('name', 'NAME')], 'U', False),
    ('__mul__', True, [('self', 'U'), ('arg', 'ARG')], 'U', False),
    ('__rmul__', True, [('self', 'U'), ('arg', 'ARG')], 'U', False),
    ('__truediv__', True, [('self', 'U'), ('arg', 'ARG')], 'U', False),
    ('__pow__', True, [('self', 'U'), ('power', 'H')], 'U', False),
    ('__rtruediv__', True, [('self', 'U'), ('arg', 'ARG')], 'U', False),
    ('mul_units', True, [('arg1', 'OU'), ('arg2', 'OU'), ('name', 'NAME')], 'OU', False),
    ('div_units', True, [('arg1', 'OU'), ('arg2', 'OU'), ('name', 'NAME')], 'OU', False),
    ('sqrt_units', True, [('units', 'OU'), ('name', 'NAME')], 'OU', False),
    ('units_power', True, [('units', 'OU'), ('power', 'H'), ('name', 'NAME')], 'OU', False),
]
ALIAS_CHECKED = ['mul_units', 'div_units', 'sqrt_units', 'units_power']
NAME_FUNCS = {'mul_names', 'div_names', 'name_power', 'name_to_dict', 'name_to_str', 'create_name', 'get_name'}
COQTY = {'Z': 'Z', 'T3': 'Z3', 'T2': '(Z * Z)', 'U': 'units', 'OU': '(option units)', 'ARG': 'uarg', 'H': 'Z',
         'B': 'bool', 'FL': 'fl', 'UNIT': 'unit'}
EXC = {'ValueError': 'EValue', 'TypeError': 'EType', 'AttributeError': 'EAttr', 'KeyError': 'EKey',
       'ZeroDivisionError': 'EZeroDiv'}
RFUEL = 6       # depth allowed for self-recursive operators (needed: 2)


class Ex(object):
    """a translated expression: Gallina term, type, pure (type ty) or impure (res ty)"""
    def __init__(self, term, ty, pure=True):
        self.term, self.ty, self.pure = term, ty, pure


def coqname(fn, in_class):
    return ('Units_' + fn) if in_class else fn


class FnTranslator(object):
    def __init__(self, mod, name, in_class, params, ret, node):
        self.mod = mod
        self.name = name
        self.in_class = in_class
        self.params = params
        self.ret = ret
        self.node = node
        self.counter = 0
        self.alias_params = []      # free booleans standing for `a is b`
        self.recursive = False
        self.is_init = name == '__init__'

    # -- errors -----------------------------------------------------------
    def bad(self, node, why):
        raise TranslateError('%s line %s: %s [%s]' % (self.name, getattr(node, 'lineno', '?'), why,
                                                     ast.dump(node)[:160] if isinstance(node, ast.AST) else node))

    def fresh(self, base='x'):
        self.counter += 1
        return '%s_%d' % (base, self.counter)

    # -- sequencing -----------------------------------------------------------
    def bindall(self, exs, k):
        names, wraps = [], []
        for ex in exs:
            if ex.pure:
                names.append(ex.term)
            else:
                v = self.fresh()
                wraps.append((v, ex.term))
                names.append(v)
        body = k(names)
        if not wraps:
            return body
        t = body.term if not body.pure else '(Ok %s)' % body.term
        for v, e in reversed(wraps):
            t = '(bind %s (fun %s => %s))' % (e, v, t)
        return Ex(t, body.ty, False)

    def coerce(self, ex, ty, node):
        if ex.ty == ty:
            return ex
        pair = (ex.ty, ty)
        simple = {('U', 'OU'): '(Some %s)', ('U', 'ARG'): '(AUnits %s)', ('OU', 'ARG'): '(arg_of_opt %s)',
                  ('Z', 'ARG'): '(AReal %s)', ('Z', 'FL'): '(fl_of_Z %s)', ('Z', 'H'): '(2 * %s)',
                  ('NONE', 'OU'): '(@None units)%.0s', ('NONE', 'ARG'): 'ANone%.0s'}
        if pair in simple:
            return self.bindall([ex], lambda n: Ex(simple[pair] % n[0], ty))
        impure = {('FL', 'Z'): '(fl_to_Z %s)', ('OU', 'U'): '(unwrap %s)'}
        if pair in impure:
            return self.bindall([ex], lambda n: Ex(impure[pair] % n[0], ty, False))
        self.bad(node, 'cannot use a value of type %s where %s is needed' % (ex.ty, ty))

    # -- expressions -----------------------------------------------------------
    def is_name_expr(self, e, env):
        """an expression that only computes a unit *name* (ignored)"""
        if isinstance(e, ast.Constant) and (e.value is None or isinstance(e.value, str)):
            return True
        if isinstance(e, ast.Name):
            return e.id in env and env[e.id] == 'NAME'
        if isinstance(e, ast.Attribute) and e.attr == 'name':
            return True
        if isinstance(e, ast.Call) and isinstance(e.func, ast.Attribute) and e.func.attr in NAME_FUNCS:
            return True
        return False

    def tr_expr(self, e, env):
        if isinstance(e, ast.Constant):
            v = e.value
            if v is None:
                return Ex('tt', 'NONE')
            if isinstance(v, bool):
                return Ex('true' if v else 'false', 'B')
            if isinstance(v, int):
                return Ex('(%d)' % v, 'Z')
            if isinstance(v, float) and v == int(v):
                return Ex('(%d)' % int(v), 'Z')        # 1. / 2. : integral floats act as ints here
            if isinstance(v, str):
                return Ex('tt', 'STR')
            self.bad(e, 'constant outside the subset')
        if isinstance(e, ast.Name):
            if e.id not in env:
                self.bad(e, 'unknown variable')
            ty = env[e.id]
            if ty == 'NAME':
                return Ex('tt', 'NAME')
            return Ex('v_' + e.id, ty)
        if isinstance(e, ast.Tuple):
            exs = [self.tr_expr(x, env) for x in e.elts]
            if len(exs) in (2, 3):
                exs = [self.coerce(x, 'Z', e) for x in exs]
                ty = 'T3' if len(exs) == 3 else 'T2'
                return self.bindall(exs, lambda n: Ex('(%s)' % ', '.join(n), ty))
            self.bad(e, 'tuple of unsupported length')
        if isinstance(e, ast.Attribute):
            return self.tr_attr(e, env)
        if isinstance(e, ast.Subscript):
            base = self.tr_expr(e.value, env)
            sl = e.slice
            if isinstance(sl, ast.Constant) and isinstance(sl.value, int):
                i = sl.value
                if base.ty == 'T3' and i in (0, 1, 2):
                    return self.bindall([base], lambda n: Ex('(t%d %s)' % (i, n[0]), 'Z'))
                if base.ty == 'T2' and i in (0, 1):
                    return self.bindall([base], lambda n: Ex('(%s %s)' % (('fst', 'snd')[i], n[0]), 'Z'))
            if (isinstance(sl, ast.Slice) and sl.lower is None and sl.step is None and
                    isinstance(sl.upper, ast.Constant) and sl.upper.value == 2 and base.ty == 'T3'):
                return self.bindall([base], lambda n: Ex('(t0 %s, t1 %s)' % (n[0], n[0]), 'T2'))
            self.bad(e, 'subscript outside the subset')
        if isinstance(e, ast.UnaryOp):
            if isinstance(e.op, ast.USub):
                x = self.coerce(self.tr_expr(e.operand, env), 'Z', e)
                return self.bindall([x], lambda n: Ex('(- %s)' % n[0], 'Z'))
            if isinstance(e.op, ast.Not):
                x = self.tr_expr(e.operand, env)
                if x.ty == 'B':
                    return self.bindall([x], lambda n: Ex('(negb %s)' % n[0], 'B'))
            self.bad(e, 'unary operator outside the subset')
        if isinstance(e, ast.BinOp):
            return self.tr_binop(e, env)
        if isinstance(e, ast.Compare):
            return self.tr_compare(e, env)
        if isinstance(e, ast.BoolOp):
            exs = [self.tr_expr(x, env) for x in e.values]
            if all(x.pure and x.ty == 'B' for x in exs):
                op = '&&' if isinstance(e.op, ast.And) else '||'
                return Ex('(%s)' % (' %s ' % op).join(x.term for x in exs), 'B')
            self.bad(e, 'boolean operator over effectful operands')
        if isinstance(e, ast.Call):
            return self.tr_call(e, env)
        self.bad(e, 'expression outside the subset')

    def tr_attr(self, e, env):
        if isinstance(e.value, ast.Name) and e.value.id == 'Units' and 'Units' not in env:
            if e.attr in self.mod.named_order:
                return Ex('U_' + e.attr, 'U', False)
            self.bad(e, 'unknown Units constant')
        if isinstance(e.value, ast.Name) and e.value.id == 'np' and e.attr == 'pi':
            return Ex('tt', 'IRR')
        if isinstance(e.value, ast.Name) and e.value.id == 'self' and self.is_init:
            key = 'self.' + e.attr
            if key in env:
                return Ex('v_self_' + e.attr, env[key])
            self.bad(e, 'attribute of self read before assignment')
        if e.attr == 'name':
            return Ex('tt', 'NAME')
        if e.attr in ('exponents', 'triple'):
            base = self.tr_expr(e.value, env)
            base = self.coerce(base, 'U', e) if base.ty in ('U', 'OU') else self.bad(e, 'attribute of a non-Units value')
            f = 'uexp' if e.attr == 'exponents' else 'utrip'
            return self.bindall([base], lambda n: Ex('(%s %s)' % (f, n[0]), 'T3'))
        self.bad(e, 'attribute outside the subset')

    def units_operand(self, ex):
        return ex.ty in ('U', 'OU')

    def tr_binop(self, e, env):
        op = type(e.op).__name__
        l, r = self.tr_expr(e.left, env), self.tr_expr(e.right, env)
        if self.units_operand(l) and op in ('Mult', 'Div', 'Pow'):
            l = self.coerce(l, 'U', e)
            if op == 'Pow':
                fn, r = '__pow__', self.coerce(r, 'H', e)
            else:
                fn = '__mul__' if op == 'Mult' else '__truediv__'
                r = self.coerce(r, 'ARG', e)
            return self.call_fn(fn, [l, r], e)
        if self.units_operand(r) and l.ty == 'Z' and op in ('Mult', 'Div'):
            fn = '__rmul__' if op == 'Mult' else '__rtruediv__'
            return self.call_fn(fn, [self.coerce(r, 'U', e), self.coerce(l, 'ARG', e)], e)
        if l.ty == 'IRR' and op == 'Pow':
            return Ex('tt', 'IRR')
        if l.ty == 'Z' and r.ty == 'Z' and op == 'Div':
            return Ex('tt', 'REAL')          # true division: only ever an exponent of pi
        if l.ty == 'FL' and r.ty == 'IRR' and op == 'Mult':
            return self.bindall([l], lambda n: Ex('(fl_times_irrational %s)' % n[0], 'FL'))
        if op == 'Mult' and l.ty == 'Z' and r.ty == 'H' and isinstance(e.left, ast.Constant) and e.left.value == 2:
            return Ex(r.term, 'Z', r.pure)     # 2*power: the doubled representation itself
        if l.ty == 'Z' and r.ty == 'Z':
            if op in ('Add', 'Sub', 'Mult'):
                sym = {'Add': '+', 'Sub': '-', 'Mult': '*'}[op]
                return self.bindall([l, r], lambda n: Ex('(%s %s %s)' % (n[0], sym, n[1]), 'Z'))
            const_nz = isinstance(e.right, ast.Constant) and isinstance(e.right.value, int) and e.right.value != 0
            if op in ('FloorDiv', 'Mod'):
                if const_nz:
                    sym = '/' if op == 'FloorDiv' else 'mod'
                    return self.bindall([l, r], lambda n: Ex('(%s %s %s)' % (n[0], sym, n[1]), 'Z'))
                f = 'pdiv' if op == 'FloorDiv' else 'pmod'
                return self.bindall([l, r], lambda n: Ex('(%s %s %s)' % (f, n[0], n[1]), 'Z', False))
            if op == 'Pow':
                return self.bindall([l, r], lambda n: Ex('(ppow %s %s)' % (n[0], n[1]), 'Z', False))
        self.bad(e, 'binary operator %s on %s, %s' % (op, l.ty, r.ty))

    def tr_compare(self, e, env):
        if len(e.ops) != 1:
            self.bad(e, 'chained comparison')
        op = type(e.ops[0]).__name__
        if op == 'In':
            l = self.tr_expr(e.left, env)
            if l.ty == 'T3' and isinstance(e.comparators[0], ast.Tuple):
                alts = [self.tr_expr(x, env) for x in e.comparators[0].elts]
                if all(a.ty == 'T3' and a.pure for a in alts):
                    return self.bindall([l], lambda n: Ex('(%s)' % ' || '.join('z3_eqb %s %s' % (n[0], a.term)
                                                                               for a in alts), 'B'))
            self.bad(e, '`in` outside the subset')
        l, r = self.tr_expr(e.left, env), self.tr_expr(e.comparators[0], env)
        neg = op == 'NotEq'
        if op in ('Eq', 'NotEq'):
            tys = (l.ty, r.ty)
            if tys == ('H', 'Z'):
                f = lambda n: '(%s =? 2 * %s)' % (n[0], n[1])       # noqa
            elif tys == ('Z', 'H'):
                f = lambda n: '(2 * %s =? %s)' % (n[0], n[1])       # noqa
            elif tys == ('Z', 'Z'):
                f = lambda n: '(%s =? %s)' % (n[0], n[1])           # noqa
            elif tys == ('T3', 'T3'):
                f = lambda n: '(z3_eqb %s %s)' % (n[0], n[1])       # noqa
            elif tys == ('T2', 'T2'):
                f = lambda n: '(z2_eqb %s %s)' % (n[0], n[1])       # noqa
            elif 'FL' in tys and set(tys) <= {'FL', 'Z'}:
                l, r = self.coerce(l, 'FL', e), self.coerce(r, 'FL', e)
                f = lambda n: '(fl_eqb %s %s)' % (n[0], n[1])       # noqa
            else:
                self.bad(e, '== on %s, %s' % tys)
            return self.bindall([l, r], lambda n: Ex('(negb %s)' % f(n) if neg else f(n), 'B'))
        if op in ('Lt', 'Gt', 'LtE', 'GtE') and l.ty == 'Z' and r.ty == 'Z':
            sym = {'Lt': '%s <? %s', 'Gt': '%s >? %s', 'LtE': '%s <=? %s', 'GtE': '%s >=? %s'}[op]
            return self.bindall([l, r], lambda n: Ex('(' + sym % (n[0], n[1]) + ')', 'B'))
        self.bad(e, 'comparison outside the subset')

    def call_fn(self, pyname, args, node):
        sig = self.mod.sig.get(pyname)
        if sig is None or (pyname not in self.mod.available and pyname != self.name):
            self.bad(node, 'call of %s, which is not (yet) translated' % pyname)
        _, in_class, params, ret, _ = sig
        want = [p for p in params if p[1] not in ('NAME', 'SELF')]
        if len(args) > len(want):
            self.bad(node, 'too many arguments for %s' % pyname)
        if len(args) < len(want):
            self.bad(node, 'missing arguments for %s' % pyname)
        args = [self.coerce(a, p[1], node) for a, p in zip(args, want)]
        cn = coqname(pyname, in_class)
        extra = []
        if pyname == self.name:
            self.recursive = True
            extra = ["fuel'"]
        elif pyname in self.mod.fuelled:
            extra = [self.mod.fuelled[pyname]]
        # free alias booleans of the callee are passed through as our own free booleans
        al = []
        for a in self.mod.alias_of.get(pyname, []):
            nm = 'alias_%s_%s' % (pyname.strip('_'), a)
            if nm not in self.alias_params:
                self.alias_params.append(nm)
            al.append(nm)
        return self.bindall(args, lambda n: Ex('(%s %s)' % (cn, ' '.join(extra + al + n)), ret, False))

    def tr_call(self, e, env):
        f = e.func
        if e.keywords:
            self.bad(e, 'keyword arguments')
        if isinstance(f, ast.Name):
            if f.id == 'int' and len(e.args) == 1:
                x = self.tr_expr(e.args[0], env)
                if x.ty == 'Z':
                    return x
                if x.ty == 'H':
                    return self.bindall([x], lambda n: Ex('(half_int %s)' % n[0], 'Z'))
                if x.ty == 'FL':
                    return self.bindall([x], lambda n: Ex('(fl_int %s)' % n[0], 'FL'))
                self.bad(e, 'int() of %s' % x.ty)
            if f.id == 'tuple' and len(e.args) == 1:
                x = self.tr_expr(e.args[0], env)
                if x.ty in ('T3', 'T2'):
                    return x
                self.bad(e, 'tuple() of %s' % x.ty)
            if f.id == 'Units':
                if len(e.args) not in (2, 3):
                    self.bad(e, 'Units(...) arity')
                if len(e.args) == 3 and not self.is_name_expr(e.args[2], env):
                    self.bad(e, 'third argument of Units(...) is not a name expression')
                a0 = self.coerce(self.tr_expr(e.args[0], env), 'T3', e)
                a1 = self.tr_triple(e.args[1], env)
                return self.call_fn('__init__', [a0, a1], e)
            if f.id == 'str':
                return Ex('tt', 'STR')
            if f.id in self.mod.sig and not self.mod.sig[f.id][1]:
                return self.call_fn(f.id, [self.tr_expr(a, env) for a in e.args], e)
            self.bad(e, 'call outside the subset')
        if isinstance(f, ast.Attribute):
            if isinstance(f.value, ast.Name) and f.value.id in ('np', 'math') and 'np' not in env:
                if f.attr == 'sqrt' and len(e.args) == 1:
                    x = self.coerce(self.tr_expr(e.args[0], env), 'Z', e)
                    return self.bindall([x], lambda n: Ex('(np_sqrt %s)' % n[0], 'FL'))
                if f.attr == 'isqrt' and f.value.id == 'math' and len(e.args) == 1:
                    x = self.coerce(self.tr_expr(e.args[0], env), 'Z', e)
                    return self.bindall([x], lambda n: Ex('(if %s <? 0 then Err EValue else Ok (Z.sqrt %s))'
                                                          % (n[0], n[0]), 'Z', False))
                self.bad(e, 'numpy/math call outside the subset')
            if f.attr in NAME_FUNCS:
                return Ex('tt', 'NAME' if f.attr != 'get_name' else 'STR')
            # Units.<static>(...) or obj.<method>(...)
            if isinstance(f.value, ast.Name) and f.value.id == 'Units' and 'Units' not in env:
                args = [self.tr_expr(a, env) for a in e.args]
                args = [a for a in args if a.ty != 'NAME']
                return self.call_fn(f.attr, args, e)
            recv = self.tr_expr(f.value, env)
            if self.units_operand(recv):
                args = [self.tr_expr(a, env) for a in e.args]
                args = [a for a in args if a.ty != 'NAME']
                return self.call_fn(f.attr, [self.coerce(recv, 'U', e)] + args, e)
            self.bad(e, 'method call on a value of type %s' % recv.ty)
        self.bad(e, 'call outside the subset')

    def tr_triple(self, e, env):
        """second argument of Units(...): int components, or reals from sqrt that must be exact"""
        if isinstance(e, ast.Tuple) and len(e.elts) == 3:
            exs = [self.coerce(self.tr_expr(x, env), 'Z', e) for x in e.elts]
            return self.bindall(exs, lambda n: Ex('(%s)' % ', '.join(n), 'T3'))
        return self.coerce(self.tr_expr(e, env), 'T3', e)

    # -- conditions with narrowing ----------------------------------------------
    def tr_cond(self, test, then_k, else_k, env):
        if isinstance(test, ast.BoolOp):
            first, rest = test.values[0], test.values[1:]
            more = rest[0] if len(rest) == 1 else ast.BoolOp(op=test.op, values=rest)
            if isinstance(test.op, ast.Or):
                return self.tr_cond(first, then_k, lambda en: self.tr_cond(more, then_k, else_k, en), env)
            return self.tr_cond(first, lambda en: self.tr_cond(more, then_k, else_k, en), else_k, env)
        if isinstance(test, ast.UnaryOp) and isinstance(test.op, ast.Not):
            return self.tr_cond(test.operand, else_k, then_k, env)
        if isinstance(test, ast.Compare) and len(test.ops) == 1 and isinstance(test.ops[0], (ast.Is, ast.IsNot)):
            neg = isinstance(test.ops[0], ast.IsNot)
            tk, ek = (else_k, then_k) if neg else (then_k, else_k)
            left, right = test.left, test.comparators[0]
            if isinstance(right, ast.Constant) and right.value is None and isinstance(left, ast.Name):
                x = left.id
                ty = env.get(x)
                if ty == 'OU':
                    en2 = dict(env)
                    en2[x] = 'U'
                    return '(match v_%s with None => %s | Some v_%s => %s end)' % (x, tk(env), x, ek(en2))
                if ty == 'ARG':
                    return '(match v_%s with ANone => %s | _ => %s end)' % (x, tk(env), ek(env))
                if ty in ('U', 'Z', 'T3', 'FL', 'H'):
                    return ek(env)          # statically not None
                self.bad(test, '`is None` on a value of type %s' % ty)
            if isinstance(left, ast.Name) and isinstance(right, ast.Name) and \
                    env.get(left.id) in ('U', 'OU') and env.get(right.id) in ('U', 'OU'):
                nm = 'alias_%d' % test.lineno
                key = (test.lineno, test.col_offset)
                nm = self.alias_names.setdefault(key, 'alias_L%d_%d' % (test.lineno - self.node.lineno,
                                                                        len(self.alias_names)))
                if nm not in self.alias_params:
                    self.alias_params.append(nm)
                return '(if %s then %s else %s)' % (nm, tk(env), ek(env))
            self.bad(test, 'identity test outside the subset')
        if isinstance(test, ast.Call) and isinstance(test.func, ast.Name) and test.func.id == 'isinstance':
            if len(test.args) == 2 and isinstance(test.args[0], ast.Name):
                x = test.args[0].id
                ty = env.get(x)
                cls = ast.unparse(test.args[1])
                if cls not in ('Units', 'numbers.Real', 'numbers.Integral'):
                    self.bad(test, 'isinstance on a class outside the closed set')
                if ty == 'ARG':
                    en2 = dict(env)
                    if cls == 'Units':
                        en2[x] = 'U'
                        return '(match v_%s with AUnits v_%s => %s | _ => %s end)' % (x, x, then_k(en2), else_k(env))
                    en2[x] = 'Z'
                    return '(match v_%s with AReal v_%s => %s | _ => %s end)' % (x, x, then_k(en2), else_k(env))
                if ty == 'U':
                    return then_k(env) if cls == 'Units' else else_k(env)
                if ty == 'Z':
                    return else_k(env) if cls == 'Units' else then_k(env)
                if ty == 'OU' and cls == 'Units':
                    en2 = dict(env)
                    en2[x] = 'U'
                    return '(match v_%s with Some v_%s => %s | None => %s end)' % (x, x, then_k(en2), else_k(env))
            self.bad(test, 'isinstance outside the subset')
        c = self.tr_expr(test, env)
        if c.ty == 'Z':
            c = self.bindall([c], lambda n: Ex('(negb (%s =? 0))' % n[0], 'B'))
        if c.ty != 'B':
            self.bad(test, 'condition of type %s' % c.ty)
        if c.pure:
            return '(if %s then %s else %s)' % (c.term, then_k(env), else_k(env))
        v = self.fresh('c')
        return '(bind %s (fun %s => if %s then %s else %s))' % (c.term, v, v, then_k(env), else_k(env))

    # -- statements -----------------------------------------------------------
    def assigned_names(self, stmts):
        out = set()
        for s in stmts:
            for n in ast.walk(s):
                if isinstance(n, (ast.Assign, ast.AugAssign)):
                    tg = n.targets if isinstance(n, ast.Assign) else [n.target]
                    for t in tg:
                        elts = t.elts if isinstance(t, ast.Tuple) else [t]
                        for m in elts:
                            if isinstance(m, ast.Name):
                                out.add(('v', m.id))
                            elif isinstance(m, ast.Attribute):
                                out.add(('a', m.attr))
                            else:
                                out.add(('x', 'target'))
                if isinstance(n, (ast.Return, ast.Raise, ast.While, ast.For)):
                    out.add(('x', type(n).__name__))
        return out

    def name_only(self, s, env):
        """a statement whose only effect is on unit names"""
        if isinstance(s, ast.Expr) and isinstance(s.value, ast.Call) and isinstance(s.value.func, ast.Attribute) \
                and s.value.func.attr == 'set_name':
            return True
        tg = self.assigned_names([s])
        if not tg:
            return False
        for kind, n in tg:
            if kind == 'x':
                return False
            if kind == 'v' and env.get(n) != 'NAME':
                return False
            if kind == 'a' and n != 'name':
                return False
        if self.is_init and isinstance(s, ast.Assign):
            return False        # handled as a field of self
        return True

    def finish(self, env, node):
        if self.is_init:
            if 'self.exponents' not in env or 'self.triple' not in env:
                self.bad(node, '__init__ does not set exponents and triple')
            return '(Ok (mkU v_self_exponents v_self_triple))'
        if self.ret == 'UNIT':
            return '(Ok tt)'
        self.bad(node, 'control reaches the end of a function that must return a value')

    def ret_term(self, ex, node):
        if self.ret == 'UNIT' and ex.ty == 'NONE':
            return '(Ok tt)'
        if self.ret == 'OU' and ex.ty == 'NONE':
            return '(Ok (@None units))'
        ex = self.coerce(ex, self.ret, node)
        return ex.term if not ex.pure else '(Ok %s)' % ex.term

    def let(self, var, ex, rest_term):
        if ex.pure:
            return '(let %s := %s in %s)' % (var, ex.term, rest_term)
        return '(bind %s (fun %s => %s))' % (ex.term, var, rest_term)

    def tr_block(self, stmts, env):
        if not stmts:
            return self.finish(env, self.node)
        s, rest = stmts[0], stmts[1:]
        if isinstance(s, ast.Expr) and isinstance(s.value, ast.Constant) and isinstance(s.value.value, str):
            return self.tr_block(rest, env)
        if self.name_only(s, env):
            return self.tr_block(rest, env)
        if isinstance(s, ast.Return):
            if s.value is None:
                return self.ret_term(Ex('tt', 'NONE'), s)
            if isinstance(s.value, ast.Name) and s.value.id == 'NotImplemented':
                return '(Err EType)'
            return self.ret_term(self.tr_expr(s.value, env), s)
        if isinstance(s, ast.Raise):
            exc = s.exc
            nm = exc.func.id if isinstance(exc, ast.Call) and isinstance(exc.func, ast.Name) else \
                (exc.id if isinstance(exc, ast.Name) else None)
            if nm not in EXC:
                self.bad(s, 'raise of an exception outside the closed set')
            return '(Err %s)' % EXC[nm]
        if isinstance(s, ast.AugAssign):
            if not isinstance(s.target, ast.Name):
                self.bad(s, 'augmented assignment to a non-variable')
            s2 = ast.Assign(targets=[s.target], value=ast.BinOp(left=ast.Name(id=s.target.id, ctx=ast.Load()),
                                                                  op=s.op, right=s.value))
            ast.copy_location(s2, s)
            ast.copy_location(s2.value, s)
            ast.fix_missing_locations(s2)
            return self.tr_block([s2] + rest, env)
        if isinstance(s, ast.Assign):
            if len(s.targets) != 1:
                self.bad(s, 'multiple assignment targets')
            t = s.targets[0]
            if isinstance(t, ast.Name):
                if self.is_name_expr(s.value, env) and not (isinstance(s.value, ast.Constant) and s.value.value is None
                                                            and env.get(t.id) in ('OU', 'ARG')):
                    en2 = dict(env)
                    en2[t.id] = 'NAME'
                    return self.tr_block(rest, en2)
                ex = self.tr_expr(s.value, env)
                if ex.ty in ('STR', 'IRR', 'REAL', 'NONE'):
                    self.bad(s, 'assignment of a value of type %s' % ex.ty)
                en2 = dict(env)
                en2[t.id] = ex.ty
                return self.let('v_' + t.id, ex, self.tr_block(rest, en2))
            if isinstance(t, ast.Tuple) and all(isinstance(x, ast.Name) for x in t.elts):
                ex = self.tr_expr(s.value, env)
                want = {2: 'T2', 3: 'T3'}.get(len(t.elts))
                if ex.ty != want:
                    self.bad(s, 'tuple assignment from %s' % ex.ty)
                v = self.fresh('t')
                proj = {2: ['fst %s', 'snd %s'], 3: ['t0 %s', 't1 %s', 't2 %s']}[len(t.elts)]
                en2 = dict(env)
                body_names = []
                for x, p in zip(t.elts, proj):
                    en2[x.id] = 'Z'
                    body_names.append(('v_' + x.id, '(' + p % v + ')'))
                inner = self.tr_block(rest, en2)
                for nm, pr in reversed(body_names):
                    inner = '(let %s := %s in %s)' % (nm, pr, inner)
                return self.let(v, ex, inner)
            if isinstance(t, ast.Attribute) and isinstance(t.value, ast.Name) and t.value.id == 'self' and self.is_init:
                if t.attr in ('factor', 'factor_inv', 'name'):
                    return self.tr_block(rest, env)        # floats / names: not modelled
                if t.attr in ('exponents', 'triple'):
                    ex = self.coerce(self.tr_expr(s.value, env), 'T3', s)
                    en2 = dict(env)
                    en2['self.' + t.attr] = 'T3'
                    return self.let('v_self_' + t.attr, ex, self.tr_block(rest, en2))
                self.bad(s, '__init__ sets an attribute the model does not know')
            self.bad(s, 'assignment target outside the subset')
        if isinstance(s, ast.If):
            if self.is_init:
                self.init_ifs.append(s)
            return self.tr_cond(s.test, lambda en: self.tr_block(list(s.body) + rest, en),
                                lambda en: self.tr_block(list(s.orelse) + rest, en), env)
        self.bad(s, 'statement outside the subset')

    # -- whole function -----------------------------------------------------------
    def translate(self):
        self.alias_names = {}
        self.init_ifs = []
        node = self.node
        a = node.args
        if a.vararg or a.kwarg or a.kwonlyargs or a.posonlyargs:
            self.bad(node, 'parameter list outside the subset')
        pynames = [x.arg for x in a.args]
        if pynames != [p[0] for p in self.params]:
            raise TranslateError('%s: parameters %s, expected %s' % (self.name, pynames, [p[0] for p in self.params]))
        env = {}
        binders = []
        for p, ty in self.params:
            if ty == 'SELF':
                continue
            env[p] = ty
            if ty != 'NAME':
                binders.append('(v_%s : %s)' % (p, COQTY[ty]))
        cn = coqname(self.name, self.in_class)
        body = list(node.body)
        ret = 'res %s' % COQTY[self.ret]
        # the one loop: `while b: a, b = b, a % b` followed by `return a`
        loops = [s for s in body if isinstance(s, ast.While)]
        if loops:
            stm = [s for s in body if not (isinstance(s, ast.Expr) and isinstance(s.value, ast.Constant))]
            if len(stm) != 2 or not isinstance(stm[0], ast.While) or not isinstance(stm[1], ast.Return) or stm[0].orelse:
                self.bad(node, 'loop shape outside the subset')
            w = stm[0]
            if len(w.body) != 1 or not isinstance(w.body[0], ast.Assign) or not isinstance(w.body[0].targets[0], ast.Tuple):
                self.bad(w, 'loop body outside the subset')
            tg = [x.id for x in w.body[0].targets[0].elts]
            vals = w.body[0].value.elts if isinstance(w.body[0].value, ast.Tuple) else None
            if vals is None or len(vals) != len(tg) or sorted(tg) != sorted(p[0] for p in self.params):
                self.bad(w, 'loop must reassign exactly the parameters')
            exs = {t: self.coerce(self.tr_expr(v, env), 'Z', w) for t, v in zip(tg, vals)}
            ordered = [exs[p[0]] for p in self.params]
            step = self.bindall(ordered, lambda n: Ex("(%s fuel' %s)" % (cn, ' '.join(n)), self.ret, False))
            after = self.tr_block([stm[1]], env)
            inner = self.tr_cond(w.test, lambda en: step.term, lambda en: after, env)
            text = ("Fixpoint %s (fuel : nat) %s : %s :=\n  match fuel with\n  | O => OutOfFuel\n  | S fuel' => %s\n  end.\n"
                    % (cn, ' '.join(binders), ret, inner))
            return text, 'fuel', []
        term = self.tr_block(body, env)
        al = ['(%s : bool)' % x for x in self.alias_params]
        if self.recursive:
            text = ("Fixpoint %s_f (fuel : nat) %s : %s :=\n  match fuel with\n  | O => OutOfFuel\n  | S fuel' => %s\n  end.\n"
                    "Definition %s := %s_f %d%%nat.\n"
                    % (cn, ' '.join(al + binders), ret, term.replace('(%s fuel\'' % cn, '(%s_f fuel\'' % cn), cn, cn, RFUEL))
            return text, None, self.alias_params
        text = 'Definition %s %s : %s :=\n  %s.\n' % (cn, ' '.join(al + binders), ret, term)
        if self.is_init:
            if len(self.init_ifs) != 1:
                self.bad(node, '__init__ must contain exactly one `if` (the float fallback test)')
        return text, None, self.alias_params


# ---------------------------------------------------------------------------
class Module(object):
    def __init__(self, src_text, path):
        self.tree = ast.parse(src_text, path)
        self.sig = {s[0]: s for s in SIGS if s[0] != '#named'}
        self.available = set()
        self.fuelled = {}
        self.alias_of = {}
        self.named = []
        self.named_order = []
        self.cls = None
        self.funcs = {}
        for n in self.tree.body:
            if isinstance(n, ast.FunctionDef):
                self.funcs[(False, n.name)] = n
            if isinstance(n, ast.ClassDef) and n.name == 'Units':
                self.cls = n
                for m in n.body:
                    if isinstance(m, ast.FunctionDef):
                        self.funcs[(True, m.name)] = m
        if self.cls is None:
            raise TranslateError('class Units not found')
        self.read_named()

    def const_int(self, e):
        if isinstance(e, ast.Constant) and isinstance(e.value, int) and not isinstance(e.value, bool):
            return e.value
        if isinstance(e, ast.UnaryOp) and isinstance(e.op, ast.USub):
            return -self.const_int(e.operand)
        if isinstance(e, ast.BinOp) and isinstance(e.op, (ast.Mult, ast.Add, ast.Sub, ast.Pow)):
            l, r = self.const_int(e.left), self.const_int(e.right)
            if isinstance(e.op, ast.Mult):
                return l * r
            if isinstance(e.op, ast.Add):
                return l + r
            if isinstance(e.op, ast.Sub):
                return l - r
            if r < 0 or r > 64:
                raise TranslateError('named table: exponent out of range line %d' % e.lineno)
            return l ** r
        raise TranslateError('named table line %d: not an integer constant expression: %s'
                             % (getattr(e, 'lineno', 0), ast.unparse(e)))

    def read_named(self):
        for n in self.tree.body:
            if not (isinstance(n, ast.Assign) and len(n.targets) == 1 and isinstance(n.targets[0], ast.Attribute)
                    and isinstance(n.targets[0].value, ast.Name) and n.targets[0].value.id == 'Units'):
                continue
            v = n.value
            if not (isinstance(v, ast.Call) and isinstance(v.func, ast.Name) and v.func.id == 'Units'):
                continue            # lists and dictionaries of units: name handling, not modelled
            nm = n.targets[0].attr
            if len(v.args) != 3 or v.keywords or not all(isinstance(a, ast.Tuple) and len(a.elts) == 3 for a in v.args[:2]) \
                    or not (isinstance(v.args[2], ast.Constant) and isinstance(v.args[2].value, str)):
                raise TranslateError('named unit %s line %d: not Units((e,e,e), (n,d,k), "name")' % (nm, n.lineno))
            e = tuple(self.const_int(x) for x in v.args[0].elts)
            t = tuple(self.const_int(x) for x in v.args[1].elts)
            if nm in self.named_order:
                raise TranslateError('named unit %s assigned twice' % nm)
            self.named.append((nm, e, t, v.args[2].value))
            self.named_order.append(nm)
        if not self.named:
            raise TranslateError('no named units found')

    # alias fact: every attribute assignment / set_name on a variable that may be one of the
    # parameters is preceded by a copy guarded by identity tests naming those parameters
    def alias_fact(self, node):
        params = [a.arg for a in node.args.args]
        may = {}            # variable -> set of params it may alias

        def scan_assign(stmts):
            for s in stmts:
                for n in ast.walk(s):
                    if isinstance(n, ast.Assign) and len(n.targets) == 1 and isinstance(n.targets[0], ast.Name):
                        v = n.targets[0].id
                        if isinstance(n.value, ast.Name) and n.value.id in params:
                            may.setdefault(v, set()).add(n.value.id)
                        elif isinstance(n.value, ast.Name) and n.value.id in may:
                            may.setdefault(v, set()).update(may[n.value.id])
        scan_assign(node.body)
        for p in params:
            may.setdefault(p, set()).add(p)
        ok = True
        detail = []

        def walk(stmts, guarded):
            nonlocal ok
            guarded = dict(guarded)
            for s in stmts:
                if isinstance(s, ast.If):
                    # the guard:  if v is p [or v is q]: v = v.copy()
                    names = set()
                    var = None
                    good = True
                    tests = s.test.values if isinstance(s.test, ast.BoolOp) and isinstance(s.test.op, ast.Or) else [s.test]
                    for t in tests:
                        if isinstance(t, ast.Compare) and len(t.ops) == 1 and isinstance(t.ops[0], ast.Is) and \
                                isinstance(t.left, ast.Name) and isinstance(t.comparators[0], ast.Name):
                            var = var or t.left.id
                            good = good and t.left.id == var
                            names.add(t.comparators[0].id)
                        else:
                            good = False
                    body_ok = (len(s.body) == 1 and isinstance(s.body[0], ast.Assign) and
                               isinstance(s.body[0].targets[0], ast.Name) and s.body[0].targets[0].id == var and
                               isinstance(s.body[0].value, ast.Call) and isinstance(s.body[0].value.func, ast.Attribute)
                               and s.body[0].value.func.attr in ('copy', '__copy__') and
                               isinstance(s.body[0].value.func.value, ast.Name) and s.body[0].value.func.value.id == var
                               and not s.orelse)
                    if good and body_ok and var is not None:
                        guarded.setdefault(var, set()).update(names)
                        continue
                    walk(s.body, guarded)
                    walk(s.orelse, guarded)
                    continue
                target = None
                if isinstance(s, ast.Assign) and isinstance(s.targets[0], ast.Attribute) and \
                        isinstance(s.targets[0].value, ast.Name):
                    target = s.targets[0].value.id
                if isinstance(s, ast.Expr) and isinstance(s.value, ast.Call) and isinstance(s.value.func, ast.Attribute) \
                        and s.value.func.attr.startswith('set_') and isinstance(s.value.func.value, ast.Name):
                    target = s.value.func.value.id
                if target is not None:
                    need = may.get(target, set()) & set(params)
                    have = guarded.get(target, set())
                    if not need <= have:
                        ok = False
                        detail.append('line %d: attribute of %s set while it may be %s' %
                                      (s.lineno, target, '/'.join(sorted(need - have))))
                if isinstance(s, (ast.For, ast.While, ast.With, ast.Try)):
                    ok = False
                    detail.append('line %d: statement kind not analysed' % s.lineno)
        walk(node.body, {})
        return ok, detail


def translate_source(text, path='units.py'):
    mod = Module(text, path)
    out = []
    digest = hashlib.sha256(text.encode()).hexdigest()
    out.append('(* GENERATED by tools/regen/units_ast.py from %s\n   sha256 %s\n   Do not edit; regenerated on every run of ./check C12. *)' % (path, digest))
    out.append('From Coq Require Import ZArith List Bool String.\nFrom PM Require Import C12Pre.\n'
               'Import ListNotations.\nOpen Scope Z_scope.\n'
               '(* helper functions that the fixed proof scripts unfold without naming them *)\n'
               'Create HintDb gen_helpers.\n')
    nfun = 0
    emitted = []
    for name, in_class, params, ret, optional in SIGS:
        if name == '#named':
            rows = []
            for nm, e, t, s in mod.named:
                out.append('Definition U_%s : res units := Units___init__ (%d, %d, %d) (%d, %d, %d).' % ((nm,) + e + t))
                rows.append('  ("%s"%%string, ((%d, %d, %d), (%d, %d, %d), "%s"%%string))' %
                            ((nm,) + e + t + (s.replace('"', '""'),)))
            out.append('Definition named_table : list (string * (Z3 * Z3 * string)) := [\n%s].' % ';\n'.join(rows))
            out.append('Definition named_value (n : string) : res units :=\n'
                       '  match find (fun r => String.eqb (fst r) n) named_table with\n'
                       '  | Some (_, (e, t, _)) => Units___init__ e t\n  | None => Err EAttr\n  end.\n')
            continue
        node = mod.funcs.get((in_class, name))
        if node is None:
            if optional:
                continue
            raise TranslateError('function %s not found in units.py' % name)
        ft = FnTranslator(mod, name, in_class, params, ret, node)
        text_v, fuel, alias = ft.translate()
        out.append('(* units.py line %d: %s *)' % (node.lineno, name))
        out.append(text_v)
        if optional:
            out.append('#[global] Hint Unfold %s : gen_helpers.' % coqname(name, in_class))
        mod.available.add(name)
        if fuel:
            mod.fuelled[name] = 'FUEL'
        if alias:
            mod.alias_of[name] = alias
        if name == '__init__':
            # the float-fallback test, as a predicate of its own
            fb = FnTranslator(mod, name, in_class, params, 'B', node)
            fb.alias_names = {}
            fb.init_ifs = []
            fb.is_init = True
            iff = ft.init_ifs[0]
            pre = []
            for s in node.body:
                if s is iff:
                    break
                pre.append(s)

            class FB(FnTranslator):
                pass
            fb.finish = lambda env, n: '(Ok false)'
            orig = fb.tr_block

            def tb(stmts, env, orig=orig, fb=fb, iff=iff):
                if stmts and stmts[0] is iff:
                    c = fb.tr_expr(iff.test, env)
                    return c.term if not c.pure else '(Ok %s)' % c.term
                return orig(stmts, env)
            fb.tr_block = tb
            env0 = {p: ty for p, ty in params if ty != 'SELF'}
            term = fb.tr_block(pre + [iff], env0)
            out.append('(* the test that selects the float fallback in __init__ (line %d) *)' % iff.lineno)
            out.append('Definition Units_init_fallback (v_exponents : Z3) (v_triple : Z3) : res bool :=\n  %s.\n' % term)
        emitted.append((name, alias))
        nfun += 1
    for name in ALIAS_CHECKED:
        node = mod.funcs.get((True, name))
        ok, detail = mod.alias_fact(node)
        out.append('(* alias fact for %s%s *)' % (name, ': ' + '; '.join(detail) if detail else ''))
        out.append('Definition attr_assign_guarded_%s : bool := %s.' % (name, 'true' if ok else 'false'))
    out.append('\nDefinition source_sha256 : string := "%s"%%string.' % digest)
    info = {'functions': nfun, 'named': len(mod.named), 'sha256': digest,
            'alias_params': {n: a for n, a in emitted if a}}
    return '\n'.join(out) + '\n', info


def translate_file(src, dst):
    text = open(src).read()
    try:
        v, info = translate_source(text, src)
    except SyntaxError as e:
        raise TranslateError('units.py does not parse: %s' % e)
    except RecursionError:
        raise TranslateError('translator recursion limit')
    with open(dst, 'w') as f:
        f.write(v)
    return info


if __name__ == '__main__':
    try:
        print(translate_file(sys.argv[1], sys.argv[2]))
    except TranslateError as e:
        print('TRANSLATION FAILED (fail closed):', e)
        sys.exit(2)
