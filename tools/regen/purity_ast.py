#!/venv/bin/python
"""Fail-closed may-alias analysis of array stores in polymath (regeneration tie for C07).

C07: a call that is not documented as in-place leaves its operands unchanged.  Every defect of that kind found so
far had the same shape: a local name that is (a view of) an operand's array - `coefficients = self._values_`,
`merged = arg`, `x_power = x` - and, later in the same function, a store THROUGH that name
(`name[...] = `, `name op= `, `name.fill()`, `np.xxx(..., out=name)`).  This tool reads every function of the
package in the CURRENT source tree and lists every array store with the ROOTS its target may alias:

  roots    P:<param>          the parameter itself (an ndarray argument, or the object `self`)
           A:<expr>           an array attribute (._values_ ._mask_ .values .vals .mask) of a parameter or of an object
                              that is not known to be fresh
           F                  fresh storage: np.empty/zeros/ones/array/copy/..., arithmetic, comparisons, .copy(),
                              .astype(), a new polymath object built in this function and its arrays
  may-alias is computed forward in statement order (an assignment replaces what a name aliases, branches are joined,
  loops iterated to a fixpoint) and is closed under views: subscripts, reshape/swapaxes/transpose/ravel/view/T, np.asarray/broadcast_to/reshape/rollaxis/...

A store whose target may alias a P: or A: root is an OPERAND STORE.  The documented in-place methods are exempt.
The remaining operand stores of the unchanged tree are listed, each with its reason, in ALLOWED below (they write
into copies made one step earlier through a method the analysis cannot see into, e.g. `vector = self.copy()`);
a store that is not in that list makes the obligation fail.

Output: coq/gen/.../Gen_purity.v  (Definition gen_stores : list store_site)."""
import ast
import glob
import os
import sys

REPO = os.environ.get('VERIF_REPO', '/repo')
HERE = os.path.dirname(os.path.dirname(os.path.dirname(os.path.abspath(__file__))))


class Untranslatable(Exception):
    pass


ARRAY_ATTRS = {'_values_', '_mask_', 'values', 'vals', 'mask', 'mvals', '_derivs_', 'derivs'}
FRESH_NP = {'empty', 'zeros', 'ones', 'array', 'copy', 'stack', 'concatenate', 'where', 'logical_not', 'logical_and',
            'logical_or', 'logical_xor', 'any', 'all', 'sum', 'mean', 'sqrt', 'sin', 'cos', 'tan', 'arcsin', 'arccos',
            'arctan', 'arctan2', 'exp', 'log', 'abs', 'sign', 'maximum', 'minimum', 'max', 'min', 'argmax', 'argmin',
            'sort', 'argsort', 'median', 'cumsum', 'arange', 'linspace', 'eye', 'identity', 'full', 'empty_like',
            'zeros_like', 'ones_like', 'full_like', 'cross', 'dot', 'einsum', 'matmul', 'tensordot', 'outer', 'floor',
            'ceil', 'round', 'rint', 'mod', 'fmod', 'power', 'isnan', 'isinf', 'isfinite', 'shape', 'ndim', 'size',
            'prod', 'count_nonzero', 'nonzero', 'argwhere', 'unravel_index', 'packbits', 'unpackbits', 'frombuffer',
            'fromstring', 'tile', 'repeat', 'indices', 'meshgrid', 'isscalar', 'iscomplexobj', 'diff', 'clip',
            'nanmax', 'nanmin', 'linalg', 'random', 'take', 'choose', 'select', 'compress', 'delete', 'insert',
            'append', 'hstack', 'vstack', 'dstack', 'float64', 'int64', 'bool_', 'intp', 'float32', 'int_', 'float_'}
VIEW_NP = {'asarray', 'asanyarray', 'ascontiguousarray', 'broadcast_to', 'broadcast_arrays', 'reshape', 'swapaxes',
           'rollaxis', 'moveaxis', 'transpose', 'squeeze', 'expand_dims', 'atleast_1d', 'atleast_2d', 'ravel', 'diagonal',
           'flip', 'real', 'imag', 'require'}
VIEW_METHODS = {'reshape', 'swapaxes', 'transpose', 'view', 'ravel', 'squeeze', 'diagonal', 'flatten_never'}
FRESH_METHODS = {'copy', 'astype', 'tolist', 'sum', 'mean', 'any', 'all', 'max', 'min', 'argmax', 'argmin', 'tobytes',
                 'nonzero', 'cumsum', 'round', 'conj', 'dot', 'item', 'flatten', 'clip', 'repeat', 'take', 'prod',
                 'std', 'var', 'argsort', 'byteswap', 'newbyteorder', 'filled', 'compressed'}
# methods of polymath objects that return a NEW object with NEW arrays
FRESH_OBJ_METHODS = {'copy'}
INPLACE_METHODS = {'__iadd__', '__isub__', '__imul__', '__itruediv__', '__idiv__', '__ifloordiv__', '__imod__',
                   '__iand__', '__ior__', '__ixor__', '__setitem__', '_set_values_', '_set_mask_', '_new_values_',
                   'insert_deriv', 'insert_derivs', 'delete_deriv', 'delete_derivs', 'set_units', 'as_readonly',
                   'match_readonly', '__init__', '__setstate__', '__setstate__experimental', 'set_pickle_digits',
                   'set_default_pickle_digits', 'require_writable', 'set_name', '_clear_cache'}
# cached-view properties store into self._cache_ : not an operand's observable state (C18's subject)
CACHE_ATTRS = {'_cache_'}

# operand stores of the unchanged tree that are not defects: (file, function, target source) -> reason
ALLOWED = {
    ('polymath/vector.py', 'to_pair', 'i0'):
        'i0 = axes[0] is an integer taken from the axes tuple; `i0 -= n` re-binds the local name',
    ('polymath/vector.py', 'int', 'mask'):
        'mask = self._mask_ is copied when it is an array; for a single bool `mask |= is_outside` re-binds the local name',
}


SUMMARY = {}        # function name -> set of parameter positions (0 = receiver / first argument) and keyword names
                    #                  whose storage the returned value may alias


def summary_roots(name, args, keywords, env, params, method):
    sm = SUMMARY.get(name)
    if not sm:
        return {'F'}
    out = set()
    for pos in sm:
        if isinstance(pos, int):
            if pos < len(args):
                out |= roots_of(args[pos], env, params)
        else:
            for k in keywords:
                if k.arg == pos:
                    out |= roots_of(k.value, env, params)
    # `Class.method(x, ...)`: the first argument written explicitly is position 0 too; a static helper called as
    # Qube._helper(arg) has its receiver expression `Qube` in position 0 (aliases nothing) and arg in position 1
    return out or {'F'}


def roots_of(e, env, params):
    """set of root labels the value of expression e may alias; {'F'} = fresh only"""
    if isinstance(e, ast.Name):
        if e.id in env:
            return set(env[e.id])
        if e.id in params:
            return {'P:' + e.id}
        return {'F'}
    if isinstance(e, ast.Attribute):
        if e.attr in ARRAY_ATTRS:
            base = roots_of(e.value, env, params)
            if base == {'F'} and not (isinstance(e.value, ast.Name) and e.value.id in params):
                return {'F'}                     # an array of an object made in this function
            return {'A:' + ast.unparse(e)}
        if e.attr in ('T', 'real', 'imag', 'flat', 'data'):
            return roots_of(e.value, env, params)
        if e.attr in CACHE_ATTRS:
            return {'F'}
        return {'F'}
    if isinstance(e, ast.Subscript):
        return roots_of(e.value, env, params)        # a basic slice is a view; conservatively also for advanced ones
    if isinstance(e, ast.Call):
        fn = e.func
        if isinstance(fn, ast.Attribute):
            if isinstance(fn.value, ast.Name) and fn.value.id == 'np':
                if fn.attr in VIEW_NP:
                    out = set()
                    for a in e.args[:1]:
                        out |= roots_of(a, env, params)
                    return out or {'F'}
                return {'F'}
            if fn.attr in VIEW_METHODS:
                return roots_of(fn.value, env, params)
            if fn.attr in FRESH_METHODS or fn.attr in FRESH_OBJ_METHODS:
                return {'F'}
            return summary_roots(fn.attr, [fn.value] + list(e.args), e.keywords, env, params, method=True)
        if isinstance(fn, ast.Name):
            return summary_roots(fn.id, list(e.args), e.keywords, env, params, method=False)
        return {'F'}
    if isinstance(e, ast.IfExp):
        return roots_of(e.body, env, params) | roots_of(e.orelse, env, params)
    if isinstance(e, (ast.Tuple, ast.List)):
        out = set()
        for x in e.elts:
            out |= roots_of(x, env, params)
        return out or {'F'}
    if isinstance(e, ast.Starred):
        return roots_of(e.value, env, params)
    if isinstance(e, ast.NamedExpr):
        return roots_of(e.value, env, params)
    return {'F'}


def bind(target, roots, env):
    changed = False
    if isinstance(target, ast.Name):
        old = env.get(target.id, set())
        new = old | roots
        if new != old:
            env[target.id] = new
            changed = True
    elif isinstance(target, (ast.Tuple, ast.List)):
        for t in target.elts:
            changed |= bind(t, roots, env)
    elif isinstance(target, ast.Starred):
        changed |= bind(target.value, roots, env)
    return changed


def join(a, b):
    if a is None:
        return b
    if b is None:
        return a
    out = {}
    for k in set(a) | set(b):
        out[k] = set(a.get(k, ())) | set(b.get(k, ()))
    return out


def assign(target, roots, env):
    """strong update of a local name (a subscript / attribute target binds nothing)"""
    if isinstance(target, ast.Name):
        env[target.id] = set(roots)
    elif isinstance(target, (ast.Tuple, ast.List)):
        for t in target.elts:
            assign(t, roots, env)
    elif isinstance(target, ast.Starred):
        assign(target.value, roots, env)


class Flow(object):
    """forward may-alias analysis in statement order: branches are joined, loops iterated to a fixpoint"""

    def __init__(self, fn, rel, cls):
        self.fn, self.rel, self.cls = fn, rel, cls
        self.params = set(a.arg for a in fn.args.args + fn.args.kwonlyargs + fn.args.posonlyargs)
        self.kwparam = fn.args.kwarg.arg if fn.args.kwarg else None
        if fn.args.vararg:
            self.params.add(fn.args.vararg.arg)
        self.sites = {}
        self.returned = set()
        self.order = [a.arg for a in fn.args.posonlyargs + fn.args.args]

    def roots(self, e, env):
        return roots_of(e, env, self.params)

    def store(self, target, node, kind, env):
        base = target
        while isinstance(base, ast.Subscript):
            base = base.value
        if isinstance(base, ast.Attribute) and base.attr in CACHE_ATTRS:
            return
        if isinstance(base, ast.Attribute) and base.attr not in ARRAY_ATTRS:
            return                                  # an attribute of some object that is not one of its arrays
        if isinstance(base, ast.Name) and base.id == self.kwparam:
            return                                  # **keywords is a new dictionary on every call
        r = self.roots(base, env)
        ops = sorted(x for x in r if x != 'F')
        if ops:
            key = (node.lineno, ast.unparse(target)[:80])
            self.sites[key] = {'file': self.rel, 'cls': self.cls or '', 'fn': self.fn.name, 'line': node.lineno,
                               'kind': kind, 'target': ast.unparse(target)[:80], 'roots': ops}

    def scan_calls(self, node, env):
        for n in ast.walk(node):
            if isinstance(n, ast.Call):
                f = n.func
                if isinstance(f, ast.Attribute) and f.attr in ('fill', 'sort', 'resize', 'put', 'itemset', 'partition'):
                    if isinstance(f.value, (ast.Name, ast.Attribute, ast.Subscript)):
                        self.store(f.value, n, 'method:' + f.attr, env)
                for k in n.keywords:
                    if k.arg == 'out':
                        self.store(k.value, n, 'out=', env)
            elif isinstance(n, ast.NamedExpr):
                assign(n.target, self.roots(n.value, env), env)

    def block(self, stmts, env):
        for st in stmts:
            if env is None:
                return None
            env = self.stmt(st, env)
        return env

    def stmt(self, st, env):
        if isinstance(st, ast.Assign):
            self.scan_calls(st.value, env)
            for t in st.targets:
                for tt in (t.elts if isinstance(t, (ast.Tuple, ast.List)) else [t]):
                    if isinstance(tt, ast.Subscript):
                        self.store(tt, st, 'setitem', env)
            if isinstance(st.value, ast.Tuple) and len(st.targets) == 1 and isinstance(st.targets[0], ast.Tuple) \
                    and len(st.targets[0].elts) == len(st.value.elts):
                vals = [self.roots(v, env) for v in st.value.elts]
                for t, r in zip(st.targets[0].elts, vals):
                    assign(t, r, env)
            else:
                r = self.roots(st.value, env)
                for t in st.targets:
                    assign(t, r, env)
            return env
        if isinstance(st, ast.AugAssign):
            self.scan_calls(st.value, env)
            t = st.target
            if isinstance(t, ast.Name):
                # x op= y on an array writes into x's buffer; on a number it re-binds (numbers alias nothing)
                self.store(t, st, 'augassign', env)
            else:
                self.store(t, st, 'augassign', env)
            return env
        if isinstance(st, ast.AnnAssign):
            if st.value is not None:
                self.scan_calls(st.value, env)
                assign(st.target, self.roots(st.value, env), env)
            return env
        if isinstance(st, ast.Delete):
            for t in st.targets:
                if isinstance(t, ast.Subscript):
                    self.store(t, st, 'delitem', env)
            return env
        if isinstance(st, (ast.Expr, ast.Assert)):
            self.scan_calls(st, env)
            return env
        if isinstance(st, ast.Return):
            if st.value is not None:
                self.scan_calls(st.value, env)
                self.returned |= self.roots(st.value, env)
            return None
        if isinstance(st, ast.Raise):
            return None
        if isinstance(st, ast.If):
            self.scan_calls(st.test, env)
            a = self.block(st.body, dict((k, set(v)) for k, v in env.items()))
            b = self.block(st.orelse, dict((k, set(v)) for k, v in env.items()))
            return join(a, b)
        if isinstance(st, (ast.For, ast.While)):
            cur = env
            for _ in range(10):
                e0 = dict((k, set(v)) for k, v in cur.items())
                if isinstance(st, ast.For):
                    self.scan_calls(st.iter, e0)
                    assign(st.target, self.roots(st.iter, e0), e0)
                else:
                    self.scan_calls(st.test, e0)
                out = self.block(st.body, e0)
                new = join(cur, out)
                if new == cur:
                    break
                cur = new
            else:
                raise Untranslatable('%s %s: loop fixpoint did not converge' % (self.rel, self.fn.name))
            if st.orelse:
                cur = join(cur, self.block(st.orelse, dict((k, set(v)) for k, v in cur.items())))
            return cur
        if isinstance(st, ast.Try):
            out = self.block(st.body + st.orelse, dict((k, set(v)) for k, v in env.items()))
            # a handler starts from anything between the entry and the end of the body
            mid = join(env, out)
            for h in st.handlers:
                out = join(out, self.block(h.body, dict((k, set(v)) for k, v in mid.items())))
            if st.finalbody:
                out = self.block(st.finalbody, out if out is not None else mid)
            return out
        if isinstance(st, ast.With):
            for it in st.items:
                self.scan_calls(it.context_expr, env)
                if it.optional_vars is not None:
                    assign(it.optional_vars, self.roots(it.context_expr, env), env)
            return self.block(st.body, env)
        if isinstance(st, (ast.FunctionDef, ast.ClassDef, ast.Import, ast.ImportFrom, ast.Global, ast.Nonlocal,
                           ast.Pass, ast.Break, ast.Continue)):
            return env
        raise Untranslatable('%s %s: statement %s' % (self.rel, self.fn.name, type(st).__name__))


def analyse_function(fn, rel, cls):
    fl = Flow(fn, rel, cls)
    fl.block(fn.body, {})
    return [fl.sites[k] for k in sorted(fl.sites)]


def param_positions(fl, static):
    """which parameters the returned value may alias, as call-site positions"""
    out = set()
    for r in fl.returned:
        if r == 'F':
            continue
        # P:name or A:name._attr_...
        nm = r[2:].split('.')[0].split('[')[0]
        if nm in fl.order:
            i = fl.order.index(nm)
            out.add(i + (1 if static else 0))      # Class.helper(x): the class expression sits in position 0
            out.add(nm)
    return out


def collect():
    sites = []
    nfn = 0
    SUMMARY.clear()
    files = sorted(glob.glob(os.path.join(REPO, 'polymath', '*.py')) +
                   glob.glob(os.path.join(REPO, 'polymath', 'extensions', '*.py')))
    if len(files) < 15:
        raise Untranslatable('only %d source files found' % len(files))
    allfns = []
    for path in files:
        rel = os.path.relpath(path, REPO)
        tree = ast.parse(open(path).read())
        todo = []
        for n in tree.body:
            if isinstance(n, ast.FunctionDef):
                todo.append((None, n))
            elif isinstance(n, ast.ClassDef):
                for m in n.body:
                    if isinstance(m, ast.FunctionDef):
                        todo.append((n.name, m))
        for cls, fn in todo:
            allfns.append((rel, cls, fn))
    # pass 1: summaries (which arguments the returned value may alias), iterated over the call graph by name
    for _ in range(6):
        before = dict((k, set(v)) for k, v in SUMMARY.items())
        for rel, cls, fn in allfns:
            if fn.name in ('__init__',):
                continue
            fl = Flow(fn, rel, cls)
            fl.block(fn.body, {})
            static = any(isinstance(d, ast.Name) and d.id in ('staticmethod',) for d in fn.decorator_list)
            pp = param_positions(fl, static and cls is not None)
            if pp:
                SUMMARY.setdefault(fn.name, set()).update(pp)
        if SUMMARY == before:
            break
    # pass 2: the stores
    for rel, cls, fn in allfns:
        if fn.name in INPLACE_METHODS:
            continue
        nfn += 1
        sites += analyse_function(fn, rel, cls)
    return sites, nfn


def site_key(s):
    return (s['file'], s['fn'], s['target'])


def cstr(x):
    return '"' + x.replace('"', "'") + '"'


def generate(out_path=None):
    sites, nfn = collect()
    out_path = out_path or os.path.join(HERE, 'coq', 'gen', 'Gen_purity.v')
    os.makedirs(os.path.dirname(out_path), exist_ok=True)
    lines = ['(* GENERATED by tools/regen/purity_ast.py from %s - do not edit *)' % REPO,
             'From Coq Require Import List String Bool.', 'From PM Require Import PurModel.',
             'Import ListNotations.', 'Open Scope string_scope.', '',
             'Definition gen_functions_analysed : nat := %d.' % nfn, '',
             'Definition gen_stores : list store_site := [']
    rows = []
    for s in sites:
        allowed = site_key(s) in ALLOWED
        rows.append('  mksite %s %s %s %s %s' % (cstr(s['file']), cstr((s['cls'] + '.' if s['cls'] else '') + s['fn']),
                                                cstr(s['target']), cstr(' '.join(s['roots'])[:120]),
                                                'true' if allowed else 'false'))
    lines.append(';\n'.join(rows))
    lines.append('].')
    with open(out_path, 'w') as f:
        f.write('\n'.join(lines) + '\n')
    return out_path, nfn, sites


if __name__ == '__main__':
    try:
        p, nfn, sites = generate(sys.argv[1] if len(sys.argv) > 1 else None)
        print('wrote %s: %d functions, %d operand stores' % (p, nfn, len(sites)))
        for s in sites:
            print('  %s:%d %s.%s  %s  <- %s%s' % (s['file'], s['line'], s['cls'], s['fn'], s['target'], s['roots'],
                                               '  [allowed]' if site_key(s) in ALLOWED else ''))
    except Untranslatable as e:
        print('UNTRANSLATABLE:', e)
        sys.exit(2)
