#!/venv/bin/python
"""Fail-closed AST translator for the small guard helpers of the in-place operators (regeneration tie for
C19 and C05).

Reads, from the CURRENT source tree (VERIF_REPO or /repo), polymath/qube.py:
  * Qube._require_inplace_shape(self, arg_shape, op)   -> gen_require_inplace_shape (arg_shape self_shape : list Z) : bool
  * Qube._require_inplace_kind(self, arg, op)          -> gen_require_inplace_kind (values_shape : list Z) (self_is_int arg_kind_f : bool) : bool
  * Qube._require_inplace_units(self, units, op)       -> gen_require_inplace_units (units_ok units_unitless : bool) : bool
        (true = the helper raises)
  * Qube._merged_mask(self, mask)                      -> gen_merged_mask (or_result self_shape : list Z) : list Z
        (a mask is modelled by its shape, [] standing for a single bool; `or_result` is the shape of
         Qube.or_(self._mask_, mask), which coq/obl/Lgc_C01.v ties to the mask model)
and writes Gen_guards.v.

Reading conventions (modelled, not verified): a tuple or list in a boolean context is true iff it is not
empty; np.shape(x) of a Python bool is (); np.broadcast_to(x, s).copy() has shape s;
np.asarray(arg).dtype.kind == 'f' is one boolean input; self.is_int(), self.UNITS_OK and
Units.is_unitless(units) are boolean inputs.

Accepted subset: a docstring; `if <cond>: raise <Exc>(...)`; `<name> = Qube.or_(self._mask_, mask)`;
`if <cond>: <name> = np.broadcast_to(<name>, self._shape_).copy()`; `return <name>`; conditions built from
not / and / or / != / == over the atoms above.  Anything else raises Untranslatable: the check then reports
the broken tie instead of proving facts about stale text."""
import ast
import os

REPO = os.environ.get('VERIF_REPO', '/repo')
PROP = None


class Untranslatable(Exception):
    pass


FUNCS = {
    '_require_inplace_shape': ('C19', [('arg_shape', 'list Z'), ('self_shape', 'list Z')], 'bool'),
    '_require_inplace_kind': ('C19', [('values_shape', 'list Z'), ('self_is_int', 'bool'), ('arg_kind_f', 'bool')], 'bool'),
    '_require_inplace_units': ('C19', [('units_ok', 'bool'), ('units_unitless', 'bool')], 'bool'),
    '_merged_mask': ('C05', [('or_result', 'list Z'), ('self_shape', 'list Z')], 'list Z'),
}
USED_BY = {'C19': ['_require_inplace_shape', '_require_inplace_kind', '_require_inplace_units', '_merged_mask'],
           'C05': ['_merged_mask']}


def src(n):
    return ast.unparse(n)


class Tr:
    def __init__(self, fname, env):
        self.fname = fname
        self.env = env          # python local name -> (coq expr, type)

    def bad(self, n, why):
        raise Untranslatable('%s: line %d: %s: `%s`' % (self.fname, getattr(n, 'lineno', 0), why, src(n)[:80]))

    def shape(self, n):
        """-> coq expr of type list Z, or None"""
        s = src(n)
        if s == 'self._shape_':
            return 'self_shape'
        if s == 'np.shape(self._values_)':
            return 'values_shape'
        if isinstance(n, ast.Name) and n.id in self.env and self.env[n.id][1] == 'list Z':
            return self.env[n.id][0]
        if isinstance(n, ast.Call) and src(n.func) == 'np.shape' and len(n.args) == 1 and isinstance(n.args[0], ast.Name) \
                and n.args[0].id in self.env and self.env[n.args[0].id][1] == 'list Z':
            return self.env[n.args[0].id][0]         # a mask is modelled by its shape
        return None

    def cond(self, n):
        if isinstance(n, ast.UnaryOp) and isinstance(n.op, ast.Not):
            return '(negb %s)' % self.cond(n.operand)
        if isinstance(n, ast.BoolOp):
            op = '&&' if isinstance(n.op, ast.And) else '||'
            return '(' + (' %s ' % op).join(self.cond(v) for v in n.values) + ')'
        if isinstance(n, ast.Compare) and len(n.ops) == 1:
            a, b = n.left, n.comparators[0]
            if src(a) == 'np.asarray(arg).dtype.kind' and isinstance(b, ast.Constant) and b.value == 'f' \
                    and isinstance(n.ops[0], ast.Eq):
                return 'arg_kind_f'
            sa, sb = self.shape(a), self.shape(b)
            if sa is not None and sb is not None:
                if isinstance(n.ops[0], ast.NotEq):
                    return '(negb (shape_eqb %s %s))' % (sa, sb)
                if isinstance(n.ops[0], ast.Eq):
                    return '(shape_eqb %s %s)' % (sa, sb)
            self.bad(n, 'comparison outside the accepted subset')
        s = src(n)
        if s == 'self.is_int()':
            return 'self_is_int'
        if s == 'self.UNITS_OK':
            return 'units_ok'
        if s == 'Units.is_unitless(units)':
            return 'units_unitless'
        sh = self.shape(n)
        if sh is not None:
            return '(nonnil %s)' % sh
        self.bad(n, 'condition outside the accepted subset')

    def body(self, stmts, ret):
        """-> coq expr for the rest of the function"""
        if not stmts:
            if ret == 'bool':
                return 'false'
            raise Untranslatable('%s: falls off the end without a return' % self.fname)
        st, rest = stmts[0], stmts[1:]
        if isinstance(st, ast.Expr) and isinstance(st.value, ast.Constant) and isinstance(st.value.value, str):
            return self.body(rest, ret)
        if isinstance(st, ast.If) and not st.orelse and len(st.body) == 1:
            c = self.cond(st.test)
            b = st.body[0]
            if isinstance(b, ast.Raise):
                if ret != 'bool':
                    self.bad(b, 'raise in a function that returns a mask')
                return '(if %s then true else %s)' % (c, self.body(rest, ret))
            if isinstance(b, ast.Assign) and len(b.targets) == 1 and isinstance(b.targets[0], ast.Name):
                nm = b.targets[0].id
                if nm in self.env and src(b.value) == 'np.broadcast_to(%s, self._shape_).copy()' % nm:
                    old = self.env[nm][0]
                    new = 'v%d' % len(self.env)
                    self.env = dict(self.env)
                    self.env[nm] = (new, 'list Z')
                    return '(let %s := if %s then self_shape else %s in %s)' % (new, c, old, self.body(rest, ret))
            self.bad(st, 'if-statement outside the accepted subset')
        if isinstance(st, ast.Assign) and len(st.targets) == 1 and isinstance(st.targets[0], ast.Name):
            if src(st.value) == 'Qube.or_(self._mask_, mask)':
                self.env = dict(self.env)
                self.env[st.targets[0].id] = ('or_result', 'list Z')
                return self.body(rest, ret)
            self.bad(st, 'assignment outside the accepted subset')
        if isinstance(st, ast.Return) and isinstance(st.value, ast.Name) and st.value.id in self.env and ret == 'list Z':
            if rest:
                self.bad(rest[0], 'statement after return')
            return self.env[st.value.id][0]
        self.bad(st, 'statement outside the accepted subset')


def generate(outpath):
    path = os.path.join(REPO, 'polymath', 'qube.py')
    tree = ast.parse(open(path).read())
    qube = [n for n in tree.body if isinstance(n, ast.ClassDef) and n.name == 'Qube']
    if len(qube) != 1:
        raise Untranslatable('class Qube not found in polymath/qube.py')
    defs = {}
    for n in qube[0].body:
        if isinstance(n, ast.FunctionDef) and n.name in FUNCS:
            if n.name in defs:
                raise Untranslatable('%s defined twice' % n.name)
            defs[n.name] = n
    wanted = USED_BY.get(PROP, sorted(FUNCS))
    out = ['(* generated by tools/regen/guards_ast.py from %s - do not edit *)' % path,
           'From Coq Require Import List ZArith Bool.', 'Import ListNotations.', 'Local Open Scope bool_scope.',
           'Definition nonnil (l : list Z) : bool := match l with [] => false | _ => true end.',
           'Fixpoint shape_eqb (a b : list Z) : bool :=',
           '  match a, b with [], [] => true | x :: a\', y :: b\' => Z.eqb x y && shape_eqb a\' b\' | _, _ => false end.', '']
    nlines = 0
    for name in wanted:
        if name not in defs:
            raise Untranslatable('Qube.%s not found' % name)
        fn = defs[name]
        prop, params, ret = FUNCS[name]
        argn = [a.arg for a in fn.args.args]
        want_args = {'_require_inplace_shape': ['self', 'arg_shape', 'op'], '_require_inplace_kind': ['self', 'arg', 'op'],
                     '_require_inplace_units': ['self', 'units', 'op'], '_merged_mask': ['self', 'mask']}[name]
        if argn != want_args or fn.decorator_list:
            raise Untranslatable('%s: signature %s, expected %s' % (name, argn, want_args))
        env = {'arg_shape': ('arg_shape', 'list Z')} if name == '_require_inplace_shape' else {}
        body = Tr(name, env).body(list(fn.body), ret)
        nlines += len(fn.body)
        out.append('Definition gen%s %s : %s :=\n  %s.\n' % (name, ' '.join('(%s : %s)' % p for p in params), ret, body))
    with open(outpath, 'w') as f:
        f.write('\n'.join(out) + '\n')
    return outpath, len(wanted), nlines


if __name__ == '__main__':
    import sys
    print(generate(sys.argv[1] if len(sys.argv) > 1 else '/tmp/Gen_guards.v'))
    print(open(sys.argv[1] if len(sys.argv) > 1 else '/tmp/Gen_guards.v').read())
