#!/venv/bin/python
"""G-cls: regenerate the class table (NRANK NUMER FLOATS_OK INTS_OK BOOLS_OK UNITS_OK DERIVS_OK and
the shape of DEFAULT_VALUE) from the class bodies of <repo>/polymath/*.py by reading the AST.

usage: classes_ast.py <repo> <out.v>          exit 0 = written, exit 2 = FAIL CLOSED (message on stderr)

Accepted subset (anything else stops the translator):  top-level assignments `NAME = <literal>` in the
class body, where <literal> is None / True / False / an int / a float / a tuple of ints /
np.array(<nested list of numbers>) / np.ones(k|tuple) / np.zeros(k|tuple); single inheritance from a
class of the table (or object); no other assignment to these names anywhere in the package."""
import ast
import glob
import os
import sys

CLASSES = ['Qube', 'Scalar', 'Boolean', 'Vector', 'Vector3', 'Pair', 'Matrix', 'Matrix3', 'Quaternion',
           'Polynomial']
ATTRS = ['NRANK', 'NUMER', 'FLOATS_OK', 'INTS_OK', 'BOOLS_OK', 'UNITS_OK', 'DERIVS_OK', 'DEFAULT_VALUE']


class Closed(Exception):
    pass


def lit_shape(node):
    """shape of a nested list literal of numbers"""
    if isinstance(node, (ast.List, ast.Tuple)):
        if not node.elts:
            return (0,)
        subs = [lit_shape(e) for e in node.elts]
        if any(s != subs[0] for s in subs):
            raise Closed('ragged array literal')
        return (len(node.elts),) + subs[0]
    if isinstance(node, ast.Constant) and isinstance(node.value, (int, float)) and not isinstance(node.value, bool):
        return ()
    if isinstance(node, ast.UnaryOp) and isinstance(node.op, ast.USub):
        return lit_shape(node.operand)
    raise Closed('unsupported array element: ' + ast.dump(node)[:80])


def int_tuple(node):
    if isinstance(node, ast.Constant) and isinstance(node.value, int) and not isinstance(node.value, bool):
        return (node.value,)
    if isinstance(node, ast.Tuple) and all(isinstance(e, ast.Constant) and isinstance(e.value, int)
                                           and not isinstance(e.value, bool) for e in node.elts):
        return tuple(e.value for e in node.elts)
    raise Closed('not an int tuple: ' + ast.dump(node)[:80])


def value_of(name, node):
    if name == 'DEFAULT_VALUE':
        if isinstance(node, ast.Constant) and isinstance(node.value, (bool, int, float)):
            return ('default', ())
        if isinstance(node, ast.Call) and isinstance(node.func, ast.Attribute) and \
                isinstance(node.func.value, ast.Name) and node.func.value.id == 'np' and not node.keywords:
            if node.func.attr == 'array' and len(node.args) == 1:
                return ('default', lit_shape(node.args[0]))
            if node.func.attr in ('ones', 'zeros') and len(node.args) == 1:
                return ('default', int_tuple(node.args[0]))
        raise Closed('unsupported DEFAULT_VALUE expression: ' + ast.dump(node)[:120])
    if isinstance(node, ast.Constant) and node.value is None and name in ('NRANK', 'NUMER'):
        return None
    if name == 'NRANK':
        if isinstance(node, ast.Constant) and isinstance(node.value, int) and not isinstance(node.value, bool) \
                and 0 <= node.value < 10:
            return node.value
    elif name == 'NUMER':
        if isinstance(node, ast.Tuple):
            return int_tuple(node)
    else:
        if isinstance(node, ast.Constant) and isinstance(node.value, bool):
            return node.value
    raise Closed('unsupported value for %s: %s' % (name, ast.dump(node)[:120]))


def read(repo):
    bodies, bases = {}, {}
    files = sorted(glob.glob(os.path.join(repo, 'polymath', '*.py')) +
                   glob.glob(os.path.join(repo, 'polymath', 'extensions', '*.py')))
    if not files:
        raise Closed('no sources under %s/polymath' % repo)
    for path in files:
        tree = ast.parse(open(path).read(), path)
        for node in ast.walk(tree):
            # assignments to Class.ATTR or setattr(...) anywhere: not in the subset
            if isinstance(node, (ast.Assign, ast.AugAssign, ast.AnnAssign)):
                targets = node.targets if isinstance(node, ast.Assign) else [node.target]
                for t in targets:
                    if isinstance(t, ast.Attribute) and t.attr in ATTRS:
                        raise Closed('%s: attribute assignment to .%s (line %d)' % (path, t.attr, node.lineno))
            if isinstance(node, ast.Call) and isinstance(node.func, ast.Name) and node.func.id == 'setattr' \
                    and len(node.args) >= 2 and isinstance(node.args[1], ast.Constant) and node.args[1].value in ATTRS:
                raise Closed('%s: setattr of %s (line %d)' % (path, node.args[1].value, node.lineno))
        for node in tree.body:
            if isinstance(node, ast.ClassDef) and node.name in CLASSES:
                if node.name in bodies:
                    raise Closed('class %s defined twice' % node.name)
                if len(node.bases) != 1 or not isinstance(node.bases[0], ast.Name):
                    raise Closed('class %s: unsupported bases' % node.name)
                bases[node.name] = node.bases[0].id
                attrs = {}
                for st in node.body:
                    if isinstance(st, ast.Assign):
                        for t in st.targets:
                            if isinstance(t, ast.Name) and t.id in ATTRS:
                                if len(st.targets) != 1 or t.id in attrs:
                                    raise Closed('class %s: %s assigned more than once' % (node.name, t.id))
                                attrs[t.id] = value_of(t.id, st.value)
                            elif isinstance(t, (ast.Tuple, ast.List)):
                                for e in ast.walk(t):
                                    if isinstance(e, ast.Name) and e.id in ATTRS:
                                        raise Closed('class %s: tuple assignment to %s' % (node.name, e.id))
                    elif isinstance(st, (ast.FunctionDef, ast.Expr, ast.Pass)):
                        continue
                    else:
                        for e in ast.walk(st):
                            if isinstance(e, ast.Name) and e.id in ATTRS and isinstance(e.ctx, ast.Store):
                                raise Closed('class %s: %s assigned in a compound statement' % (node.name, e.id))
                bodies[node.name] = attrs
    for c in CLASSES:
        if c not in bodies:
            raise Closed('class %s not found' % c)
        if bases[c] != 'object' and bases[c] not in CLASSES:
            raise Closed('class %s: base %s outside the table' % (c, bases[c]))
    table = {}
    for c in CLASSES:
        row = {}
        for a in ATTRS:
            k, found = c, False
            for _ in range(12):
                if a in bodies[k]:
                    row[a] = bodies[k][a]
                    found = True
                    break
                if bases[k] == 'object':
                    break
                k = bases[k]
            if not found:
                if a == 'DEFAULT_VALUE':
                    row[a] = None
                else:
                    raise Closed('class %s: no definition of %s in its bases' % (c, a))
        table[c] = row
    return table


def cnatl(t):
    return '[' + '; '.join('%d%%nat' % n for n in t) + ']' if t else '(@nil nat)'


def emit(table, repo):
    lines = ['(* REGENERATED by tools/regen/classes_ast.py from %s/polymath - do not edit.' % repo,
             '   Class table (G-cls) + the obligation that it meets the hypotheses of the C05 theorems. *)',
             'From Coq Require Import List Bool ZArith String.', 'From PM Require Import Base C05Model.',
             'Import ListNotations.', '', 'Definition gen_table (c : cls) : clsinfo :=', '  match c with']
    for c in CLASSES:
        r = table[c]
        b = lambda x: 'true' if x else 'false'      # noqa: E731
        nr = 'None' if r['NRANK'] is None else '(Some %d%%nat)' % r['NRANK']
        nu = 'None' if r['NUMER'] is None else '(Some %s)' % cnatl(r['NUMER'])
        df = 'None' if r['DEFAULT_VALUE'] is None else '(Some %s)' % cnatl(r['DEFAULT_VALUE'][1])
        lines.append('  | C%s => mkinfo %s %s %s %s %s %s %s %s' % (
            c, nr, nu, b(r['FLOATS_OK']), b(r['INTS_OK']), b(r['BOOLS_OK']), b(r['UNITS_OK']),
            b(r['DERIVS_OK']), df))
    lines += ['  end.', '',
              '(* obligation: the regenerated table satisfies table_ok (hypothesis of every C05 theorem) *)',
              'Lemma gen_table_ok : table_ok gen_table = true.', 'Proof. vm_compute. reflexivity. Qed.', '']
    return '\n'.join(lines)


def main():
    repo, out = sys.argv[1], sys.argv[2]
    try:
        table = read(repo)
        text = emit(table, repo)
    except Closed as e:
        sys.stderr.write('classes_ast: FAIL CLOSED: %s\n' % e)
        return 2
    except SyntaxError as e:
        sys.stderr.write('classes_ast: FAIL CLOSED: syntax error %s\n' % e)
        return 2
    tmp = out + '.tmp%d' % os.getpid()
    with open(tmp, 'w') as f:
        f.write(text)
    os.replace(tmp, out)
    return 0


if __name__ == '__main__':
    sys.exit(main())
