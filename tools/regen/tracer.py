"""Symbolic (concolic) tracer for polymath's numeric kernels  (DESIGN.md section 4.3).

What it does
------------
polymath's numeric code is run UNMODIFIED on ``dtype=object`` NumPy arrays whose
elements are ``Sym`` objects.  A ``Sym`` carries an expression DAG node (``.e``)
and the concrete float the real code would have computed (``.v``).  Every
arithmetic operator and every NumPy ufunc method name (``cos sin sqrt arctan2
...``) is overloaded to build the expression and to compute the concrete value.
Comparisons and truth tests use the concrete value and are LOGGED as path
conditions: the trace follows exactly one path (the one taken at the concrete
seed point) and the emitted formulas are valid on that path.

The result of a trace is, per output entry, an expression over the input
variables; ``emit_coq.py`` prints those as Gallina terms over R.  A sign flip, a
swapped index, a dropped term in the source changes the emitted term, and the
hand-written obligation schema instantiated on it stops compiling -- for all
reals, not for a sample.

Usage
-----
    from tools.regen import tracer as T
    Pm = T.install()                 # imports polymath (VERIF_REPO honoured), patches
                                     # IN THIS PROCESS ONLY; idempotent
    with T.Trace('cross3') as tr:
        a = tr.vector('a', [0.3, -1.2, 0.7])      # object ndarray of Sym variables a0 a1 a2
        b = tr.vector('b', [1.1, 0.4, -0.5])
        r = Pm.Vector3(a).cross(Pm.Vector3(b))
        tr.output('r', r.values)                  # ndarray/scalar of Sym (or floats)
    tr.outputs      -> [(name, index tuple, E node, concrete float)]
    tr.path         -> [(E lhs, op, E rhs, bool outcome)]    path condition
    tr.inputs       -> [(varname, concrete float)]
    tr.hyps         -> [(kind, data)]   hypotheses introduced by stubs (LAPACK)
    T.evaluate(node, env)   -> float    independent evaluation of a DAG node (sanity)

Angles: ``tr.angle('t', 0.7)`` returns a variable whose ``cos``/``sin`` are the
OPAQUE variables ``c_t``/``s_t`` (so rotation entries are polynomials and the
obligations are closed by ring/nsatz under ``c_t^2 + s_t^2 = 1``); the angle
itself cannot be used arithmetically except for negation and scaling by a
constant (``sin(-t) = -s_t``; ``cos(k*t)`` becomes the opaque pair ``c_t_k``).

Derivatives (for C06): inputs may carry derivatives -- they are ordinary Sym
arrays (``tr.vector('dx', ...)``) inserted with ``insert_deriv``; the traced
derivative of the result is read from ``result.d_dt.values``.

What is patched (tracer process only)
-------------------------------------
* ``numbers.Real.register(Sym)`` -- polymath accepts a Sym where it accepts a float.
* ``Qube._dtype_and_value`` / ``Qube._casted_to_dtype`` -- classify Sym and object
  arrays as 'float' and leave them alone.
* the name ``np`` inside every polymath module is replaced by a proxy of NumPy that
  (a) makes ``zeros/empty/ones/zeros_like/...`` return object arrays when no
  non-float dtype is requested, (b) routes ``sqrt cos sin ... sign isnan isinf abs
  maximum minimum arctan2`` on Sym scalars / object arrays to the Sym methods,
  (c) replaces ``np.linalg.det/inv`` by stubs: ``det`` is the Leibniz polynomial,
  ``inv`` returns fresh symbols ``Inv<k>_i_j`` and records the hypothesis
  ``M . Inv(M) = I`` (kind 'inv').  Everything else falls through to NumPy.
  ``float(sym)`` raises ``TraceError`` (fail closed: a value must never silently
  lose its symbol).

Simplifications applied while building expressions (sound over R, part of the
trusted translator, validated at the seed point by ``evaluate``):
constant folding; ``0+x x+0 x-0 1*x x*1 x/1 -(-x)``; ``0*x = x*0 = 0/x = 0``;
``x**k`` for integer k kept as a power; ``x**0.5 = sqrt x``; ``sin(-t) = -sin t``,
``cos(-t) = cos t`` for opaque angles.
"""
import math
import numbers
import os
import sys

import numpy as _np


class TraceError(Exception):
    pass


# ---------------------------------------------------------------------------
# expression DAG (hash-consed, so structural sharing is object identity)
# ---------------------------------------------------------------------------
class E(object):
    __slots__ = ('op', 'args', 'uid')

    def __repr__(self):
        return 'E(%s,%s)' % (self.op, ','.join(str(a) if not isinstance(a, E) else '#%d' % a.uid
                                               for a in self.args))


_TABLE = {}
_COUNTER = [0]


def mk(op, *args):
    key = (op,) + tuple(a.uid if isinstance(a, E) else ('k', a) for a in args)
    node = _TABLE.get(key)
    if node is None:
        node = E()
        node.op = op
        node.args = args
        _COUNTER[0] += 1
        node.uid = _COUNTER[0]
        _TABLE[key] = node
    return node


def const(c):
    c = float(c)
    if c == 0.0:
        c = 0.0         # no negative zero over R
    return mk('const', c)


def is_const(e, val=None):
    return e.op == 'const' and (val is None or e.args[0] == val)


UNARY = {
    'sqrt': math.sqrt, 'cos': math.cos, 'sin': math.sin, 'tan': math.tan,
    'arcsin': math.asin, 'arccos': math.acos, 'arctan': math.atan,
    'exp': math.exp, 'log': math.log, 'abs': abs,
}


def _fold1(name, x):
    try:
        return UNARY[name](x)
    except (ValueError, OverflowError):
        return float('nan')


def e_add(a, b):
    if is_const(a) and is_const(b):
        return const(a.args[0] + b.args[0])
    if is_const(a, 0.0):
        return b
    if is_const(b, 0.0):
        return a
    return mk('add', a, b)


def e_sub(a, b):
    if is_const(a) and is_const(b):
        return const(a.args[0] - b.args[0])
    if is_const(b, 0.0):
        return a
    if is_const(a, 0.0):
        return e_neg(b)
    return mk('sub', a, b)


def e_mul(a, b):
    if is_const(a) and is_const(b):
        return const(a.args[0] * b.args[0])
    if is_const(a, 0.0) or is_const(b, 0.0):
        return const(0.0)
    if is_const(a, 1.0):
        return b
    if is_const(b, 1.0):
        return a
    if is_const(a, -1.0):
        return e_neg(b)
    if is_const(b, -1.0):
        return e_neg(a)
    return mk('mul', a, b)


def e_div(a, b):
    if is_const(a) and is_const(b) and b.args[0] != 0.0:
        return const(a.args[0] / b.args[0])
    if is_const(b, 1.0):
        return a
    if is_const(a, 0.0) and not is_const(b, 0.0):
        return const(0.0)
    return mk('div', a, b)


def e_neg(a):
    if is_const(a):
        return const(-a.args[0])
    if a.op == 'neg':
        return a.args[0]
    return mk('neg', a)


def e_pow(a, k):
    """a ** k for a Python number k"""
    if isinstance(k, Sym):
        if not is_const(k.e):
            raise TraceError('symbolic exponent')
        k = k.e.args[0]
    k = float(k)
    if k == int(k):
        k = int(k)
        if is_const(a):
            return const(a.args[0] ** k) if (a.args[0] != 0 or k >= 0) else mk('pow', a, k)
        if k == 1:
            return a
        if k == 0:
            return const(1.0)
        return mk('pow', a, k)
    if k == 0.5:
        return e_fn('sqrt', a)
    if k == -0.5:
        return e_div(const(1.0), e_fn('sqrt', a))
    raise TraceError('unsupported exponent %r' % k)


def e_fn(name, a):
    if is_const(a):
        return const(_fold1(name, a.args[0]))
    if name in ('sin', 'cos'):
        ang = _angle_of(a)
        if ang is not None:
            base, k = ang
            neg = k < 0
            k = abs(k)
            tag = base if k == 1.0 else '%s_%s' % (base, _ktag(k))
            v = mk('var', ('c_' if name == 'cos' else 's_') + tag)
            return e_neg(v) if (neg and name == 'sin') else v
    if name in ('sin', 'cos', 'tan') and a.op == 'neg':
        inner = e_fn(name, a.args[0])
        return inner if name == 'cos' else e_neg(inner)
    if a.op == 'angle' or _contains_angle(a):
        raise TraceError('opaque angle used in %s(%r)' % (name, a))
    return mk('fn', name, a)


def _ktag(k):
    s = ('%g' % k).replace('.', 'p').replace('-', 'm')
    return s


def _angle_of(a):
    """(angle name, scale) when a is k * angle for a nonzero constant k (through neg / mul)"""
    if a.op == 'angle':
        return a.args[0], 1.0
    if a.op == 'neg':
        r = _angle_of(a.args[0])
        return None if r is None else (r[0], -r[1])
    if a.op == 'mul':
        x, y = a.args
        if is_const(x) and x.args[0] != 0:
            r = _angle_of(y)
            return None if r is None else (r[0], r[1] * x.args[0])
        if is_const(y) and y.args[0] != 0:
            r = _angle_of(x)
            return None if r is None else (r[0], r[1] * y.args[0])
    return None


def _contains_angle(a, _memo=None):
    if _memo is None:
        _memo = {}
    if a.uid in _memo:
        return _memo[a.uid]
    r = a.op == 'angle' or any(isinstance(x, E) and _contains_angle(x, _memo) for x in a.args)
    _memo[a.uid] = r
    return r


def e_fn2(name, a, b):
    if is_const(a) and is_const(b) and name == 'arctan2':
        return const(math.atan2(a.args[0], b.args[0]))
    return mk('fn2', name, a, b)


# ---------------------------------------------------------------------------
# independent evaluation of a node (used for the sanity obligation)
# ---------------------------------------------------------------------------
def evaluate(node, env, _memo=None):
    """Value of the DAG node with variables / stub symbols / angles taken from env
    (dict name -> float; opaque trig variables c_<t>, s_<t> are derived from the
    angle value when not given)."""
    memo = {} if _memo is None else _memo
    stack = [node]
    while stack:
        n = stack[-1]
        if n.uid in memo:
            stack.pop()
            continue
        pend = [a for a in n.args if isinstance(a, E) and a.uid not in memo]
        if pend:
            stack.extend(pend)
            continue
        stack.pop()
        op = n.op
        A = [memo[a.uid] if isinstance(a, E) else a for a in n.args]
        if op == 'const':
            v = A[0]
        elif op in ('var', 'angle'):
            name = A[0]
            if name in env:
                v = env[name]
            elif name[:2] in ('c_', 's_'):
                tag = name[2:]
                base, k = tag, 1.0
                if tag not in env:
                    base, ks = tag.rsplit('_', 1)
                    k = float(ks.replace('p', '.').replace('m', '-'))
                v = (math.cos if name[0] == 'c' else math.sin)(k * env[base])
            else:
                raise KeyError(name)
        elif op == 'add':
            v = A[0] + A[1]
        elif op == 'sub':
            v = A[0] - A[1]
        elif op == 'mul':
            v = A[0] * A[1]
        elif op == 'div':
            v = A[0] / A[1] if A[1] != 0 else float('nan')
        elif op == 'neg':
            v = -A[0]
        elif op == 'pow':
            try:
                v = A[0] ** A[1]
            except ZeroDivisionError:
                v = float('nan')
        elif op == 'fn':
            v = _fold1(A[0], A[1])
        elif op == 'fn2':
            v = math.atan2(A[1], A[2])
        else:
            raise TraceError('evaluate: unknown op ' + op)
        memo[n.uid] = v
    return memo[node.uid]


def node_size(node):
    """number of distinct DAG nodes below node"""
    seen = set()
    stack = [node]
    while stack:
        n = stack.pop()
        if n.uid in seen:
            continue
        seen.add(n.uid)
        stack.extend(a for a in n.args if isinstance(a, E))
    return len(seen)


def variables(node):
    seen, out = set(), []
    stack = [node]
    while stack:
        n = stack.pop()
        if n.uid in seen:
            continue
        seen.add(n.uid)
        if n.op in ('var', 'angle'):
            out.append(n.args[0])
        stack.extend(a for a in n.args if isinstance(a, E))
    return sorted(set(out))


# ---------------------------------------------------------------------------
# Sym
# ---------------------------------------------------------------------------
_CURRENT = [None]       # the active Trace


def _log_path(lhs, op, rhs, outcome):
    tr = _CURRENT[0]
    if tr is None:
        return
    if is_const(lhs) and is_const(rhs):
        return
    tr.path.append((lhs, op, rhs, bool(outcome)))


def _lift(x):
    """Sym for a Sym / Python or NumPy real; None otherwise"""
    if isinstance(x, Sym):
        return x
    if isinstance(x, (bool, _np.bool_)):
        return Sym(const(float(x)), float(x))
    if isinstance(x, (int, float, _np.integer, _np.floating)):
        return Sym(const(float(x)), float(x))
    if isinstance(x, _np.ndarray) and x.shape == ():
        return _lift(x[()])
    return None


class Sym(object):
    """expression node + the concrete float the real code computes"""
    __slots__ = ('e', 'v')

    def __init__(self, e, v):
        self.e = e
        self.v = float(v)

    def __repr__(self):
        return 'Sym(#%d=%g)' % (self.e.uid, self.v)

    # -- the value must never silently lose its symbol --------------------
    def __float__(self):
        if is_const(self.e):
            return self.v
        raise TraceError('float() of a symbolic value (formula would be lost)')

    def __int__(self):
        if is_const(self.e):
            return int(self.v)
        raise TraceError('int() of a symbolic value')

    __index__ = None

    def __hash__(self):
        return hash(self.e.uid)

    def __bool__(self):
        _log_path(self.e, '!=', const(0.0), self.v != 0)
        return self.v != 0

    # -- arithmetic ---------------------------------------------------------
    def _bin(self, other, fe, fv, swap=False):
        o = _lift(other)
        if o is None:
            return NotImplemented
        a, b = (o, self) if swap else (self, o)
        try:
            v = fv(a.v, b.v)
        except ZeroDivisionError:
            v = float('nan')
        except OverflowError:
            v = float('inf')
        return Sym(fe(a.e, b.e), v)

    def __add__(self, o):
        return self._bin(o, e_add, lambda x, y: x + y)

    def __radd__(self, o):
        return self._bin(o, e_add, lambda x, y: x + y, True)

    def __sub__(self, o):
        return self._bin(o, e_sub, lambda x, y: x - y)

    def __rsub__(self, o):
        return self._bin(o, e_sub, lambda x, y: x - y, True)

    def __mul__(self, o):
        return self._bin(o, e_mul, lambda x, y: x * y)

    def __rmul__(self, o):
        return self._bin(o, e_mul, lambda x, y: x * y, True)

    def __truediv__(self, o):
        return self._bin(o, e_div, lambda x, y: x / y)

    def __rtruediv__(self, o):
        return self._bin(o, e_div, lambda x, y: x / y, True)

    def __neg__(self):
        return Sym(e_neg(self.e), -self.v)

    def __pos__(self):
        return self

    def __abs__(self):
        return Sym(e_fn('abs', self.e), abs(self.v))

    def __pow__(self, k):
        kk = _lift(k)
        if kk is None:
            return NotImplemented
        try:
            v = self.v ** kk.v
        except ZeroDivisionError:
            v = float('inf')
        return Sym(e_pow(self.e, kk), v)

    def __rpow__(self, base):
        raise TraceError('symbolic exponent')

    def __floordiv__(self, o):
        raise TraceError('// on a symbolic value')

    __rfloordiv__ = __floordiv__

    def __mod__(self, o):
        raise TraceError('% on a symbolic value')

    __rmod__ = __mod__

    # -- comparisons: concrete, logged ------------------------------------------
    def _cmp(self, other, op, f):
        o = _lift(other)
        if o is None:
            return NotImplemented
        r = f(self.v, o.v)
        _log_path(self.e, op, o.e, r)
        return r

    def __eq__(self, o):
        return self._cmp(o, '==', lambda x, y: x == y)

    def __ne__(self, o):
        return self._cmp(o, '!=', lambda x, y: x != y)

    def __lt__(self, o):
        return self._cmp(o, '<', lambda x, y: x < y)

    def __le__(self, o):
        return self._cmp(o, '<=', lambda x, y: x <= y)

    def __gt__(self, o):
        return self._cmp(o, '>', lambda x, y: x > y)

    def __ge__(self, o):
        return self._cmp(o, '>=', lambda x, y: x >= y)

    # -- ufunc method names (NumPy calls x.<name>() on object arrays) ------------
    def _u(self, name):
        return Sym(e_fn(name, self.e), _fold1(name, self.v))

    def sqrt(self):
        return self._u('sqrt')

    def cos(self):
        return self._u('cos')

    def sin(self):
        return self._u('sin')

    def tan(self):
        return self._u('tan')

    def arcsin(self):
        return self._u('arcsin')

    def arccos(self):
        return self._u('arccos')

    def arctan(self):
        return self._u('arctan')

    def exp(self):
        return self._u('exp')

    def log(self):
        return self._u('log')

    def arctan2(self, other):
        o = _lift(other)
        return Sym(e_fn2('arctan2', self.e, o.e), math.atan2(self.v, o.v))

    def conjugate(self):
        return self

    def sign(self):
        """concrete sign, logged as a path condition (the result is a constant)"""
        s = (self.v > 0) - (self.v < 0)
        _log_path(self.e, {1: '>', -1: '<', 0: '=='}[s], const(0.0), True)
        return Sym(const(float(s)), float(s))

    def isnan(self):
        return math.isnan(self.v)

    def isinf(self):
        return math.isinf(self.v)

    def isfinite(self):
        return math.isfinite(self.v)

    def copy(self):
        return self

    def __getitem__(self, idx):
        # NumPy scalars accept x[()] and x[..., np.newaxis]; so must a Sym
        arr = _np.empty((), dtype=object)
        arr[()] = self
        return arr[idx]

    @property
    def real(self):
        return self

    @property
    def shape(self):
        return ()

    @property
    def ndim(self):
        return 0


numbers.Real.register(Sym)


def concrete(x):
    """float array / float of the concrete parts of a Sym / object array / number"""
    if isinstance(x, Sym):
        return x.v
    a = _np.asarray(x)
    if a.dtype == object:
        out = _np.empty(a.shape, dtype=float)
        for idx in _np.ndindex(a.shape):
            el = a[idx]
            out[idx] = el.v if isinstance(el, Sym) else float(el)
        return out if a.shape else float(out)
    return a.astype(float) if a.shape else float(a)


def _is_symbolic(x):
    if isinstance(x, Sym):
        return True
    return isinstance(x, _np.ndarray) and x.dtype == object


# ---------------------------------------------------------------------------
# the NumPy proxy seen by polymath's modules
# ---------------------------------------------------------------------------
def _vec1(name):
    def f(x, *args, **kw):
        if isinstance(x, Sym):
            return getattr(x, name)()
        if isinstance(x, _np.ndarray) and x.dtype == object:
            out = _np.empty(x.shape, dtype=object)
            for idx in _np.ndindex(x.shape):
                el = _lift(x[idx])
                out[idx] = getattr(el, name)()
            return out if x.shape else out[()]
        return getattr(_np, name)(x, *args, **kw)
    f.__name__ = name
    return f


def _pred(name):
    def f(x, *args, **kw):
        if isinstance(x, Sym):
            return getattr(x, name)()
        if isinstance(x, _np.ndarray) and x.dtype == object:
            out = _np.empty(x.shape, dtype=bool)
            for idx in _np.ndindex(x.shape):
                out[idx] = getattr(_lift(x[idx]), name)()
            return out if x.shape else bool(out[()])
        return getattr(_np, name)(x, *args, **kw)
    f.__name__ = name
    return f


def _obj_fill(shape, value):
    out = _np.empty(shape, dtype=object)
    out.fill(value)
    return out


def _alloc(kind):
    real = getattr(_np, kind)
    fill = {'zeros': 0.0, 'empty': 0.0, 'ones': 1.0}[kind]

    def f(shape, dtype=None, *args, **kw):
        if dtype is None or dtype in (float, 'float', _np.float64, _np.double) \
                or dtype == _np.dtype(float) or dtype == _np.dtype(object):
            if _CURRENT[0] is not None:
                return _obj_fill(shape, fill)
        return real(shape, dtype, *args, **kw)
    f.__name__ = kind
    return f


def _det_expr(M):
    """Leibniz / cofactor expansion along the first row (symbolic spec of LAPACK det)"""
    n = len(M)
    if n == 1:
        return M[0][0]
    if n == 2:
        return M[0][0] * M[1][1] - M[0][1] * M[1][0]
    total = None
    for j in range(n):
        minor = [[M[r][c] for c in range(n) if c != j] for r in range(1, n)]
        term = M[0][j] * _det_expr(minor)
        if j % 2:
            total = (-term) if total is None else total - term
        else:
            total = term if total is None else total + term
    return total


class _Linalg(object):
    def __getattr__(self, name):
        return getattr(_np.linalg, name)

    @staticmethod
    def det(a):
        if not _is_symbolic(a):
            return _np.linalg.det(a)
        a = _np.asarray(a)
        out = _np.empty(a.shape[:-2], dtype=object)
        for idx in _np.ndindex(a.shape[:-2]):
            M = [[_lift(a[idx + (i, j)]) for j in range(a.shape[-1])] for i in range(a.shape[-2])]
            d = _det_expr(M)
            # concrete value from LAPACK itself, so that path decisions are the real ones
            d = Sym(d.e, _np.linalg.det(concrete(a[idx])))
            out[idx] = d
        return out if out.shape else out[()]

    @staticmethod
    def inv(a):
        if not _is_symbolic(a):
            return _np.linalg.inv(a)
        tr = _CURRENT[0]
        a = _np.asarray(a)
        n = a.shape[-1]
        out = _np.empty(a.shape, dtype=object)
        for idx in _np.ndindex(a.shape[:-2]):
            conc = _np.linalg.inv(concrete(a[idx]))
            tr.n_inv += 1
            tag = 'Inv%d' % tr.n_inv
            names = [['%s_%d_%d' % (tag, i, j) for j in range(n)] for i in range(n)]
            for i in range(n):
                for j in range(n):
                    out[idx + (i, j)] = tr._fresh(names[i][j], conc[i, j], stub=True)
            M = [[_lift(a[idx + (i, j)]).e for j in range(n)] for i in range(n)]
            tr.hyps.append(('inv', {'tag': tag, 'n': n, 'M': M, 'names': names}))
        return out


class NpProxy(object):
    """`np` as seen from inside polymath while tracing"""
    linalg = _Linalg()
    zeros = staticmethod(_alloc('zeros'))
    empty = staticmethod(_alloc('empty'))
    ones = staticmethod(_alloc('ones'))

    def __getattr__(self, name):
        return getattr(_np, name)

    @staticmethod
    def zeros_like(a, dtype=None, *args, **kw):
        if _is_symbolic(a) and dtype is None:
            return _obj_fill(_np.shape(a), 0.0)
        return _np.zeros_like(a, dtype, *args, **kw)

    @staticmethod
    def ones_like(a, dtype=None, *args, **kw):
        if _is_symbolic(a) and dtype is None:
            return _obj_fill(_np.shape(a), 1.0)
        return _np.ones_like(a, dtype, *args, **kw)

    empty_like = zeros_like

    @staticmethod
    def isscalar(x):
        return isinstance(x, Sym) or _np.isscalar(x)

    @staticmethod
    def shape(x):
        if isinstance(x, Sym):
            return ()
        return _np.shape(x)

    @staticmethod
    def arctan2(y, x, *args, **kw):
        if _is_symbolic(y) or _is_symbolic(x):
            yy, xx = _np.broadcast_arrays(_np.asarray(y, dtype=object), _np.asarray(x, dtype=object))
            out = _np.empty(yy.shape, dtype=object)
            for idx in _np.ndindex(yy.shape):
                out[idx] = _lift(yy[idx]).arctan2(_lift(xx[idx]))
            return out if out.shape else out[()]
        return _np.arctan2(y, x, *args, **kw)

    @staticmethod
    def _minmax(a, b, pick_first):
        aa, bb = _np.broadcast_arrays(_np.asarray(a, dtype=object), _np.asarray(b, dtype=object))
        out = _np.empty(aa.shape, dtype=object)
        for idx in _np.ndindex(aa.shape):
            x, y = _lift(aa[idx]), _lift(bb[idx])
            out[idx] = x if pick_first(x, y) else y
        return out if out.shape else out[()]

    @staticmethod
    def maximum(a, b, *args, **kw):
        if _is_symbolic(a) or _is_symbolic(b):
            return NpProxy._minmax(a, b, lambda x, y: x >= y)
        return _np.maximum(a, b, *args, **kw)

    @staticmethod
    def minimum(a, b, *args, **kw):
        if _is_symbolic(a) or _is_symbolic(b):
            return NpProxy._minmax(a, b, lambda x, y: x <= y)
        return _np.minimum(a, b, *args, **kw)

    @staticmethod
    def ascontiguousarray(a, *args, **kw):
        return _np.ascontiguousarray(a, *args, **kw)

    @staticmethod
    def argmax(a, axis=None, *args, **kw):
        if _is_symbolic(a):
            a = _np.asarray(a)
            conc = concrete(a)
            res = _np.argmax(conc, axis=axis)
            # log the comparisons that decide the arg max
            if axis is not None:
                moved = _np.moveaxis(a, axis, -1)
                for idx in _np.ndindex(moved.shape[:-1]):
                    k = int(_np.asarray(res)[idx]) if _np.shape(res) else int(res)
                    for m in range(moved.shape[-1]):
                        if m != k:
                            _lift(moved[idx + (k,)]) >= _lift(moved[idx + (m,)])
            return res
        return _np.argmax(a, axis, *args, **kw)

    @staticmethod
    def max(a, axis=None, *args, **kw):
        if _is_symbolic(a):
            a = _np.asarray(a)
            if axis is None:
                flat = a.ravel()
                k = int(_np.argmax(concrete(flat)))
                return flat[k]
            k = _np.argmax(concrete(a), axis=axis)
            return _np.take_along_axis(a, _np.expand_dims(k, axis), axis).squeeze(axis)
        return _np.max(a, axis, *args, **kw)


for _name in ('sqrt', 'cos', 'sin', 'tan', 'arcsin', 'arccos', 'arctan', 'exp', 'log', 'sign'):
    setattr(NpProxy, _name, staticmethod(_vec1(_name)))
NpProxy.abs = staticmethod(lambda x, *a, **k: abs(x) if _is_symbolic(x) else _np.abs(x, *a, **k))
NpProxy.absolute = NpProxy.abs
for _name in ('isnan', 'isinf', 'isfinite'):
    setattr(NpProxy, _name, staticmethod(_pred(_name)))


# ---------------------------------------------------------------------------
# installation
# ---------------------------------------------------------------------------
_INSTALLED = [None]


def install(repo=None):
    """Import polymath from the repo under test and patch it for tracing in THIS
    process.  Returns the polymath module."""
    if _INSTALLED[0] is not None:
        return _INSTALLED[0]
    repo = repo or os.environ.get('VERIF_REPO', '/repo')
    if sys.path[0] != repo:
        sys.path.insert(0, repo)
    import polymath
    from polymath.qube import Qube

    orig_dv = Qube._dtype_and_value
    orig_cast = Qube._casted_to_dtype

    def _dtype_and_value(arg, masked_value=0, opstr=''):
        if isinstance(arg, Sym):
            return ('float', arg)
        if isinstance(arg, _np.ndarray) and arg.dtype == object:
            if arg.shape == ():
                el = arg[()]
                return ('float', el if isinstance(el, Sym) else float(el))
            return ('float', arg)
        return orig_dv(arg, masked_value, opstr=opstr)

    def _casted_to_dtype(arg, dtype, masked_value=0):
        if dtype == 'float' and (isinstance(arg, Sym) or
                                 (isinstance(arg, _np.ndarray) and arg.dtype == object)):
            if isinstance(arg, _np.ndarray) and arg.shape == ():
                return arg[()]
            return arg
        return orig_cast(arg, dtype, masked_value)

    Qube._dtype_and_value = staticmethod(_dtype_and_value)
    Qube._casted_to_dtype = staticmethod(_casted_to_dtype)

    proxy = NpProxy()
    for modname, mod in list(sys.modules.items()):
        if modname == 'polymath' or modname.startswith('polymath.'):
            if mod is not None and getattr(mod, 'np', None) is _np:
                mod.np = proxy
    _INSTALLED[0] = polymath
    return polymath


# ---------------------------------------------------------------------------
# one trace
# ---------------------------------------------------------------------------
class Trace(object):
    def __init__(self, name):
        self.name = name
        self.inputs = []        # (varname, concrete) in declaration order
        self.angles = []        # names of opaque angles
        self.stubs = []         # (symbol name, concrete) introduced by stubs
        self.outputs = []       # (group name, index tuple, E, concrete)
        self.path = []          # (E, op, E, outcome)
        self.hyps = []          # (kind, data)
        self.n_inv = 0
        self.masks = {}         # group -> mask observed (bool / list)

    def __enter__(self):
        if _CURRENT[0] is not None:
            raise TraceError('nested trace')
        _CURRENT[0] = self
        return self

    def __exit__(self, *exc):
        _CURRENT[0] = None
        return False

    def _fresh(self, name, value, stub=False):
        (self.stubs if stub else self.inputs).append((name, float(value)))
        return Sym(mk('var', name), value)

    # -- inputs -------------------------------------------------------------
    def scalar(self, name, value):
        return self._fresh(name, value)

    def angle(self, name, value):
        """opaque angle: cos/sin become the variables c_<name>, s_<name>"""
        self.inputs.append((name, float(value)))
        self.angles.append(name)
        return Sym(mk('angle', name), value)

    def array(self, name, values):
        """object ndarray of fresh variables <name><i>[_<j>...] shaped like values"""
        vals = _np.asarray(values, dtype=float)
        out = _np.empty(vals.shape, dtype=object)
        for idx in _np.ndindex(vals.shape):
            nm = name + '_'.join(str(i) for i in idx)
            out[idx] = self._fresh(nm, vals[idx])
        return out

    vector = array
    matrix = array

    # -- outputs ------------------------------------------------------------
    def output(self, group, values, mask=None):
        if isinstance(values, Sym) or not isinstance(values, _np.ndarray):
            vals = _np.empty((), dtype=object)
            vals[()] = values
        else:
            vals = values
        for idx in _np.ndindex(vals.shape):
            s = _lift(vals[idx])
            if s is None:
                raise TraceError('output %s%s is not numeric: %r' % (group, idx, vals[idx]))
            self.outputs.append((group, tuple(idx), s.e, s.v))
        if mask is not None:
            m = _np.asarray(mask)
            self.masks[group] = bool(m) if m.shape == () else [bool(x) for x in m.ravel()]

    # -- environment of the seed point ---------------------------------------
    def env(self):
        d = dict(self.inputs)
        d.update(dict(self.stubs))
        return d

    def sanity(self, rtol=1e-9, atol=1e-12):
        """every output expression, evaluated independently at the seed point, must
        reproduce the concrete value the real code computed along the trace"""
        env = self.env()
        memo = {}
        bad = []
        for group, idx, e, v in self.outputs:
            w = evaluate(e, env, memo)
            if not (abs(w - v) <= atol + rtol * max(abs(v), abs(w))) and not (math.isnan(w) and math.isnan(v)):
                bad.append((group, idx, v, w))
        return bad
