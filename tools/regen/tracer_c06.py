"""C06 kernels for the symbolic tracer: every differentiable kernel is traced on symbolic
operands that carry symbolic derivatives (key 't'); the emitted value f_val and the emitted
carried derivative f_der (the expression found in result.d_dt) must satisfy

    forall x in the open domain, forall dx,
        is_derive (fun h => f_val (x + h*dx)) 0 (f_der x dx)            (Coquelicot)

one small generated obligation file per kernel.    (DESIGN.md section 7, C06)

    python -m tools.regen.tracer_c06 [kernel ...]      # run from /verif; VERIF_REPO honoured

writes  coq/gen/Gen_kern_C06_<name>.v     emitted definitions  C06_<name>_v_<idx> (values),
                                          C06_<name>_d<mode>_<idx>[_<j>] (derivative, mode
                                          b = key on both operands, l = only left, r = only
                                          right, u = unary; j = denominator index),
                                          C06_<name>_path, C06_<name>_hyp
        coq/gen/obl/C06_<name>.v          the obligations (schemas below)
        _build/C06/trace_manifest.json

Extensions of tools/regen/tracer.py made HERE (wrapping, in the tracer process only; the
shared file is not edited):
  * Sym.__mod__ : x % y  becomes  x - y*k  with k = floor(x/y) at the seed point (a constant
    on the path k < x/y < k+1, which is logged as path condition);
  * Sym.arctan2 : arctan2(y, x) becomes  atan(y/x)  on the path x > 0,  PI/2 - atan(x/y)  on
    the path y > 0 (x <= 0),  -PI/2 - atan(x/y)  on the path y < 0 (x <= 0); the concrete
    value still comes from math.atan2, so Trace.sanity() validates the branch formula at
    the seed point;
  * tracer.e_pow : a non-integer exponent a gives the node pow(x, a), emitted as
    Rpower x a (x > 0 logged as path condition by polymath's own nan test or added here);
  * an emitter (term / kernel_file below) that prints those nodes, prints the path condition
    with STRICT comparisons (the open domain: a non-strict outcome is strengthened) and
    unfolds nothing else.
Trigonometric functions of angles are traced NON-opaquely (tr.scalar, not tr.angle): cos and
sin stay the real functions and auto_derive differentiates them.

A kernel is a function  f(io)  that builds operands with io.q(...) and reports results with
io.out / io.unary / io.binary.  The harness imports this module WITHOUT installing the
patches and re-runs the same kernel functions on plain floats (FloatIO) for the sanity
obligation at the seed point.
"""
import itertools
import json
import math
import os
import sys

import numpy as np

HERE = os.path.dirname(os.path.dirname(os.path.dirname(os.path.abspath(__file__))))

POOL = [0.3, -1.2, 0.7, 1.1, 0.4, -0.5, 0.9, -0.8, 1.3, 0.6, -1.7, 0.2, 1.9, -0.35, 0.85, -1.45,
        0.55, 1.25, -0.65, 0.15, 1.6, -0.95, 0.45, -1.05, 0.75, 1.35, -0.25, 1.15, -1.55, 0.05, 0.65, -1.85]


def seed_vals(k, n):
    return [POOL[(k * 7 + i) % len(POOL)] for i in range(n)]


def seed_arr(k, shape):
    n = int(np.prod(shape)) if shape else 1
    return np.array(seed_vals(k, n), dtype=float).reshape(shape)


# ---------------------------------------------------------------------------
# tracer extensions (installed by install_extensions() in the tracer process)
# ---------------------------------------------------------------------------
def install_extensions(T):
    if getattr(T, '_c06_ext', False):
        return
    T._c06_ext = True
    orig_e_pow = T.e_pow

    def e_pow(a, k):
        kk = k
        if isinstance(kk, T.Sym):
            if not T.is_const(kk.e):
                raise T.TraceError('symbolic exponent')
            kk = kk.e.args[0]
        kk = float(kk)
        if kk == int(kk) or kk in (0.5, -0.5):
            return orig_e_pow(a, k)
        if T.is_const(a):
            return T.const(a.args[0] ** kk)
        return T.mk('pow', a, kk)
    T.e_pow = e_pow

    def sym_pow(self, k):
        kk = T._lift(k)
        if kk is None:
            return NotImplemented
        try:
            v = self.v ** kk.v
            if isinstance(v, complex):
                v = float('nan')
        except ZeroDivisionError:
            v = float('inf')
        if T.is_const(kk.e) and kk.v != int(kk.v) and abs(kk.v) != 0.5 and not T.is_const(self.e):
            T._log_path(self.e, '>', T.const(0.0), self.v > 0)
        return T.Sym(T.e_pow(self.e, kk), v)
    T.Sym.__pow__ = sym_pow

    def sym_mod(self, o):
        o = T._lift(o)
        if o is None:
            return NotImplemented
        if o.v == 0:
            return T.Sym(T.const(float('nan')), float('nan'))
        k = math.floor(self.v / o.v)
        q = T.e_div(self.e, o.e)
        T._log_path(q, '>', T.const(float(k)), self.v / o.v > k)
        T._log_path(q, '<', T.const(float(k + 1)), self.v / o.v < k + 1)
        return T.Sym(T.e_sub(self.e, T.e_mul(o.e, T.const(float(k)))), self.v % o.v)
    T.Sym.__mod__ = sym_mod

    def sym_rmod(self, o):
        o = T._lift(o)
        if o is None:
            return NotImplemented
        return sym_mod(o, self)
    T.Sym.__rmod__ = sym_rmod

    def sym_arctan2(self, other):
        o = T._lift(other)
        y, x = self, o
        v = math.atan2(y.v, x.v)
        if T.is_const(y.e) and T.is_const(x.e):
            return T.Sym(T.const(v), v)
        zero = T.const(0.0)
        if x.v > 0:
            T._log_path(x.e, '>', zero, True)
            e = T.e_fn('arctan', T.e_div(y.e, x.e))
        elif y.v > 0:
            T._log_path(y.e, '>', zero, True)
            e = T.e_sub(T.const(math.pi / 2), T.e_fn('arctan', T.e_div(x.e, y.e)))
        elif y.v < 0:
            T._log_path(y.e, '<', zero, True)
            e = T.e_sub(T.const(-math.pi / 2), T.e_fn('arctan', T.e_div(x.e, y.e)))
        else:
            raise T.TraceError('arctan2 on its branch cut')
        return T.Sym(e, v)
    T.Sym.arctan2 = sym_arctan2

    def np_array(obj, dtype=None, *args, **kw):
        # np.array(list of Sym / object arrays, dtype=float) must stay symbolic
        if T._CURRENT[0] is not None and dtype in (float, np.float64, np.double):
            try:
                probe = np.array(obj, dtype=object)
            except ValueError:
                probe = None
            if probe is not None and any(isinstance(el, T.Sym) for el in probe.ravel()):
                return probe
        if dtype is None:
            return np.array(obj, *args, **kw)
        return np.array(obj, dtype, *args, **kw)
    T.NpProxy.array = staticmethod(np_array)


# ---------------------------------------------------------------------------
# emitter (extends tools/regen/emit_coq.py: real powers, strict path conditions)
# ---------------------------------------------------------------------------
STRICT = {('==', True): '=', ('==', False): '<>', ('!=', True): '<>', ('!=', False): '=',
          ('<', True): '<', ('<', False): '>', ('<=', True): '<', ('<=', False): '>',
          ('>', True): '>', ('>', False): '<', ('>=', True): '>', ('>=', False): '<'}


def term(root, used=None, share=True):
    from . import tracer as T
    from . import emit_coq as EC
    cnt = EC._refcounts(root) if share else {}
    names = {}
    lets = []

    def go(n):
        if n.uid in names:
            return names[n.uid]
        op = n.op
        if op == 'const':
            s = EC.const_term(n.args[0], used)
        elif op == 'var':
            s = n.args[0]
        elif op in ('add', 'sub', 'mul', 'div'):
            s = '(%s %s %s)' % (go(n.args[0]), {'add': '+', 'sub': '-', 'mul': '*', 'div': '/'}[op], go(n.args[1]))
        elif op == 'neg':
            s = '(- %s)' % go(n.args[0])
        elif op == 'pow':
            k = n.args[1]
            if k != int(k):
                s = '(rpow %s %s)' % (EC.const_term(k, used), go(n.args[0]))
            elif k >= 0:
                s = '(%s ^ %d)' % (go(n.args[0]), k)
            else:
                s = '(/ (%s ^ %d))' % (go(n.args[0]), -k)
        elif op == 'fn':
            s = '(%s %s)' % (EC.FN[n.args[0]], go(n.args[1]))
        else:
            raise T.TraceError('emit: no Gallina counterpart for %s %r' % (op, n.args[:1]))
        if share and cnt.get(n.uid, 0) > 1 and n.op not in ('var', 'const'):
            nm = 't%d' % (len(lets) + 1)
            lets.append((nm, s))
            names[n.uid] = nm
            return nm
        return s

    sys.setrecursionlimit(max(10000, sys.getrecursionlimit()))
    body = go(root)
    return ''.join('let %s := %s in\n    ' % (nm, s) for nm, s in lets) + body


def kernel_file(trace, kern, guards=()):
    """text of Gen_kern_<kern>.v and the info dict (params, defs, path ...).
    guards: domain conditions (Coq text over the parameters) that the implementation does not
    test (it relies on floats never hitting them exactly, or masks via isnan/isinf of the result,
    which the tracer cannot log); they are added to the path condition and reported."""
    from . import emit_coq as EC
    used = set()
    params = EC.params_of(trace)
    plist = '(%s : R)' % ' '.join(params) if params else ''
    lines = ['(* GENERATED on every run by tools/regen/tracer_c06.py from the CURRENT polymath source.',
             '   Do not edit. Kernel: %s. *)' % kern,
             'From Coq Require Import Reals.', 'From PM Require Import C06Defs.', 'Local Open Scope R_scope.', '']
    defs = []
    for group, idx, e, v in trace.outputs:
        nm = EC.def_name(kern, group, idx)
        defs.append(nm)
        lines.append('Definition %s %s : R :=\n    %s.' % (nm, plist, term(e, used)))
    conds = []
    closed = []
    for lhs, op, rhs, outcome in trace.path:
        c = '(%s %s %s)' % (term(lhs, used, share=False), STRICT[(op, outcome)], term(rhs, used, share=False))
        conds.append(c)
        if STRICT[(op, outcome)] == '=':
            closed.append(c)
    conds = list(dict.fromkeys(conds + list(guards)))
    lines.append('')
    lines.append('Definition %s_path %s : Prop :=\n    %s.' %
                 (kern, plist, ' /\\\n    '.join(conds) if conds else 'True'))
    hyps = []
    for kind, d in trace.hyps:
        if kind == 'inv':
            n = d['n']
            for i in range(n):
                for j in range(n):
                    s = ' + '.join('%s * %s' % (term(d['M'][i][k], used, share=False), d['names'][k][j])
                                   for k in range(n))
                    hyps.append('(%s = %d)' % (s, 1 if i == j else 0))
    lines.append('Definition %s_hyp %s : Prop :=\n    %s.' %
                 (kern, plist, ' /\\\n    '.join(hyps) if hyps else 'True'))
    info = {'params': params, 'defs': defs, 'irrational_constants': sorted(used),
            'path': conds, 'n_hyps': len(hyps), 'closed_conditions': closed}
    return '\n'.join(lines) + '\n', info


# ---------------------------------------------------------------------------
# the two IO classes: symbolic (wraps tracer.Trace) and plain floats
# ---------------------------------------------------------------------------
class _IO(object):
    """common part: operands with derivatives, output recording"""
    symbolic = False

    def __init__(self, name, Pm):
        self.name = name
        self.Pm = Pm
        self.operands = {}      # operand name -> {'vars': [...], 'dirs': {var: [dir var per denom index]}}
        self.order = []
        self.modes = []         # (mode letter, [operand names displaced])
        self.denom = ()
        self.structure = {}     # group -> class / numer / denom of the derivative and of the result
        self.nseed = 0

    # subclasses: _arr(name, values) -> array (object or float), names
    def q(self, cls, name, vals, denom=(), d=True, dvals=None, key='t'):
        """operand of class cls with item values vals (leading shape ()), carrying d_d<key>
        with the given denominator shape when d"""
        vals = np.asarray(vals, dtype=float)
        arr = self._arr(name, vals)
        obj = cls(arr if vals.shape else arr[()])
        rec = {'vars': self._names(name, vals.shape), 'dirs': {}, 'shape': list(vals.shape)}
        self.operands[name] = rec
        self.order.append(name)
        if d:
            self.nseed += 1
            dshape = vals.shape + tuple(denom)
            dv = np.asarray(dvals, dtype=float).reshape(dshape) if dvals is not None \
                else seed_arr(40 + 3 * len(self.order) + self.nseed, dshape)
            darr = self._arr('d' + name, dv)
            dobj = cls.__mro__[0] if False else None
            dcls = cls if not denom else self._deriv_class(cls)
            dobj = dcls(darr if dshape else darr[()], drank=len(denom))
            obj.insert_deriv(key, dobj)
            dn = self._names('d' + name, dshape)
            nd = int(np.prod(denom)) if denom else 1
            for i, v in enumerate(rec['vars']):
                rec['dirs'][v] = dn[i * nd:(i + 1) * nd]
            self.denom = tuple(denom)
        return obj

    def _deriv_class(self, cls):
        # a derivative with a denominator keeps the class of its parent when the class allows
        # denominators, else it is the generic class polymath itself would use
        return cls

    @staticmethod
    def _names(name, shape):
        return [name + '_'.join(str(i) for i in idx) for idx in np.ndindex(*shape)] if shape else [name]

    def out(self, group, q, mode=None, displaced=None):
        """record the value of q as group 'v' (once) and its d_dt as group 'd<mode>'"""
        raise NotImplementedError

    # -- convenience ------------------------------------------------------
    def unary(self, f, a):
        r = f(a)
        self.result('v', r)
        self.deriv('du', r, [n for n in self.order if self.operands[n]['dirs']])
        return r

    def binary(self, f, a, b, na, nb, modes='blr'):
        """f on (a, b) with the key on both / only left / only right"""
        r = f(a, b)
        self.result('v', r)
        if 'b' in modes:
            self.deriv('db', r, [na, nb])
        if 'l' in modes:
            self.deriv('dl', f(a, b.wod), [na])
        if 'r' in modes:
            self.deriv('dr', f(a.wod, b), [nb])
        return r

    def result(self, group, r):
        self._output(group, r.values, r.mask)
        self.structure[group] = {'cls': type(r).__name__, 'numer': list(r.numer), 'denom': list(r.denom),
                                 'keys': sorted(r.derivs.keys())}

    def deriv(self, group, r, displaced, key='t'):
        d = r.derivs[key]
        self._output(group, d.values, d.mask)
        self.modes.append((group, list(displaced)))
        self.structure[group] = {'cls': type(d).__name__, 'numer': list(d.numer), 'denom': list(d.denom),
                                 'keys': sorted(r.derivs.keys()), 'nested': sorted(d.derivs.keys())}


class SymIO(_IO):
    symbolic = True

    def __init__(self, tr, Pm):
        _IO.__init__(self, tr.name, Pm)
        self.tr = tr

    def _arr(self, name, vals):
        return self.tr.array(name, vals)

    def _output(self, group, values, mask):
        self.tr.output(group, values, mask)

    def const(self, name, value):
        """a symbolic constant operand entry (never displaced)"""
        return self.tr.scalar(name, value)


class FloatIO(_IO):
    def __init__(self, name, Pm):
        _IO.__init__(self, name, Pm)
        self.outputs = []
        self.masks = {}

    def _arr(self, name, vals):
        return np.array(vals, dtype=float)

    def _output(self, group, values, mask):
        vals = np.asarray(values, dtype=float)
        for idx in np.ndindex(vals.shape):
            self.outputs.append((group, tuple(idx), None, float(vals[idx])))
        if mask is not None:
            m = np.asarray(mask)
            self.masks[group] = bool(m) if m.shape == () else [bool(x) for x in m.ravel()]

    def const(self, name, value):
        return float(value)


# ---------------------------------------------------------------------------
# kernel table
# ---------------------------------------------------------------------------
KERNELS = []        # (name, fn, options)
SPLIT_AT = 30       # DAG size from which a kernel gets one obligation file per lemma


PARTIAL_NESTED = ('composition of unit/cross/arcsin kernels (each proved on its own); the nested normalisations make the fixed script exceed the timeout; covered by the numeric oracle and, as a composition, by C06_chain')


def kernel(name, **opt):
    def deco(fn):
        KERNELS.append((name, fn, opt))
        return fn
    return deco


def _S(io, name, v, **kw):
    return io.q(io.Pm.Scalar, name, v, **kw)


# -- scalar arithmetic -------------------------------------------------------
for _nm, _f in (('add', lambda a, b: a + b), ('sub', lambda a, b: a - b), ('mul', lambda a, b: a * b),
                ('div', lambda a, b: a / b)):
    def _k(io, f=_f):
        io.binary(f, _S(io, 'x', 0.7), _S(io, 'y', 1.3), 'x', 'y')
    kernel(_nm)(_k)

# reflected forms: number op Scalar
for _nm, _f in (('radd', lambda c, a: c + a), ('rsub', lambda c, a: c - a), ('rmul', lambda c, a: c * a),
                ('rdiv', lambda c, a: c / a)):
    def _k(io, f=_f):
        c = io.const('c', 2.5)
        io.unary(lambda a: f(c, a), _S(io, 'x', 0.7))
    kernel(_nm)(_k)


@kernel('mod')
def _mod(io):
    # numerator only: the divisor is a constant of the derivative
    y = _S(io, 'y', 1.3, d=False)
    io.unary(lambda a: a % y, _S(io, 'x', 3.1))


@kernel('mod_number')
def _modn(io):
    io.unary(lambda a: a % 1.25, _S(io, 'x', 3.1))


@kernel('neg')
def _neg(io):
    io.unary(lambda a: -a, _S(io, 'x', 0.7))


# -- scalar functions --------------------------------------------------------
for _nm, _seed in (('sin', 0.7), ('cos', 0.7), ('tan', 0.7), ('arcsin', 0.4), ('arccos', 0.4), ('arctan', 0.7),
                   ('sqrt', 0.7), ('log', 0.7), ('exp', 0.7), ('reciprocal', 0.7)):
    def _k(io, nm=_nm, seed=_seed):
        io.unary(lambda a: getattr(a, nm)(), _S(io, 'x', seed))
    kernel(_nm, guards=['(cos x <> 0)'] if _nm == 'tan' else [])(_k)

for _nm, _seed in (('abs_pos', 0.7), ('abs_neg', -0.7)):
    def _k(io, seed=_seed):
        io.unary(lambda a: a.abs(), _S(io, 'x', seed))
    kernel(_nm)(_k)

for _k_, _tag in ((2, 'pow2'), (3, 'pow3'), (4, 'pow4'), (-1, 'powm1'), (5, 'pow5'), (7, 'pow7'), (-2, 'powm2'),
                  (-3, 'powm3'), (0.5, 'powhalf'), (-0.5, 'powmhalf'), (1.5, 'pow1p5'), (-1.25, 'powm1p25'),
                  (2.75, 'pow2p75'), (0, 'pow0'), (1, 'pow1')):
    def _k(io, k=_k_):
        io.unary(lambda a: a ** k, _S(io, 'x', 0.7))
    kernel(_tag, guards=['(x <> 0)'] if (_k_ < -1 and _k_ == int(_k_)) else [])(_k)

for _nm, _sy, _sx in (('arctan2_xpos', 0.7, 1.3), ('arctan2_ypos', 0.7, -1.3), ('arctan2_yneg', -0.7, -1.3)):
    def _k(io, sy=_sy, sx=_sx):
        io.binary(lambda a, b: a.arctan2(b), _S(io, 'y', sy), _S(io, 'x', sx), 'y', 'x')
    kernel(_nm)(_k)


# -- vectors ----------------------------------------------------------------
def _V(io, name, n, k, **kw):
    cls = {2: io.Pm.Pair, 3: io.Pm.Vector3}.get(n, io.Pm.Vector)
    return io.q(cls, name, seed_vals(k, n), **kw)


for _n in (2, 3, 4):
    def _dot(io, n=_n):
        io.binary(lambda a, b: a.dot(b), _V(io, 'a', n, 1), _V(io, 'b', n, 2), 'a', 'b')
    kernel('dot%d' % _n)(_dot)

    def _norm(io, n=_n):
        io.unary(lambda a: a.norm(), _V(io, 'a', n, 3))
    kernel('norm%d' % _n)(_norm)

    def _nsq(io, n=_n):
        io.unary(lambda a: a.norm_sq(), _V(io, 'a', n, 3))
    kernel('normsq%d' % _n)(_nsq)

    def _unit(io, n=_n):
        io.unary(lambda a: a.unit(), _V(io, 'a', n, 6))
    kernel('unit%d' % _n)(_unit)

    def _emul(io, n=_n):
        io.binary(lambda a, b: a.element_mul(b), _V(io, 'a', n, 4), _V(io, 'b', n, 5), 'a', 'b')
    kernel('emul%d' % _n)(_emul)

    def _ediv(io, n=_n):
        io.binary(lambda a, b: a.element_div(b), _V(io, 'a', n, 4), _V(io, 'b', n, 5), 'a', 'b')
    kernel('ediv%d' % _n)(_ediv)

    def _perp(io, n=_n):
        io.binary(lambda a, b: a.perp(b), _V(io, 'v', n, 7), _V(io, 'a', n, 8), 'v', 'a')
    if _n < 4:
        kernel('perp%d' % _n)(_perp)

    def _proj(io, n=_n):
        io.binary(lambda a, b: a.proj(b), _V(io, 'v', n, 7), _V(io, 'a', n, 8), 'v', 'a')
    if _n < 4:
        kernel('proj%d' % _n)(_proj)

    def _wn(io, n=_n):
        io.binary(lambda a, s: a.with_norm(s), _V(io, 'a', n, 6), _S(io, 's', 1.7), 'a', 's')
    if _n < 4:
        kernel('withnorm%d' % _n)(_wn)

    def _vs(io, n=_n):
        io.binary(lambda a, s: a * s, _V(io, 'a', n, 6), _S(io, 's', 1.7), 'a', 's')
    kernel('vecscale%d' % _n)(_vs)

    def _vd(io, n=_n):
        io.binary(lambda a, s: a / s, _V(io, 'a', n, 6), _S(io, 's', 1.7), 'a', 's')
    kernel('vecdiv%d' % _n)(_vd)

    def _vadd(io, n=_n):
        io.binary(lambda a, b: a + b, _V(io, 'a', n, 6), _V(io, 'b', n, 9), 'a', 'b')
    kernel('vecadd%d' % _n)(_vadd)


@kernel('cross3')
def _cross3(io):
    io.binary(lambda a, b: a.cross(b), _V(io, 'a', 3, 9), _V(io, 'b', 3, 10), 'a', 'b')


@kernel('cross2')
def _cross2(io):
    io.binary(lambda a, b: a.cross(b), _V(io, 'a', 2, 11), _V(io, 'b', 2, 12), 'a', 'b')


@kernel('ucross3')
def _ucross3(io):
    io.binary(lambda a, b: a.ucross(b), _V(io, 'a', 3, 9), _V(io, 'b', 3, 10), 'a', 'b')


for _n, _m in ((2, 2), (3, 3), (3, 2)):
    def _outer(io, n=_n, m=_m):
        a = io.q(io.Pm.Vector, 'a', seed_vals(13, n))
        b = io.q(io.Pm.Vector, 'b', seed_vals(14, m))
        io.binary(lambda x, y: x.outer(y), a, b, 'a', 'b')
    kernel('outer%dx%d' % (_n, _m))(_outer)


@kernel('sep3', partial=PARTIAL_NESTED)
def _sep3(io):
    io.binary(lambda a, b: a.sep(b), _V(io, 'a', 3, 9), _V(io, 'b', 3, 10), 'a', 'b')


# -- matrices ---------------------------------------------------------------
def _M(io, name, n, m, k, cls=None, **kw):
    return io.q(cls or io.Pm.Matrix, name, np.reshape(seed_vals(k, n * m), (n, m)), **kw)


for _n, _k_, _m in ((2, 2, 2), (3, 3, 3), (2, 3, 2)):
    def _mm(io, n=_n, k=_k_, m=_m):
        io.binary(lambda a, b: a * b, _M(io, 'a', n, k, 15), _M(io, 'b', k, m, 16), 'a', 'b')
    kernel('matmul%d%d%d' % (_n, _k_, _m))(_mm)

for _n, _k_ in ((3, 3), (2, 3), (2, 2)):
    def _mv(io, n=_n, k=_k_):
        io.binary(lambda a, v: a * v, _M(io, 'a', n, k, 17), io.q(io.Pm.Vector, 'v', seed_vals(18, k)), 'a', 'v')
    kernel('matvec%d%d' % (_n, _k_))(_mv)

for _n, _m in ((2, 2), (2, 3), (3, 3)):
    def _tr(io, n=_n, m=_m):
        io.unary(lambda a: a.transpose(), _M(io, 'a', n, m, 19))
    kernel('transpose%dx%d' % (_n, _m))(_tr)


@kernel('matscale22')
def _ms(io):
    io.binary(lambda a, s: a * s, _M(io, 'a', 2, 2, 15), _S(io, 's', 1.7), 'a', 's')


for _n in (2, 3):
    def _inv(io, n=_n):
        vals = {2: [[1.0, 2.0], [0.5, -1.5]], 3: [[1.0, 2.0, 0.5], [-0.5, 1.5, 0.25], [0.75, -1.0, 2.0]]}[n]
        io.unary(lambda a: a.inverse(), io.q(io.Pm.Matrix, 'm', vals))
    kernel('inverse%d' % _n, schema='inverse', n=_n)(_inv)


# -- rotations ----------------------------------------------------------------
for _ax in range(3):
    def _rot(io, ax=_ax):
        io.unary(lambda t: getattr(io.Pm.Matrix3, 'xyz'[ax] + '_rotation')(t), _S(io, 't', 0.7))
    kernel('xyz'[_ax] + 'rot')(_rot)

    def _arot(io, ax=_ax):
        io.unary(lambda t: io.Pm.Matrix3.axis_rotation(t, ax), _S(io, 't', 0.7))
    kernel('axisrot%d' % _ax)(_arot)


@kernel('rotate3')
def _rotate(io):
    m = io.q(io.Pm.Matrix3, 'm', [[0.36, 0.48, -0.8], [-0.8, 0.6, 0.0], [0.48, 0.64, 0.6]])
    io.binary(lambda a, v: a.rotate(v), m, _V(io, 'v', 3, 22), 'm', 'v')


@kernel('unrotate3')
def _unrotate(io):
    m = io.q(io.Pm.Matrix3, 'm', [[0.36, 0.48, -0.8], [-0.8, 0.6, 0.0], [0.48, 0.64, 0.6]])
    io.binary(lambda a, v: a.unrotate(v), m, _V(io, 'v', 3, 22), 'm', 'v')


for _a1, _a2 in ((0, 1), (1, 2)):
    def _tv(io, a1=_a1, a2=_a2):
        io.binary(lambda a, b: io.Pm.Matrix3.twovec(a, a1, b, a2), _V(io, 'a', 3, 20), _V(io, 'b', 3, 21), 'a', 'b')
    kernel('twovec%d%d' % (_a1, _a2), partial=PARTIAL_NESTED)(_tv)


# -- quaternions --------------------------------------------------------------
def _Q(io, name, vals, **kw):
    return io.q(io.Pm.Quaternion, name, vals, **kw)


@kernel('qmul')
def _qmul(io):
    io.binary(lambda p, q: p * q, _Q(io, 'p', [0.5, -0.3, 0.7, 0.4]), _Q(io, 'q', [-0.2, 0.9, 0.1, 0.6]), 'p', 'q')


@kernel('qconj')
def _qconj(io):
    io.unary(lambda p: p.conj(), _Q(io, 'p', [0.5, -0.3, 0.7, 0.4]))


@kernel('qrecip')
def _qrecip(io):
    io.unary(lambda p: p.reciprocal(), _Q(io, 'p', [0.5, -0.3, 0.7, 0.4]))


@kernel('q2m')
def _q2m(io):
    io.unary(lambda p: p.to_matrix3(), _Q(io, 'p', [0.5, -0.3, 0.7, 0.4]))


@kernel('qfromparts')
def _qfp(io):
    io.binary(lambda s, v: io.Pm.Quaternion.from_parts(s, v), _S(io, 's', 0.5), _V(io, 'v', 3, 23), 's', 'v')


@kernel('qtoparts')
def _qtp(io):
    p = _Q(io, 'p', [0.5, -0.3, 0.7, 0.4])
    s, v = p.to_parts()
    io.result('v', s)
    io.deriv('du', s, ['p'])
    io.result('w', v)
    io.deriv('dw', v, ['p'])


# -- reductions, relabelings ------------------------------------------------------
def _arrS(io, name, n, k, **kw):
    """a Scalar with leading shape (n,): the kernel's variables are its elements"""
    vals = np.array(seed_vals(k, n), dtype=float)
    arr = io._arr(name, vals)
    obj = io.Pm.Scalar(arr)
    rec = {'vars': io._names(name, (n,)), 'dirs': {}, 'shape': [n]}
    io.operands[name] = rec
    io.order.append(name)
    denom = tuple(kw.get('denom', ()))
    dshape = (n,) + denom
    dv = seed_arr(50 + k, dshape)
    darr = io._arr('d' + name, dv)
    obj.insert_deriv('t', io.Pm.Scalar(darr, drank=len(denom)))
    dn = io._names('d' + name, dshape)
    nd = int(np.prod(denom)) if denom else 1
    for i, v in enumerate(rec['vars']):
        rec['dirs'][v] = dn[i * nd:(i + 1) * nd]
    io.denom = denom
    return obj


@kernel('sum3')
def _sum3(io):
    io.unary(lambda a: a.sum(), _arrS(io, 'x', 3, 24))


@kernel('mean3')
def _mean3(io):
    io.unary(lambda a: a.mean(), _arrS(io, 'x', 3, 24))


@kernel('sum3_axis0')
def _sum3a(io):
    io.unary(lambda a: a.sum(axis=0), _arrS(io, 'x', 3, 24))


@kernel('index3')
def _index3(io):
    io.unary(lambda a: a[::-1], _arrS(io, 'x', 3, 24))


@kernel('reshape4')
def _reshape4(io):
    io.unary(lambda a: a.reshape((2, 2)).swap_axes(0, 1), _arrS(io, 'x', 4, 25))


@kernel('from_scalars3')
def _fs3(io):
    x, y, z = _S(io, 'x', 0.7), _S(io, 'y', -1.2), _S(io, 'z', 0.4)
    r = io.Pm.Vector3.from_scalars(x, y, z)
    io.result('v', r)
    io.deriv('db', r, ['x', 'y', 'z'])
    r2 = io.Pm.Vector3.from_scalars(x, y.wod, z.wod)
    io.deriv('dl', r2, ['x'])


@kernel('to_scalars3')
def _ts3(io):
    a = _V(io, 'a', 3, 26)
    parts = a.to_scalars()
    for i, p in enumerate(parts):
        io.result('v%d' % i, p)
        io.deriv('d%d' % i, p, ['a'])


@kernel('matrix_from_scalars22')
def _mfs(io):
    ss = [_S(io, n, v) for n, v in (('p', 0.7), ('q', -1.2), ('r', 0.4), ('s', 1.1))]
    r = io.Pm.Matrix.from_scalars(*ss, shape=(2, 2))
    io.result('v', r)
    io.deriv('db', r, ['p', 'q', 'r', 's'])


# -- compositions (traced as one kernel: the chain rule through two nodes) ---------
@kernel('comp_x_cosx')
def _c1(io):
    io.unary(lambda x: x * x.cos(), _S(io, 'x', 0.7))


@kernel('comp_sqrt_normsq')
def _c2(io):
    io.unary(lambda a: (a.norm_sq() + 1.0).sqrt(), _V(io, 'a', 3, 27))


@kernel('comp_exp_div')
def _c3(io):
    io.binary(lambda x, y: (x / y).exp() * y.sin(), _S(io, 'x', 0.7), _S(io, 'y', 1.3), 'x', 'y')


# -- denominators ------------------------------------------------------------------
for _nm, _f, _kind in (('mul', lambda a, b: a * b, 'S'), ('div', lambda a, b: a / b, 'S'),
                       ('add', lambda a, b: a + b, 'S')):
    for _k_ in (2, 3):
        def _kd(io, f=_f, k=_k_):
            io.binary(f, _S(io, 'x', 0.7, denom=(k,)), _S(io, 'y', 1.3, denom=(k,)), 'x', 'y')
        kernel('%s_den%d' % (_nm, _k_))(_kd)

for _nm in ('sin', 'sqrt', 'exp'):
    def _kd(io, nm=_nm):
        io.unary(lambda a: getattr(a, nm)(), _S(io, 'x', 0.7, denom=(2,)))
    kernel('%s_den2' % _nm)(_kd)


@kernel('dot3_den2')
def _dotd(io):
    io.binary(lambda a, b: a.dot(b), _V(io, 'a', 3, 1, denom=(2,)), _V(io, 'b', 3, 2, denom=(2,)), 'a', 'b')


@kernel('cross3_den2')
def _crossd(io):
    io.binary(lambda a, b: a.cross(b), _V(io, 'a', 3, 9, denom=(2,)), _V(io, 'b', 3, 10, denom=(2,)), 'a', 'b')


@kernel('norm3_den3')
def _normd(io):
    io.unary(lambda a: a.norm(), _V(io, 'a', 3, 3, denom=(3,)))


@kernel('matvec33_den2')
def _mvd(io):
    io.binary(lambda a, v: a * v, _M(io, 'a', 3, 3, 17, denom=(2,)),
              io.q(io.Pm.Vector, 'v', seed_vals(18, 3), denom=(2,)), 'a', 'v')


@kernel('xrot_den2')
def _xrd(io):
    io.unary(lambda t: io.Pm.Matrix3.x_rotation(t), _S(io, 't', 0.7, denom=(2,)))


# ---------------------------------------------------------------------------
# obligations
# ---------------------------------------------------------------------------
OBL_HEADER = '''(* GENERATED on every run by tools/regen/tracer_c06.py. Do not edit.
   Obligations of traced kernel %s: the carried derivative emitted from the current source is the
   derivative of the emitted value along every direction (fixed tactic c06_derive, C06Lemmas.v). *)
From Coq Require Import Reals Lra.
From Coquelicot Require Import Coquelicot.
From PM Require Import C06Lemmas.
From PMGen Require Import Gen_kern_C06_%s.
Local Open Scope R_scope.
'''


def obligations(name, info, io, opt, outputs, masks):
    """[(lemma name, statement, proof)] for one kernel"""
    kern = 'C06_' + name
    params = info['params']
    P = ' '.join(params)
    lemmas = []
    dirs = {}
    for on in io.order:
        dirs.update({v: (on, d) for v, d in io.operands[on]['dirs'].items()})
    nd = int(np.prod(io.denom)) if io.denom else 1
    unfold = 'unfold %s, %s_path, %s_hyp in *' % (', '.join(info['defs']), kern, kern)
    by_group = {}
    for g, idx, e, v in outputs:
        by_group.setdefault(g, []).append(tuple(idx))

    def app(defname, args):
        assert defname in info['defs'], defname
        return '(%s %s)' % (defname, ' '.join(args)) if args else defname

    def dname(group, idx):
        return '%s_%s%s' % (kern, group, ''.join('_%d' % i for i in idx))

    if opt.get('schema') == 'inverse':
        return inverse_obligations(name, info, io, opt, outputs)
    # which value group belongs to which derivative group
    vgroup = {}
    for g, _ in io.modes:
        if g in ('db', 'dl', 'dr', 'du'):
            vgroup[g] = 'v'
        elif g == 'dw':
            vgroup[g] = 'w'
        else:
            vgroup[g] = 'v' + g[1:]
    for g, displaced in io.modes:
        vg = vgroup[g]
        if masked(masks.get(vg)) or masked(masks.get(g)):
            continue
        for vidx in by_group[vg]:
            for j in range(nd):
                didx = vidx + tuple(np.unravel_index(j, io.denom)) if io.denom else vidx
                args = []
                for p in params:
                    if p in dirs and dirs[p][0] in displaced:
                        args.append('(%s + h * %s)' % (p, dirs[p][1][j]))
                    else:
                        args.append(p)
                stmt = 'forall %s : R, %s_path %s ->\n  is_derive (fun h : R => %s) 0 %s' % (
                    P, kern, P, app(dname(vg, vidx), args), app(dname(g, didx), params))
                lemmas.append(('%s_%s%s_is_derive' % (kern, g, ''.join('_%d' % i for i in didx)), stmt,
                               'Proof. intros %s Hpath. %s. c06_derive. Qed.' % (P, unfold)))
    # an operand that lacks the key is a constant: the one-sided derivative is the two-sided
    # formula with the other operand's derivative set to 0
    groups = dict(io.modes)
    if 'db' in groups:
        for g in ('dl', 'dr'):
            if g not in groups or masked(masks.get(g)) or masked(masks.get('db')):
                continue
            zero = [p for p in params if p in {d for v, (on, ds) in dirs.items() if on not in groups[g] for d in ds}]
            eqs = []
            for didx in by_group[g]:
                args = ['0' if p in zero else p for p in params]
                eqs.append('%s = %s' % (app(dname(g, didx), params), app(dname('db', didx), args)))
            stmt = 'forall %s : R, %s_path %s ->\n  %s' % (P, kern, P, ' /\\\n  '.join(eqs))
            lemmas.append(('%s_%s_missing_key_is_constant' % (kern, g), stmt,
                           'Proof. intros %s Hpath. %s. c06_const. Qed.' % (P, unfold)))
    return lemmas


def masked(m):
    if m is None:
        return False
    return m is True or (isinstance(m, list) and any(m))


def inverse_obligations(name, info, io, opt, outputs):
    """Matrix.inverse with the LAPACK stub N = Inv(M), hypothesis M.N = I.  The traced derivative
    must be -N.dM.N; stated over the stub symbols as the algebraic identity
        M.N = I  ->  N.M = I  ->  forall dN, (dM.N + M.dN = 0  ->  dN = traced derivative)
    i.e. the traced derivative is the unique solution of the differentiated hypothesis
    d(M.N) = 0 (C06Lemmas.inverse_derivative_unique proves the n x n statement abstractly)."""
    kern = 'C06_' + name
    n = opt['n']
    params = info['params']
    P = ' '.join(params)
    unfold = 'unfold %s, %s_path, %s_hyp in *' % (', '.join(info['defs']), kern, kern)
    M = [['m%d_%d' % (i, j) for j in range(n)] for i in range(n)]
    dM = [['dm%d_%d' % (i, j) for j in range(n)] for i in range(n)]
    N = [['Inv1_%d_%d' % (i, j) for j in range(n)] for i in range(n)]
    X = [['X%d_%d' % (i, j) for j in range(n)] for i in range(n)]
    left_inv = ' /\\ '.join('(%s = %d)' % (' + '.join('%s * %s' % (N[i][k], M[k][j]) for k in range(n)),
                                             1 if i == j else 0) for i in range(n) for j in range(n))
    dhyp = ' /\\ '.join('(%s = 0)' % ' + '.join(['%s * %s' % (dM[i][k], N[k][j]) for k in range(n)] +
                                                 ['%s * %s' % (M[i][k], X[k][j]) for k in range(n)])
                        for i in range(n) for j in range(n))
    Xs = ' '.join(x for row in X for x in row)
    vals = ' /\\ '.join('(%s_v_%d_%d %s) = %s' % (kern, i, j, P, N[i][j]) for i in range(n) for j in range(n))
    out = [('%s_value_is_stub' % kern, 'forall %s : R, %s' % (P, vals),
            'Proof. intros. %s. repeat split; reflexivity. Qed.' % unfold)]
    for i in range(n):
        for j in range(n):
            stmt = ('forall %s : R, %s_hyp %s -> %s ->\n  forall %s : R, %s ->\n  %s = (%s_du_%d_%d %s)'
                    % (P, kern, P, left_inv, Xs, dhyp, X[i][j], kern, i, j, P))
            out.append(('%s_du_%d_%d_solves_differentiated_hypothesis' % (kern, i, j), stmt,
                        'Proof. intros %s Hhyp Hleft %s Hd. %s. c06_inverse. Qed.' % (P, Xs, unfold)))
    return out


# ---------------------------------------------------------------------------
# driver
# ---------------------------------------------------------------------------
def run_float(name, fn, Pm):
    io = FloatIO(name, Pm)
    fn(io)
    return io


def main(argv):
    from . import tracer as T
    verif = HERE
    gen = os.environ.get('VERIF_GEN') or os.path.join(verif, 'coq', 'gen')
    obl = os.path.join(gen, 'obl')
    build = os.path.join(os.environ.get('VERIF_BUILD') or os.path.join(verif, '_build'), 'C06')
    for d in (gen, obl, build):
        os.makedirs(d, exist_ok=True)
    only = set(argv[1:])
    Pm = T.install()
    install_extensions(T)
    manifest = {'kernels': [], 'errors': []}
    for name, fn, opt in KERNELS:
        if only and name not in only:
            continue
        entry = {'name': name}
        try:
            with T.Trace('C06_' + name) as tr:
                io = SymIO(tr, Pm)
                fn(io)
            bad = tr.sanity()
            text, info = kernel_file(tr, 'C06_' + name, opt.get('guards', ()))
            lemmas = obligations(name, info, io, opt, tr.outputs, tr.masks)
            with open(os.path.join(gen, 'Gen_kern_C06_%s.v' % name), 'w') as f:
                f.write(text)
            dag = max(T.node_size(e) for _, _, e, _ in tr.outputs)
            partial = opt.get('partial')
            skipped = []
            if partial:
                # the fixed script does not close these within the timeout: listed, not claimed
                skipped = [l[0] for l in lemmas if l[0].endswith('_is_derive')]
                lemmas = [l for l in lemmas if not l[0].endswith('_is_derive')]
            # heavy kernels: one obligation file per lemma so that they compile in parallel
            chunks = [[l] for l in lemmas] if dag >= SPLIT_AT else [lemmas]
            files = []
            for ci, chunk in enumerate(chunks):
                if not chunk:
                    continue
                fname = 'C06_%s.v' % name if len(chunks) == 1 else 'C06_%s__%02d.v' % (name, ci)
                tag = fname[:-2]
                with open(os.path.join(obl, fname), 'w') as f:
                    f.write(OBL_HEADER % (name, name))
                    for lname, stmt, proof in chunk:
                        f.write('\nLemma %s :\n  %s.\n%s\n' % (lname, stmt, proof))
                    f.write('\nDefinition %s_all := (%s).\n' % (tag, ', '.join(['I'] + [l[0] for l in chunk])))
                    f.write('Print Assumptions %s_all.\n' % tag)
                files.append([fname, [l[0] for l in chunk]])
            env = tr.env()
            memo = {}
            entry.update({
                'params': info['params'], 'defs': info['defs'],
                'inputs': tr.inputs, 'stubs': tr.stubs,
                'outputs': [[g, list(idx), T.evaluate(e, env, memo), v] for g, idx, e, v in tr.outputs],
                'masks': tr.masks, 'path': info['path'], 'n_hyps': info['n_hyps'],
                'closed_conditions': info['closed_conditions'], 'guards': list(opt.get('guards', ())),
                'irrational_constants': info['irrational_constants'],
                'sanity_bad': [[g, list(i), v, w] for g, i, v, w in bad],
                'lemmas': [l[0] for l in lemmas], 'files': files, 'partial': partial, 'skipped_lemmas': skipped,
                'modes': io.modes, 'denom': list(io.denom), 'structure': io.structure,
                'dag_nodes': dag,
            })
        except Exception as e:       # fail closed: the harness reports a broken tie
            import traceback
            entry['error'] = '%s: %s' % (type(e).__name__, e)
            entry['traceback'] = traceback.format_exc()[-1800:]
            manifest['errors'].append(name)
            T._CURRENT[0] = None
        manifest['kernels'].append(entry)
    with open(os.path.join(build, 'trace_manifest.json'), 'w') as f:
        json.dump(manifest, f, indent=0)
    print('traced %d kernels, %d errors' % (len(manifest['kernels']), len(manifest['errors'])))
    return 0


if __name__ == '__main__':
    sys.exit(main(sys.argv))
