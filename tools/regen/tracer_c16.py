"""C16 kernels for the symbolic tracer: what is traced, and which obligation each traced
kernel must meet.   (DESIGN.md section 7, C16)

    python -m tools.regen.tracer_c16 [outdir]      # run from /verif; VERIF_REPO honoured

traces every kernel in KERNELS from the CURRENT source, writes
    coq/gen/Gen_kern_<name>.v          the emitted definitions (+ path condition, stub hyps)
    coq/gen/obl/C16_<name>.v           the obligations of that kernel (hand-written schemas
                                       instantiated on the emitted definitions)
    _build/C16/trace_manifest.json     per kernel: params, seed inputs, outputs evaluated
                                       from the expression trees at the seed, masks, lemmas
Only this process is patched (tracer.install()).  The harness imports this module too,
WITHOUT installing the patches, to re-run the same kernel functions on plain floats
(FloatIO) for the sanity obligation and the seed-point comparison.

A kernel is a function  f(io, Pm)  that creates its inputs through io.vector / io.matrix /
io.scalar / io.angle and reports results through io.output(group, values, mask).
"""
import itertools
import json
import os
import sys

import numpy as np

HERE = os.path.dirname(os.path.dirname(os.path.dirname(os.path.abspath(__file__))))

POOL = [0.3, -1.2, 0.7, 1.1, 0.4, -0.5, 0.9, -0.8, 1.3, 0.6, -1.7, 0.2, 1.9, -0.35, 0.85, -1.45,
        0.55, 1.25, -0.65, 0.15, 1.6, -0.95, 0.45, -1.05, 0.75, 1.35, -0.25, 1.15, -1.55, 0.05, 0.65, -1.85]


def seed_vals(k, n):
    return [POOL[(k * 7 + i) % len(POOL)] for i in range(n)]


class FloatIO(object):
    """same interface as tracer.Trace, plain floats: the implementation's own numbers"""

    def __init__(self, name):
        self.name = name
        self.outputs = []
        self.masks = {}

    def scalar(self, name, value):
        return float(value)

    angle = scalar

    def array(self, name, values):
        return np.asarray(values, dtype=float)

    vector = matrix = array

    def output(self, group, values, mask=None):
        vals = np.asarray(values, dtype=float)
        for idx in np.ndindex(vals.shape):
            self.outputs.append((group, tuple(idx), None, float(vals[idx])))
        if mask is not None:
            m = np.asarray(mask)
            self.masks[group] = bool(m) if m.shape == () else [bool(x) for x in m.ravel()]


# ---------------------------------------------------------------------------
# helpers for writing obligations
# ---------------------------------------------------------------------------
def names(prefix, *dims):
    return [prefix + '_'.join(str(i) for i in idx) for idx in itertools.product(*[range(d) for d in dims])]


def clist(items):
    """Coq list; singletons as (x :: nil): with Nsatz loaded `[x]` is taken for another notation"""
    items = list(items)
    if len(items) == 1:
        return '(%s :: nil)' % items[0]
    return '[%s]' % '; '.join(items)


def vec_of(prefix, n):
    return '(vec_of %s)' % clist(names(prefix, n))


def mat_of(prefix, n, m):
    rows = [clist('%s%d_%d' % (prefix, i, j) for j in range(m)) for i in range(n)]
    return '(mat_of %s)' % clist(rows)


class Obl(object):
    """collects the lemmas of one kernel"""

    def __init__(self, kern, info):
        self.kern = kern
        self.info = info
        self.P = ' '.join(info['params'])
        self.lemmas = []        # (name, statement, proof)

    def d(self, group, *idx):
        """application of an emitted definition to the common parameters"""
        nm = '%s_%s%s' % (self.kern, group, ''.join('_%d' % i for i in idx))
        assert nm in self.info['defs'], nm
        return '(%s %s)' % (nm, self.P) if self.P else nm

    def dvec(self, group, n):
        return '(vec_of %s)' % clist(self.d(group, i) for i in range(n))

    def dmat(self, group, n, m):
        return '(mat_of %s)' % clist(clist(self.d(group, i, j) for j in range(m)) for i in range(n))

    def path(self):
        return '(%s_path %s)' % (self.kern, self.P) if self.P else '%s_path' % self.kern

    def hyp(self):
        return '(%s_hyp %s)' % (self.kern, self.P) if self.P else '%s_hyp' % self.kern

    def add(self, name, hyps, concl, tactic):
        """Lemma C16_<kern>_<name> : forall params, hyps -> concl."""
        stmt = ''
        if self.P:
            stmt += 'forall %s : R, ' % self.P
        for h in hyps:
            stmt += '%s -> ' % h
        stmt += concl
        unfold = 'unfold %s, %s_path, %s_hyp in *' % (', '.join(self.info['defs']), self.kern, self.kern)
        proof = 'Proof. intros. %s. %s Qed.' % (unfold, tactic)
        self.lemmas.append(('C16_%s_%s' % (self.kern, name), stmt, proof))

    def trig_hyps(self):
        """c^2 + s^2 = 1 for every opaque trig pair among the parameters"""
        return ['(%s * %s + %s * %s = 1)' % (p, p, 's' + p[1:], 's' + p[1:])
                for p in self.info['params'] if p.startswith('c_')]

    def conj(self, items):
        return ' /\\ '.join(items)


RING = 'c16_ring.'
FIELD = 'c16_field.'
ROT = 'c16_rot.'
ALG = 'c16_alg.'

KERNELS = []


def kernel(name, oblig):
    def deco(fn):
        KERNELS.append((name, fn, oblig))
        return fn
    return deco


def _mk(cls, arr):
    return cls(arr)


# ---------------------------------------------------------------------------
# products: dot, norm, cross, outer, element-wise, matrix products, transpose
# ---------------------------------------------------------------------------
def _vec_class(Pm, n):
    return {2: Pm.Pair, 3: Pm.Vector3}.get(n, Pm.Vector)


for _n in (1, 2, 3, 4):
    def _dot(io, Pm, n=_n):
        a = Pm.Vector(io.vector('a', seed_vals(1, n)))
        b = Pm.Vector(io.vector('b', seed_vals(2, n)))
        r = a.dot(b)
        io.output('r', r.values, r.mask)

    def _dot_obl(o, n=_n):
        o.add('ref', [], '%s = dot %d %s %s' % (o.d('r'), n, vec_of('a', n), vec_of('b', n)), RING)
    kernel('dot%d' % _n, _dot_obl)(_dot)

    def _nsq(io, Pm, n=_n):
        a = Pm.Vector(io.vector('a', seed_vals(3, n)))
        r = a.norm_sq()
        io.output('r', r.values, r.mask)
        r2 = a.norm()
        io.output('n', r2.values, r2.mask)

    def _nsq_obl(o, n=_n):
        o.add('normsq_ref', [], '%s = norm_sq %d %s' % (o.d('r'), n, vec_of('a', n)), RING)
        o.add('norm_ref', [], '%s = norm %d %s' % (o.d('n'), n, vec_of('a', n)), 'c16_sqrt_eq.')
        o.add('norm_sq_of_norm', [], '%s * %s = %s' % (o.d('n'), o.d('n'), o.d('r')), ALG)
    kernel('norm%d' % _n, _nsq_obl)(_nsq)

    def _emul(io, Pm, n=_n):
        a = Pm.Vector(io.vector('a', seed_vals(4, n)))
        b = Pm.Vector(io.vector('b', seed_vals(5, n)))
        r = a.element_mul(b)
        io.output('m', r.values, r.mask)
        q = a.element_div(b)
        io.output('d', q.values, q.mask)

    def _emul_obl(o, n=_n):
        o.add('mul_ref', [], o.conj('%s = emul %s %s %d%%nat' % (o.d('m', i), vec_of('a', n), vec_of('b', n), i)
                                    for i in range(n)), RING)
        o.add('div_ref', [o.path()],
              o.conj('%s = ediv %s %s %d%%nat' % (o.d('d', i), vec_of('a', n), vec_of('b', n), i)
                     for i in range(n)), FIELD)
    kernel('elem%d' % _n, _emul_obl)(_emul)

    def _unit(io, Pm, n=_n):
        a = Pm.Vector(io.vector('a', seed_vals(6, n)))
        r = a.unit()
        io.output('u', r.values, r.mask)

    def _unit_obl(o, n=_n):
        o.add('ref', [o.path()], o.conj('%s = unitv %d %s %d%%nat' % (o.d('u', i), n, vec_of('a', n), i)
                                        for i in range(n)), 'c16_sqrt_unify; c16_field.')
        o.add('norm1', [o.path()], 'norm_sq %d %s = 1' % (n, o.dvec('u', n)), ALG)
    kernel('unit%d' % _n, _unit_obl)(_unit)

for _n in (2, 3, 4):
    def _pp(io, Pm, n=_n):
        cls = _vec_class(Pm, n)
        v = cls(io.vector('v', seed_vals(7, n)))
        a = cls(io.vector('a', seed_vals(8, n)))
        p = v.perp(a)
        q = v.proj(a)
        io.output('perp', p.values, p.mask)
        io.output('proj', q.values, q.mask)

    def _pp_obl(o, n=_n):
        V, A = vec_of('v', n), vec_of('a', n)
        o.add('ref', [o.path()],
              o.conj(['%s = perp %d %s %s %d%%nat' % (o.d('perp', i), n, V, A, i) for i in range(n)] +
                     ['%s = proj %d %s %s %d%%nat' % (o.d('proj', i), n, V, A, i) for i in range(n)]),
              'c16_sqrt_unify; c16_field.')
        o.add('sum', [o.path()], o.conj('%s + %s = v%d' % (o.d('perp', i), o.d('proj', i), i)
                                        for i in range(n)), ALG)
        o.add('orth', [o.path()], 'dot %d %s %s = 0' % (n, o.dvec('perp', n), A), ALG)
    kernel('perpproj%d' % _n, _pp_obl)(_pp)


def _cross3(io, Pm):
    a = Pm.Vector3(io.vector('a', seed_vals(9, 3)))
    b = Pm.Vector3(io.vector('b', seed_vals(10, 3)))
    r = a.cross(b)
    io.output('r', r.values, r.mask)
    m = a.cross_product_as_matrix() * b
    io.output('m', m.values, m.mask)


def _cross3_obl(o):
    A, B = vec_of('a', 3), vec_of('b', 3)
    o.add('ref', [], o.conj('%s = cross3 %s %s %d%%nat' % (o.d('r', i), A, B, i) for i in range(3)), RING)
    o.add('orth_a', [], 'dot 3 %s %s = 0' % (o.dvec('r', 3), A), RING)
    o.add('orth_b', [], 'dot 3 %s %s = 0' % (o.dvec('r', 3), B), RING)
    o.add('as_matrix', [], o.conj('%s = %s' % (o.d('m', i), o.d('r', i)) for i in range(3)), RING)


kernel('cross3', _cross3_obl)(_cross3)


def _cross2(io, Pm):
    a = Pm.Pair(io.vector('a', seed_vals(11, 2)))
    b = Pm.Pair(io.vector('b', seed_vals(12, 2)))
    r = a.cross(b)
    io.output('r', r.values, r.mask)


kernel('cross2', lambda o: o.add('ref', [], '%s = cross2 %s %s' % (o.d('r'), vec_of('a', 2), vec_of('b', 2)),
                                 RING))(_cross2)

for _n, _m in ((2, 2), (3, 3), (3, 2), (1, 4), (4, 1), (4, 4)):
    def _outer(io, Pm, n=_n, m=_m):
        a = Pm.Vector(io.vector('a', seed_vals(13, n)))
        b = Pm.Vector(io.vector('b', seed_vals(14, m)))
        r = a.outer(b)
        io.output('r', r.values, r.mask)

    def _outer_obl(o, n=_n, m=_m):
        o.add('ref', [], o.conj('%s = outer %s %s %d%%nat %d%%nat' % (o.d('r', i, j), vec_of('a', n), vec_of('b', m), i, j)
                                for i in range(n) for j in range(m)), RING)
    kernel('outer%dx%d' % (_n, _m), _outer_obl)(_outer)

for _n, _k, _m in ((2, 2, 2), (3, 3, 3), (2, 3, 2), (3, 2, 4), (4, 4, 4), (1, 3, 1), (2, 3, 4), (4, 1, 3)):
    def _mm(io, Pm, n=_n, k=_k, m=_m):
        A = Pm.Matrix(io.matrix('a', np.reshape(seed_vals(15, n * k), (n, k))))
        B = Pm.Matrix(io.matrix('b', np.reshape(seed_vals(16, k * m), (k, m))))
        r = A * B
        io.output('r', r.values, r.mask)
        lt = (A * B).transpose()
        rt = B.transpose() * A.transpose()
        io.output('lt', lt.values, lt.mask)
        io.output('rt', rt.values, rt.mask)

    def _mm_obl(o, n=_n, k=_k, m=_m):
        A, B = mat_of('a', n, k), mat_of('b', k, m)
        o.add('ref', [], o.conj('%s = mmul %d %s %s %d%%nat %d%%nat' % (o.d('r', i, j), k, A, B, i, j)
                                for i in range(n) for j in range(m)), RING)
        o.add('transpose_of_product', [],
              o.conj('%s = %s' % (o.d('lt', j, i), o.d('rt', j, i)) for i in range(n) for j in range(m)), RING)
        o.add('transpose_ref', [],
              o.conj('%s = transpose %s %d%%nat %d%%nat' % (o.d('lt', j, i), o.dmat('r', n, m), j, i)
                     for i in range(n) for j in range(m)), RING)
    kernel('matmul%d%d%d' % (_n, _k, _m), _mm_obl)(_mm)

for _n, _k in ((3, 3), (2, 3), (4, 4), (3, 2)):
    def _mv(io, Pm, n=_n, k=_k):
        A = Pm.Matrix(io.matrix('a', np.reshape(seed_vals(17, n * k), (n, k))))
        v = Pm.Vector(io.vector('v', seed_vals(18, k)))
        r = A * v
        io.output('r', r.values, r.mask)

    def _mv_obl(o, n=_n, k=_k):
        o.add('ref', [], o.conj('%s = mvec %d %s %s %d%%nat' % (o.d('r', i), k, mat_of('a', n, k), vec_of('v', k), i)
                                for i in range(n)), RING)
    kernel('matvec%d%d' % (_n, _k), _mv_obl)(_mv)

for _n, _m in ((2, 2), (2, 3), (3, 3), (4, 4), (1, 3), (4, 2)):
    def _tr(io, Pm, n=_n, m=_m):
        A = Pm.Matrix(io.matrix('a', np.reshape(seed_vals(19, n * m), (n, m))))
        r = A.transpose()
        io.output('r', r.values, r.mask)

    def _tr_obl(o, n=_n, m=_m):
        o.add('ref', [], o.conj('%s = transpose %s %d%%nat %d%%nat' % (o.d('r', j, i), mat_of('a', n, m), j, i)
                                for i in range(n) for j in range(m)), RING)
    kernel('transpose%dx%d' % (_n, _m), _tr_obl)(_tr)

for _n in (2, 3):
    def _inv(io, Pm, n=_n):
        vals = {2: [[1.0, 2.0], [0.5, -1.5]], 3: [[1.0, 2.0, 0.5], [-0.5, 1.5, 0.25], [0.75, -1.0, 2.0]]}[n]
        M = Pm.Matrix(io.matrix('m', vals))
        inv = M.inverse()
        r = M * inv
        io.output('r', r.values, r.mask)

    def _inv_obl(o, n=_n):
        o.add('identity_rel_lapack_stub', [o.hyp()],
              o.conj('%s = %d' % (o.d('r', i, j), 1 if i == j else 0) for i in range(n) for j in range(n)),
              'c16_hyps; repeat split; c16_nsatz.')
    kernel('inverse%d' % _n, _inv_obl)(_inv)


# ---------------------------------------------------------------------------
# rotations
# ---------------------------------------------------------------------------
def rot_stmt(o, group='r'):
    e = [o.d(group, i, j) for i in range(3) for j in range(3)]
    return 'rot9 %s' % ' '.join(e)


def _axis_kernel(axis):
    def f(io, Pm):
        t = io.angle('t', 0.7)
        name = 'xyz'[axis] + '_rotation'
        r = getattr(Pm.Matrix3, name)(Pm.Scalar(t))
        io.output('r', r.values, r.mask)
        g = Pm.Matrix3.axis_rotation(Pm.Scalar(t), axis)
        io.output('g', g.values, g.mask)
    return f


def _axis_obl(axis):
    def f(o):
        o.add('rot', o.trig_hyps(), rot_stmt(o), ROT)
        # x_rotation carries the opposite sense to y_ and z_rotation (observation, see claims)
        ref = ['Rx c_t (- s_t)', 'Ry c_t s_t', 'Rz c_t s_t'][axis]
        o.add('ref', [], o.conj('%s = %s %d%%nat %d%%nat' % (o.d('r', i, j), ref, i, j)
                                for i in range(3) for j in range(3)), RING)
        o.add('axis_rotation_same', [], o.conj('%s = %s' % (o.d('g', i, j), o.d('r', i, j))
                                               for i in range(3) for j in range(3)), RING)
    return f


for _ax in range(3):
    kernel('xyz'[_ax] + 'rot', _axis_obl(_ax))(_axis_kernel(_ax))


def _pole(io, Pm):
    ra = io.angle('ra', 0.7)
    dec = io.angle('dec', -0.4)
    r = Pm.Matrix3.pole_rotation(Pm.Scalar(ra), Pm.Scalar(dec))
    io.output('r', r.values, r.mask)


kernel('polerot', lambda o: o.add('rot', o.trig_hyps(), rot_stmt(o), ROT))(_pole)

# The 24 conventions, spelled out independently of the source's tables: a static-frame
# string 'sABC' means R = R_C(ak) . R_B(aj) . R_A(ai); a rotating-frame string 'rABC'
# means R = R_A(ai) . R_B(aj) . R_C(ak)   (standard counterclockwise axis rotations).
EULER_AXES = sorted(f + a + b + c for f in 'sr' for a in 'xyz' for b in 'xyz' for c in 'xyz'
                    if a != b and b != c)
assert len(EULER_AXES) == 24


def euler_ref(axes):
    R = {'x': 'Rx', 'y': 'Ry', 'z': 'Rz'}
    A, B, C = axes[1], axes[2], axes[3]
    mi, mj, mk = ('(%s c_ti s_ti)' % R[A], '(%s c_tj s_tj)' % R[B], '(%s c_tk s_tk)' % R[C])
    if axes[0] == 's':
        return '(mmul 3 %s (mmul 3 %s %s))' % (mk, mj, mi)
    return '(mmul 3 %s (mmul 3 %s %s))' % (mi, mj, mk)


for _axes in EULER_AXES:
    def _eul(io, Pm, axes=_axes):
        ti = io.angle('ti', 0.7)
        tj = io.angle('tj', 0.25)
        tk = io.angle('tk', -1.1)
        r = Pm.Matrix3.from_euler(Pm.Scalar(ti), Pm.Scalar(tj), Pm.Scalar(tk), axes)
        io.output('r', r.values, r.mask)

    def _eul_obl(o, axes=_axes):
        o.add('rot', o.trig_hyps(), rot_stmt(o), ROT)
        o.add('product_of_axis_rotations', [],
              o.conj('%s = %s %d%%nat %d%%nat' % (o.d('r', i, j), euler_ref(axes), i, j)
                     for i in range(3) for j in range(3)), RING)
    kernel('euler_' + _axes, _eul_obl)(_eul)

for _a1, _a2 in ((0, 1), (1, 2), (2, 0), (1, 0), (2, 1), (0, 2)):
    def _tv(io, Pm, a1=_a1, a2=_a2):
        v1 = Pm.Vector3(io.vector('a', seed_vals(20, 3)))
        v2 = Pm.Vector3(io.vector('b', seed_vals(21, 3)))
        r = Pm.Matrix3.twovec(v1, a1, v2, a2)
        io.output('r', r.values, r.mask)

    def _tv_obl(o, a1=_a1, a2=_a2):
        o.add('row_is_unit_of_first', [o.path()],
              o.conj('%s = unitv 3 %s %d%%nat' % (o.d('r', a1, i), vec_of('a', 3), i) for i in range(3)),
              'c16_sqrt_unify; c16_field.')
        o.add('rot', [o.path()], rot_stmt(o), 'c16_twovec.')
    kernel('twovec%d%d' % (_a1, _a2), _tv_obl)(_tv)


def _rotunrot(io, Pm):
    M = Pm.Matrix3(io.matrix('m', [[0.36, 0.48, -0.8], [-0.8, 0.6, 0.0], [0.48, 0.64, 0.6]]))
    v = Pm.Vector3(io.vector('v', seed_vals(22, 3)))
    w = M.rotate(v)
    io.output('w', w.values, w.mask)
    u = M.unrotate(w)
    io.output('u', u.values, u.mask)
    N = Pm.Matrix3(io.matrix('n', [[0.0, -1.0, 0.0], [1.0, 0.0, 0.0], [0.0, 0.0, 1.0]]))
    x = M.rotate(N)
    io.output('x', x.values, x.mask)
    y = M.unrotate(N)
    io.output('y', y.values, y.mask)


def _rotunrot_obl(o):
    M = mat_of('m', 3, 3)
    cols = ['(m0_%d * m0_%d + m1_%d * m1_%d + m2_%d * m2_%d = %d)' % (i, j, i, j, i, j, 1 if i == j else 0)
            for i in range(3) for j in range(i, 3)]
    o.add('rotate_ref', [], o.conj('%s = mvec 3 %s %s %d%%nat' % (o.d('w', i), M, vec_of('v', 3), i)
                                   for i in range(3)), RING)
    o.add('unrotate_rotate', cols, o.conj('%s = v%d' % (o.d('u', i), i) for i in range(3)),
          'c16_hyps; repeat split; c16_nsatz.')
    o.add('rotate_matrix_ref', [], o.conj('%s = mmul 3 %s %s %d%%nat %d%%nat' % (o.d('x', i, j), M, mat_of('n', 3, 3), i, j)
                                          for i in range(3) for j in range(3)), RING)
    o.add('unrotate_matrix_ref', [],
          o.conj('%s = mmul 3 (transpose %s) %s %d%%nat %d%%nat' % (o.d('y', i, j), M, mat_of('n', 3, 3), i, j)
                 for i in range(3) for j in range(3)), RING)


kernel('rotate', _rotunrot_obl)(_rotunrot)


# ---------------------------------------------------------------------------
# quaternions
# ---------------------------------------------------------------------------
def _qmul(io, Pm):
    p = Pm.Quaternion(io.vector('p', [0.5, -0.3, 0.7, 0.4]))
    q = Pm.Quaternion(io.vector('q', [-0.2, 0.9, 0.1, 0.6]))
    r = p * q
    io.output('r', r.values, r.mask)
    c = p.conj()
    io.output('c', c.values, c.mask)
    pc = p * c
    io.output('pc', pc.values, pc.mask)


def _qmul_obl(o):
    Pq, Qq = vec_of('p', 4), vec_of('q', 4)
    o.add('hamilton_ref', [], o.conj('%s = qmul %s %s %d%%nat' % (o.d('r', i), Pq, Qq, i) for i in range(4)), RING)
    o.add('conj_ref', [], o.conj('%s = qconj %s %d%%nat' % (o.d('c', i), Pq, i) for i in range(4)), RING)
    o.add('q_times_conj', [], o.conj(['%s = norm_sq 4 %s' % (o.d('pc', 0), Pq)] +
                                     ['%s = 0' % o.d('pc', i) for i in (1, 2, 3)]), RING)
    o.add('norm_multiplicative', [], 'norm_sq 4 %s = norm_sq 4 %s * norm_sq 4 %s' % (o.dvec('r', 4), Pq, Qq), RING)


kernel('qmul', _qmul_obl)(_qmul)


def _qrecip(io, Pm):
    p = Pm.Quaternion(io.vector('p', [0.5, -0.3, 0.7, 0.4]))
    r = p.reciprocal()
    io.output('r', r.values, r.mask)
    one = p * r
    io.output('one', one.values, one.mask)


def _qrecip_obl(o):
    o.add('q_times_reciprocal', [o.path()],
          o.conj('%s = %d' % (o.d('one', i), 1 if i == 0 else 0) for i in range(4)), FIELD)
    o.add('reciprocal_ref', [o.path()],
          o.conj('%s = qconj %s %d%%nat / norm_sq 4 %s' % (o.d('r', i), vec_of('p', 4), i, vec_of('p', 4))
                 for i in range(4)), FIELD)


kernel('qrecip', _qrecip_obl)(_qrecip)


def _q2m(io, Pm):
    p = Pm.Quaternion(io.vector('p', [0.5, -0.3, 0.7, 0.4]))
    r = p.to_matrix3()
    io.output('r', r.values, r.mask)


def _q2m_obl(o):
    o.add('rot', [o.path()], rot_stmt(o), 'c16_q2m.')
    o.add('ref_for_unit_q', [o.path(), '(norm_sq 4 %s = 1)' % vec_of('p', 4)],
          o.conj('%s = qmat %s %d%%nat %d%%nat' % (o.d('r', i, j), vec_of('p', 4), i, j)
                 for i in range(3) for j in range(3)), 'c16_q2m.')


kernel('q2m', _q2m_obl)(_q2m)


def _qmm(io, Pm):
    p = Pm.Quaternion(io.vector('p', [0.5, -0.3, 0.7, 0.4]))
    q = Pm.Quaternion(io.vector('q', [-0.2, 0.9, 0.1, 0.6]))
    l = (p * q).to_matrix3()
    r = p.to_matrix3() * q.to_matrix3()
    io.output('l', l.values, l.mask)
    io.output('r', r.values, r.mask)


def _qmm_obl(o):
    o.add('product_corresponds', [o.path()],
          o.conj('%s = %s' % (o.d('l', i, j), o.d('r', i, j)) for i in range(3) for j in range(3)),
          'c16_q2m.')


kernel('qmulmat', _qmm_obl)(_qmm)


def _qrot(io, Pm):
    t = io.angle('t', 0.9)
    v = Pm.Vector3(io.vector('v', seed_vals(23, 3)))
    q = Pm.Quaternion.from_rotation(Pm.Scalar(t), v)
    io.output('q', q.values, q.mask)
    s, w = q.to_parts()
    io.output('s', s.values, s.mask)
    io.output('w', w.values, w.mask)
    back = Pm.Quaternion.from_parts(s, w)
    io.output('b', back.values, back.mask)


def _qrot_obl(o):
    o.add('unit_norm', o.trig_hyps() + [o.path()], 'norm_sq 4 %s = 1' % o.dvec('q', 4), ALG)
    o.add('parts', [], o.conj(['%s = %s' % (o.d('s'), o.d('q', 0))] +
                              ['%s = %s' % (o.d('w', i), o.d('q', i + 1)) for i in range(3)] +
                              ['%s = %s' % (o.d('b', i), o.d('q', i)) for i in range(4)]), 'repeat split; reflexivity.')


kernel('qfromrot', _qrot_obl)(_qrot)

for _axes in EULER_AXES:
    def _qe(io, Pm, axes=_axes):
        ti = io.angle('ti', 0.7)
        tj = io.angle('tj', 0.25)
        tk = io.angle('tk', -1.1)
        q = Pm.Quaternion.from_euler(Pm.Scalar(ti), Pm.Scalar(tj), Pm.Scalar(tk), axes)
        io.output('q', q.values, q.mask)

    def _qe_obl(o, axes=_axes):
        o.add('unit_norm', o.trig_hyps(), 'norm_sq 4 %s = 1' % o.dvec('q', 4), 'c16_hyps; c16_unfold; c16_nsatz.')
    kernel('qeuler_' + _axes, _qe_obl)(_qe)


# ---------------------------------------------------------------------------
# driver
# ---------------------------------------------------------------------------
OBL_HEADER = '''(* GENERATED on every run by tools/regen/tracer_c16.py. Do not edit.
   Obligations of traced kernel %s: hand-written schemas (C16Ref / C16Lemmas) instantiated on the
   definitions emitted from the current source. *)
From Coq Require Import Reals List Lra Nsatz.
From PM Require Import C16Ref C16Lemmas.
From PMGen Require Import Gen_kern_%s.
Import ListNotations.
Local Open Scope R_scope.
'''


def run_float(name, fn, Pm):
    io = FloatIO(name)
    fn(io, Pm)
    return io


def main(argv):
    from . import tracer as T
    from . import emit_coq as EC
    verif = HERE
    gen = os.environ.get('VERIF_GEN') or os.path.join(verif, 'coq', 'gen')
    obl = os.path.join(gen, 'obl')
    build = os.path.join(os.environ.get('VERIF_BUILD') or os.path.join(verif, '_build'), 'C16')
    for d in (gen, obl, build):
        os.makedirs(d, exist_ok=True)
    only = set(argv[1:])
    Pm = T.install()
    manifest = {'kernels': [], 'errors': []}
    for name, fn, oblig in KERNELS:
        if only and name not in only:
            continue
        entry = {'name': name}
        try:
            with T.Trace(name) as tr:
                fn(tr, Pm)
            bad = tr.sanity()
            text, info = EC.kernel_file(tr)
            o = Obl(name, info)
            oblig(o)
            with open(os.path.join(gen, 'Gen_kern_%s.v' % name), 'w') as f:
                f.write(text)
            with open(os.path.join(obl, 'C16_%s.v' % name), 'w') as f:
                f.write(OBL_HEADER % (name, name))
                for lname, stmt, proof in o.lemmas:
                    f.write('\nLemma %s :\n  %s.\n%s\n' % (lname, stmt, proof))
                # one Print Assumptions for all lemmas of the kernel (their union)
                f.write('\nDefinition C16_%s_all := (%s).\n' % (name, ', '.join(['I'] + [l[0] for l in o.lemmas])))
                f.write('Print Assumptions C16_%s_all.\n' % name)
            env = tr.env()
            memo = {}
            entry.update({
                'params': info['params'], 'defs': info['defs'],
                'inputs': tr.inputs, 'stubs': tr.stubs, 'angles': tr.angles,
                'outputs': [[g, list(idx), T.evaluate(e, env, memo), v] for g, idx, e, v in tr.outputs],
                'masks': tr.masks, 'path': info['path'], 'n_hyps': info['n_hyps'],
                'irrational_constants': info['irrational_constants'],
                'sanity_bad': [[g, list(i), v, w] for g, i, v, w in bad],
                'lemmas': [l[0] for l in o.lemmas],
                'dag_nodes': max(T.node_size(e) for _, _, e, _ in tr.outputs),
            })
        except Exception as e:       # fail closed: the harness reports a broken tie
            import traceback
            entry['error'] = '%s: %s' % (type(e).__name__, e)
            entry['traceback'] = traceback.format_exc()[-1500:]
            manifest['errors'].append(name)
            T._CURRENT[0] = None
        manifest['kernels'].append(entry)
    with open(os.path.join(build, 'trace_manifest.json'), 'w') as f:
        json.dump(manifest, f, indent=0)
    print('traced %d kernels, %d errors' % (len(manifest['kernels']), len(manifest['errors'])))
    return 0


if __name__ == '__main__':
    sys.exit(main(sys.argv))
