#!/venv/bin/python
"""Re-run the check against stored seeded changes and refresh the verdict in meta.json.

  tools/reeval_seed.py <id> [<id> ...] [--note "text appended to history when the verdict improves"]

(try_seed.py in a scratch worktree of /repo HEAD; /repo itself is never touched.)"""
import sys, os, re, json, subprocess
args = sys.argv[1:]
note = None
if '--note' in args:
    k = args.index('--note'); note = args[k + 1]; args = args[:k] + args[k + 2:]
for sid in args:
    d = os.path.join('/verif/seeded', sid)
    meta = json.load(open(os.path.join(d, 'meta.json')))
    prop = meta['property']
    r = subprocess.run(['/venv/bin/python', '/verif/tools/try_seed.py', os.path.join(d, 'patch.diff'), prop,
                        '--demo', os.path.join(d, 'demo.py'), '--tests'], stdout=subprocess.PIPE, stderr=subprocess.STDOUT, text=True)
    txt = r.stdout
    m = re.search(r'^\{.*?^\}', txt, re.S | re.M)
    if not m:
        print(sid, 'NO RESULT', txt[-300:]); continue
    res = json.loads(m.group(0))
    verdict = re.search(r'VERDICT .*: (.*)', txt).group(1)
    ok = res.get('demo_clean_rc') == 0 and res.get('demo_patched_rc') not in (0, None) and '93 passed' in res.get('tests', '')
    old = meta.get('check_verdict')
    head = subprocess.run(['git', '-C', '/repo', 'rev-parse', '--short', 'HEAD'], stdout=subprocess.PIPE, text=True).stdout.strip()
    meta['confirmed_on_repo_head'] = head
    meta['confirmed'] = {'patch_applies': True, 'tests': res.get('tests'), 'demo_clean_rc': res.get('demo_clean_rc'),
                         'demo_patched_rc': res.get('demo_patched_rc')}
    meta['still_confirmed'] = bool(ok)
    meta['check_verdict'] = verdict
    meta['check_summary'] = res.get('summary')
    meta['first_replay'] = res.get('first_replay')
    if note and old != verdict:
        meta.setdefault('history', []).append('%s at first; %s -> %s' % (old, note, verdict))
    json.dump(meta, open(os.path.join(d, 'meta.json'), 'w'), indent=1)
    print(sid, 'confirmed' if ok else 'NOT-CONFIRMED', '|', old, '->', verdict)
