#!/venv/bin/python
"""Re-run every stored seeded change against its property's check (quick tier) and print one verdict line each.
Does not touch the meta files (use tools/reeval_seed.py for that).  Works from /verif or from a snapshot of it
(vp run): builds the Coq library first when it is missing.

  tools/reeval_all.py [-j 4] [ids ...]"""
import sys, os, re, json, glob, subprocess
from concurrent.futures import ThreadPoolExecutor
HERE = os.path.dirname(os.path.dirname(os.path.abspath(__file__)))
args = sys.argv[1:]
jobs = 4
if '-j' in args:
    k = args.index('-j'); jobs = int(args[k + 1]); args = args[:k] + args[k + 2:]
if not glob.glob(os.path.join(HERE, 'coq', 'theories', '*.vo')):
    subprocess.run('mkdir -p _build && /venv/bin/python tools/gen_coqproject.py && cd coq && coq_makefile -f _CoqProject '
                   '-o Makefile > /dev/null && make -j16 > ../_build/setup.log 2>&1', shell=True, cwd=HERE)
ids = args or sorted(os.path.basename(os.path.dirname(p)) for p in glob.glob(os.path.join(HERE, 'seeded', '*', 'meta.json')))
byprop = {}
for i in ids:
    byprop.setdefault(i.split('-')[0], []).append(i)


def run_prop(prop):
    out = []
    for sid in byprop[prop]:        # one property's seeds one after the other (they share regenerated Coq files)
        d = os.path.join(HERE, 'seeded', sid)
        r = subprocess.run(['/venv/bin/python', os.path.join(HERE, 'tools', 'try_seed.py'), os.path.join(d, 'patch.diff'), prop],
                           stdout=subprocess.PIPE, stderr=subprocess.STDOUT, text=True)
        m = re.search(r'VERDICT .*: (.*)', r.stdout)
        line = '%s %s' % (sid, m.group(1) if m else 'NO-RESULT ' + r.stdout[-200:].replace('\n', ' '))
        print(line, flush=True)
        out.append(line)
    return out


with ThreadPoolExecutor(max_workers=jobs) as ex:
    res = [l for ls in ex.map(run_prop, sorted(byprop)) for l in ls]
bad = [l for l in res if 'CAUGHT (concrete)' not in l]
print('SUMMARY %d seeds, %d not caught with a concrete input: %s' % (len(res), len(bad), bad))
