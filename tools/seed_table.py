#!/venv/bin/python
"""Regenerate seeded/README.md from the meta.json files."""
import json, glob, os
rows = []
for mp in sorted(glob.glob('/verif/seeded/*/meta.json')):
    d = json.load(open(mp))
    rows.append(d)
out = ['# Seeded breaking changes', '',
       'Each directory holds one change to SETI/rms-polymath written by a fresh sub-agent that was given only',
       'the text of one property and a scratch git worktree of /repo (nothing from /verif). Every change was',
       'confirmed by `tools/store_seed.py` in a new scratch worktree of /repo HEAD: the patch applies, the 93',
       'pinned tests pass with it, `demo.py` exits 0 on the clean tree and non-zero on the patched one. None is',
       'ever committed in /repo. `tools/try_seed.py seeded/<id>/patch.diff <Cxx> --demo seeded/<id>/demo.py`',
       're-runs the evaluation. `notes.md` is the author\'s description (what breaks, what it needs to manifest).',
       '',
       '| id | files | verdict of `./check` (quick) | first replay signature / history |',
       '|----|-------|------------------------------|---------------------------------|']
for d in rows:
    fr = d.get('first_replay') or {}
    sig = (fr.get('signature') or fr.get('name') or '')[:160].replace('|', '\\|')
    hist = ' '.join(d.get('history') or [])
    out.append('| %s | %s | %s | %s%s |' % (d['id'], ', '.join(os.path.basename(f) for f in d['files_changed']),
                                            d['check_verdict'], ('**history:** ' + hist + ' ') if hist else '', '`%s`' % sig if sig else ''))
retired = sum(1 for d in rows if d['check_verdict'].startswith('RETIRED'))
n = len(rows) - retired; c = sum(1 for d in rows if d['check_verdict'].startswith('CAUGHT (concrete'))
nc = sum(1 for d in rows if d['check_verdict'].startswith('CAUGHT (no'))
first_miss = sum(1 for d in rows if d.get('history') and not d['check_verdict'].startswith('RETIRED'))
out += ['', '%d changes: %d caught with a concrete failing input, %d caught without one (broken proof or correspondence '
        'only), %d missed. %d of them were missed or only half caught by the check as first built and led to a '
        'strengthening (history column). %d further change(s) retired: a repair of the underlying defect in /repo made them harmless.' % (n, c, nc, n - c - nc, first_miss, retired)]
open('/verif/seeded/README.md', 'w').write('\n'.join(out) + '\n')
print('\n'.join(out[-1:]))
