#!/usr/bin/env python3
"""Validate MANIFEST.json and every evidence file against the schemas in /root/.vp (run with python3-vt)."""
import json, sys, glob, os
import jsonschema
HERE = os.path.dirname(os.path.dirname(os.path.abspath(__file__)))
bad = 0
man = json.load(open(os.path.join(HERE, 'MANIFEST.json')))
try:
    jsonschema.validate(man, json.load(open('/root/.vp/MANIFEST.schema.json')))
    print('MANIFEST ok: %d checks, %d not applicable' % (len(man['checks']), len(man['not_applicable'])))
except Exception as e:
    bad += 1; print('MANIFEST INVALID', str(e)[:500])
es = json.load(open('/root/.vp/EVIDENCE.schema.json'))
for c in man['checks']:
    p = os.path.join(HERE, 'evidence', c['property_id'] + '.json')
    try:
        e = json.load(open(p))
        jsonschema.validate(e, es)
        cov = e['coverage']
        assert cov['obligations'] == cov['discharged'], 'discharged %s != obligations %s' % (cov['discharged'], cov['obligations'])
        assert e.get('violations', 0) == 0, 'violations recorded'
        assert e['level'] == c['level_claimed']['category'], 'level'
    except Exception as ex:
        bad += 1; print(c['property_id'], 'EVIDENCE PROBLEM', str(ex)[:300])
print('evidence files checked; problems:', bad)
sys.exit(1 if bad else 0)
