#!/venv/bin/python
"""Confirm one candidate breaking change and keep it under /verif/seeded/<id>/.

  tools/store_seed.py <srcdir> <Cxx> <letter>     (srcdir holds patch<L>.diff, demo<L>.py[, NOTES.md])

Confirmation = tools/try_seed.py --tests in a scratch worktree of /repo's HEAD: the patch applies,
the 93 pinned tests still pass, the demonstration exits 0 on the clean tree and non-zero on the
patched one.  Only then are patch.diff, demo.py, notes.md and meta.json written.  The verdict of
the property's check (quick tier) is recorded in meta.json as well."""
import sys, os, re, json, subprocess, shutil, datetime
src, prop, L = sys.argv[1:4]
sid = '%s-%s' % (prop, L)
patch = os.path.join(src, 'patch%s.diff' % L); demo = os.path.join(src, 'demo%s.py' % L)
r = subprocess.run(['/venv/bin/python', '/verif/tools/try_seed.py', patch, prop, '--demo', demo, '--tests'],
                   stdout=subprocess.PIPE, stderr=subprocess.STDOUT, text=True)
txt = r.stdout
m = re.search(r'^\{.*?^\}', txt, re.S | re.M)
if not m:
    print(sid, 'NOT CONFIRMED (no result):', txt[-400:]); sys.exit(2)
res = json.loads(m.group(0))
verdict = re.search(r'VERDICT .*: (.*)', txt).group(1)
ok = res.get('demo_clean_rc') == 0 and res.get('demo_patched_rc') not in (0, None) and '93 passed' in res.get('tests', '')
if not ok:
    print(sid, 'NOT CONFIRMED', json.dumps(res)[:600]); sys.exit(2)
notes = ''
np_ = os.path.join(src, 'NOTES.md')
if os.path.exists(np_):
    t = open(np_).read()
    parts = re.split(r'(?m)^## ', t)
    mine = [p for p in parts if re.match(r'(Change|Patch|Seed)?\s*%s\b' % L, p)]
    notes = (parts[0] + ''.join('## ' + p for p in mine)) if mine else t
d = os.path.join('/verif/seeded', sid); os.makedirs(d, exist_ok=True)
shutil.copy(patch, os.path.join(d, 'patch.diff')); shutil.copy(demo, os.path.join(d, 'demo.py'))
open(os.path.join(d, 'notes.md'), 'w').write(notes)
files = sorted(set(re.findall(r'^\+\+\+ b/(\S+)', open(patch).read(), re.M)))
head = subprocess.run(['git', '-C', '/repo', 'rev-parse', '--short', 'HEAD'], stdout=subprocess.PIPE, text=True).stdout.strip()
old = {}
mp = os.path.join(d, 'meta.json')
if os.path.exists(mp):
    old = json.load(open(mp))
meta = {
    'id': sid, 'property': prop, 'files_changed': files,
    'author': 'fresh sub-agent given only the property text and a scratch worktree of /repo',
    'needs_to_manifest': old.get('needs_to_manifest', 'see notes.md (section "Needs")'),
    'confirmed_on_repo_head': head,
    'confirmed': {'patch_applies': True, 'tests': res['tests'], 'demo_clean_rc': res['demo_clean_rc'],
                  'demo_patched_rc': res['demo_patched_rc']},
    'what_i_ran': ['tools/try_seed.py %s %s --demo %s --tests  (scratch worktree of /repo HEAD under /tmp, removed afterwards)'
                   % ('seeded/%s/patch.diff' % sid, prop, 'seeded/%s/demo.py' % sid)],
    'check_verdict': verdict, 'check_summary': res.get('summary'), 'first_replay': res.get('first_replay'),
    'history': old.get('history', []),
    'date': datetime.date.today().isoformat(),
}
json.dump(meta, open(mp, 'w'), indent=1)
print(sid, 'CONFIRMED;', verdict)
