#!/venv/bin/python
"""Run one property check against a candidate breaking change.

  tools/try_seed.py <patch.diff> <Cxx> [--demo demo.py] [--tier quick|thorough] [--tests]

Applies the patch in a scratch worktree of /repo (under /tmp, removed afterwards), optionally runs
the repository's tests and the demonstration there, then runs ./check Cxx with VERIF_REPO pointing at
the worktree and prints a one-line verdict.  /repo itself is never touched."""
import argparse, os, subprocess, sys, tempfile, shutil, json, re

ap = argparse.ArgumentParser()
ap.add_argument('patch'); ap.add_argument('prop')
ap.add_argument('--demo'); ap.add_argument('--tier', default='quick'); ap.add_argument('--tests', action='store_true')
ap.add_argument('--seed', default='0')
a = ap.parse_args()
HERE = os.path.dirname(os.path.dirname(os.path.abspath(__file__)))      # /verif, or a snapshot of it
wt = tempfile.mkdtemp(prefix='try-%s-' % a.prop, dir='/tmp')
os.rmdir(wt)
def sh(cmd, **kw):
    return subprocess.run(cmd, shell=True, stdout=subprocess.PIPE, stderr=subprocess.STDOUT, text=True, **kw)
out = {}
try:
    r = sh('git -C /repo worktree add -q --detach %s HEAD' % wt); assert r.returncode == 0, r.stdout
    if a.demo:      # the demo must import the worktree's polymath: run a copy placed in the worktree root
        shutil.copy(os.path.abspath(a.demo), os.path.join(wt, '_demo.py'))
        r = sh('cd %s && /venv/bin/python _demo.py' % wt); out['demo_clean_rc'] = r.returncode
    r = sh('git -C %s apply %s' % (wt, os.path.abspath(a.patch)))
    if r.returncode != 0:
        print('PATCH-DOES-NOT-APPLY', r.stdout[-500:]); sys.exit(2)
    if a.tests:
        r = sh('cd %s && /venv/bin/python -m pytest -q -p no:cacheprovider 2>&1 | tail -1' % wt); out['tests'] = r.stdout.strip()
    if a.demo:
        r = sh('cd %s && /venv/bin/python _demo.py' % wt); out['demo_patched_rc'] = r.returncode
    env = dict(os.environ, VERIF_REPO=wt, VERIF_SEED=a.seed)
    r = sh('cd %s && ./check %s --tier %s' % (HERE, a.prop, a.tier), env=env)
    viol = [l for l in r.stdout.split('\n') if l.startswith('VIOLATION')]
    out['check_rc'] = r.returncode
    out['violations'] = len(viol)
    out['concrete'] = sum(1 for l in viol if 'no-failing-input-found' not in l)
    out['summary'] = r.stdout.strip().split('\n')[-1]
    if viol:
        m = re.search(r'replay=(\S+)', viol[0])
        if m and os.path.exists(m.group(1)):
            d = json.load(open(m.group(1)))
            out['first_replay'] = {k: (str(v)[:300]) for k, v in d.items() if k in ('signature', 'case', 'detail', 'name')}
    print(json.dumps(out, indent=1))
    print('VERDICT %s %s: %s' % (a.prop, os.path.basename(os.path.dirname(os.path.abspath(a.patch))) + '/' + os.path.basename(a.patch),
                                 'CAUGHT (concrete)' if out['concrete'] else ('CAUGHT (no concrete input)' if viol else 'MISSED')))
finally:
    sh('git -C /repo worktree remove --force %s' % wt)
    shutil.rmtree(wt, ignore_errors=True)
    # scratch, evidence and regenerated files of the trial (harness/lib.py keeps them apart from the real check's)
    alt = os.path.join(HERE, '_build', 'alt', re.sub(r'\W+', '_', os.path.realpath(wt)).strip('_'))
    shutil.rmtree(alt, ignore_errors=True)
