#!/venv/bin/python
"""Write coq/_CoqProject from coq/parts/*.files (shared first, then per property)."""
import glob, os
HERE = os.path.dirname(os.path.dirname(os.path.abspath(__file__)))
files = []
for part in sorted(glob.glob(os.path.join(HERE, 'coq', 'parts', '*.files'))):
    for line in open(part):
        line = line.strip()
        if (line and not line.startswith('#') and line not in files
                and os.path.exists(os.path.join(HERE, 'coq', line))):
            files.append(line)
with open(os.path.join(HERE, 'coq', '_CoqProject'), 'w') as f:
    f.write('-R theories PM\n' + '\n'.join(files) + '\n')
print(len(files), 'files')
