#!/venv/bin/python
"""Regenerate MANIFEST.json from tools/claims.d/Cxx.json (one file per claimed property)."""
import json, os, subprocess
HERE = os.path.dirname(os.path.dirname(os.path.abspath(__file__)))
import glob
claims = {}
integrated = set(open(os.path.join(HERE, 'tools', 'integrated.txt')).read().split())
for f in sorted(glob.glob(os.path.join(HERE, 'tools', 'claims.d', '*.json'))):
    if os.path.basename(f)[:-5] in integrated:      # only checks I have integrated and run
        claims[os.path.basename(f)[:-5]] = json.load(open(f))
props = [json.loads(l) for l in open(os.path.join(HERE, 'properties.jsonl'))]
ids = [p['id'] for p in props]
checks, na = [], []
for pid in ids:
    c = claims.get(pid)
    if c and c.get('claimed'):
        checks.append({
            'property_id': pid,
            'quick_cmd': './check %s --tier quick' % pid,
            'thorough_cmd': './check %s --tier thorough' % pid,
            'evidence_file': '/verif/evidence/%s.json' % pid,
            'replay_cmd_template': './check %s --replay {path}' % pid,
            'engine': 'coq-model+correspondence',
            'level_claimed': {'category': 'proof', 'text': c['text'], 'design_ref': c.get('design_ref', 'DESIGN.md section 7 ' + pid)},
            'level_note': c['note'],
            'technique': c['technique'],
        })
    else:
        na.append({'property_id': pid, 'reason': (c or {}).get('reason', 'check not built yet in this round; see DESIGN.md section 7 for the plan')})
fixes = subprocess.run(['git', '-C', '/repo', 'log', '--format=%h %s', '9bc97df..HEAD'], stdout=subprocess.PIPE, text=True).stdout.split('\n')
man = {
    'version': 1,
    'setup_cmd': 'cd /verif && mkdir -p _build && /venv/bin/python tools/gen_coqproject.py && cd coq && coq_makefile -f _CoqProject -o Makefile > /dev/null && (timeout 3000 make -j16 > /verif/_build/setup.log 2>&1 || (tail -50 /verif/_build/setup.log; exit 1))',
    'hooks': {'guard': 'RMS_POLYMATH_VERIF', 'enable': 'no source hooks are needed: every check imports /repo with PYTHONPATH=/repo and observes public attributes only',
              'baseline_off_cmd': 'cd /repo && /venv/bin/python -m pytest -ra -q -p no:cacheprovider --timeout=900 --continue-on-collection-errors',
              'source_commits': [], 'add_only': True},
    'engines': [{'name': 'coq-model+correspondence', 'path': '/verif/check',
                 'serves_properties': [c['property_id'] for c in checks],
                 'kind_free_text': 'Coq 8.16 theorems over a hand-written Gallina model (coq/theories), re-checked by coqc on every run; '
                                   'model tied to /repo by evaluating it with vm_compute on the same generated cases the implementation ran '
                                   '(correspondence), plus a direct oracle of the property on the implementation for the failing-input search'}],
    'checks': checks,
    'not_applicable': na,
    'notes': 'Genuine defects repaired in /repo as separate "fix:" commits (listed in known_findings.jsonl as fixed entries): '
             + '; '.join(x for x in fixes if x),
}
json.dump(man, open(os.path.join(HERE, 'MANIFEST.json'), 'w'), indent=1)
print('claimed', len(checks), 'not_applicable', len(na))
