"""C11 - pickling round-trips objects (polymath/extensions/pickler.py).

Stages: prove Props/C11.v; generate cases; for each case build the object, snapshot it,
pickle.dumps / pickle.loads, snapshot again and compare
(a) direct oracle: obs(restored) against obs(original) as the property states it (bit
    patterns of unmasked values, class default under the mask, purity of the pickled
    object, error bound for set_pickle_digits), plus re-decoding of every byte string of
    the pickled state with the real bz2 / fpzip / numpy.unpackbits (the hypotheses of the
    Coq theorems about the external compressors);
(b) correspondence: the Coq model `run11` (getstate then setstate over identity
    compressors) evaluated by vm_compute on the same object; the comparison includes the
    encoding path the implementation took (VALS_ENCODING / MASK_ENCODING / float method).
"""
import bz2
import itertools
import math
import pickle
import struct
import warnings

import numpy as np

from . import lib, hist
from .lib import cbool, cnat, cZ, clist, cshape, copt

HEADER = ('From Coq Require Import List ZArith Bool.\nFrom PM Require Import Base Mask C11Model.\n'
          'Import ListNotations.\n')

CLS = ['Scalar', 'Boolean', 'Vector', 'Vector3', 'Pair', 'Matrix', 'Matrix3', 'Quaternion', 'Polynomial']
CLSINFO = {
    'Scalar': dict(numers=[()], kinds=['float', 'int'], units=True, derivs=True),
    'Boolean': dict(numers=[()], kinds=['bool'], units=False, derivs=False),
    'Vector': dict(numers=[(2,), (4,)], kinds=['float', 'int'], units=True, derivs=True),
    'Vector3': dict(numers=[(3,)], kinds=['float'], units=True, derivs=True),
    'Pair': dict(numers=[(2,)], kinds=['float', 'int'], units=True, derivs=True),
    'Matrix': dict(numers=[(2, 3), (2, 2)], kinds=['float'], units=True, derivs=True),
    'Matrix3': dict(numers=[(3, 3)], kinds=['float'], units=False, derivs=True),
    'Quaternion': dict(numers=[(4,)], kinds=['float'], units=False, derivs=True),
    'Polynomial': dict(numers=[(3,)], kinds=['float'], units=True, derivs=True),
}
UNITS = [None, 'KM', 'SEC', 'DEG', 'KM/SEC']
KEYS = ['t', 'xy', 'long_key']
INT_DTYPES = ['int8', 'int16', 'int32', 'int64', 'uint8', 'uint16', 'uint32', 'uint64']
CUTOFF = 200

SPECIAL = [0x0, 0x8000000000000000, 0x1, 0x8000000000000001, 0x000fffffffffffff,
           0x0010000000000000, 0x7fefffffffffffff, 0xffefffffffffffff, 0x7ff0000000000000,
           0xfff0000000000000, 0x7ff8000000000000, 0xfff8000000000000, 0x7ff8000000000001,
           0x7ff4000000000123, 0xfff0000000000001, 0x7fffffffffffffff, 0x3ff0000000000000,
           0xbff8000000000000, 0x400921fb54442d18, 0x3ff0000000000001]


def P():
    lib.setup_impl_path()
    import polymath
    return polymath


def f2p(x):
    return struct.unpack('<Q', struct.pack('<d', x))[0]


def p2f(p):
    return struct.unpack('<d', struct.pack('<Q', p))[0]


def prod(s):
    n = 1
    for x in s:
        n *= int(x)
    return n


# ---------------------------------------------------------------------------
# case generation
# ---------------------------------------------------------------------------
MASK_PATTERNS = ['F', 'T', 'aF', 'aT', 'mix', 'mix', 'single_unmasked', 'single_masked', 'box', 'box',
                 'border1', 'holes']


def gen_mask(rng, shape, pattern):
    n = prod(shape)
    if pattern == 'F' or (len(shape) == 0 and pattern not in ('T', 'aT')):
        return False
    if pattern == 'T' or len(shape) == 0:
        return True
    if n == 0:
        return []
    if pattern == 'aF':
        return [False] * n
    if pattern == 'aT':
        return [True] * n
    if pattern == 'mix':
        p = rng.choice([0.1, 0.4, 0.8])
        return [rng.random() < p for _ in range(n)]
    if pattern == 'single_unmasked':
        m = [True] * n
        m[rng.randrange(n)] = False
        return m
    if pattern == 'single_masked':
        m = [False] * n
        m[rng.randrange(n)] = True
        return m
    a = np.ones(shape, bool)
    if pattern == 'box':                  # borders masked on (some) sides, interior mostly unmasked
        sl = []
        for k in shape:
            lo = rng.randrange(k)
            hi = rng.randrange(lo + 1, k + 1)
            if rng.random() < 0.3:
                lo, hi = 0, k
            sl.append(slice(lo, hi))
        box = a[tuple(sl)]
        box[...] = np.array([rng.random() < 0.25 for _ in range(box.size)], bool).reshape(box.shape)
        return [bool(x) for x in a.ravel()]
    if pattern == 'border1':              # one side of one axis masked
        a[...] = False
        ax = rng.randrange(len(shape))
        idx = [slice(None)] * len(shape)
        k = shape[ax]
        cut = rng.randrange(1, k) if k > 1 else 1
        idx[ax] = slice(0, cut) if rng.random() < 0.5 else slice(k - cut, k)
        a[tuple(idx)] = True
        return [bool(x) for x in a.ravel()]
    # holes: borders unmasked, a few interior elements masked
    a[...] = False
    for _ in range(max(1, n // 10)):
        a.ravel()[rng.randrange(n)] = True
    return [bool(x) for x in a.ravel()]


def gen_float_patterns(rng, n, dist):
    if dist == 'special':
        return [rng.choice(SPECIAL) for _ in range(n)]
    if dist == 'randbits':
        return [rng.getrandbits(64) for _ in range(n)]
    if dist == 'const':
        c = rng.choice(SPECIAL + [f2p(rng.uniform(-5, 5))])
        return [c] * n
    if dist == 'zeros':
        return [rng.choice([0, 0x8000000000000000]) for _ in range(n)]
    if dist == 'smooth':
        a, w = rng.uniform(0.1, 1000), rng.uniform(0.001, 0.1)
        return [f2p(a * math.sin(w * i) + a / 3) for i in range(n)]
    if dist == 'wide':
        return [f2p(rng.choice([-1, 1]) * 10 ** rng.uniform(-300, 300)) for _ in range(n)]
    out = []                                  # mixed
    for i in range(n):
        r = rng.random()
        out.append(rng.choice(SPECIAL) if r < 0.3 else rng.getrandbits(64) if r < 0.5
                   else f2p(rng.uniform(-100, 100)))
    return out


FLOAT_DISTS = ['special', 'randbits', 'const', 'zeros', 'smooth', 'wide', 'mixed', 'mixed']


def int_range(dtype, big=False):
    info = np.iinfo(dtype)
    lo, hi = int(info.min), int(info.max)
    if dtype == 'uint64' and not big:
        hi = 2 ** 63 - 1
    return lo, hi


def gen_int_values(rng, n, dtype, big=False):
    lo, hi = int_range(dtype, big)
    mode = rng.choice(['full', 'small', 'extreme', 'const'])
    if big:
        return [rng.randrange(2 ** 63, 2 ** 64) for _ in range(n)]
    if mode == 'full':
        return [rng.randint(lo, hi) for _ in range(n)]
    if mode == 'small':
        return [max(lo, min(hi, rng.randint(-3, 3))) for _ in range(n)]
    if mode == 'extreme':
        return [rng.choice([lo, hi, 0, max(lo, -1), 1, hi - 1, lo + 1]) for _ in range(n)]
    c = rng.randint(lo, hi)
    return [c] * n


def gen_derivs(rng, cls, shape, numer, pmask, nder, dist=None, finite=False):
    out = []
    keys = rng.sample(KEYS, nder)
    n = prod(shape)
    for key in keys:
        denom = rng.choice([(), (), (2,), (3,), (2, 2)])
        isz = prod(numer) * prod(denom)
        if finite:
            vals = [f2p(rng.uniform(-10, 10)) for _ in range(n * isz)]
        else:
            vals = gen_float_patterns(rng, n * isz, dist or rng.choice(FLOAT_DISTS))
        out.append({'key': key, 'denom': list(denom), 'vals': vals,
                    'mask': rng.choice(['same', 'same', 'none'])})
    return out


def gen_object(rng, shape=None, cls=None, kind=None, pattern=None, dist=None, nder=None, dtype=None,
               numer=None, denom=None, big=False):
    cls = cls or rng.choice(CLS)
    info = CLSINFO[cls]
    kind = kind if kind in info['kinds'] else rng.choice(info['kinds'])
    numer = tuple(numer) if numer is not None else rng.choice(info['numers'])
    if denom is None:
        denom = rng.choice([(), (), (), (2,)]) if (info['derivs'] and kind == 'float') else ()
    denom = tuple(denom)
    if shape is None:
        shape = rng.choice(SMALL_SHAPES)
    shape = tuple(shape)
    isz = prod(numer) * prod(denom)
    n = prod(shape)
    if kind == 'float':
        dtype = 'float64'
        vals = gen_float_patterns(rng, n * isz, dist or rng.choice(FLOAT_DISTS))
    elif kind == 'int':
        dtype = dtype or rng.choice(INT_DTYPES)
        vals = gen_int_values(rng, n * isz, dtype, big)
    else:
        dtype = 'bool'
        vals = [rng.randrange(2) for _ in range(n * isz)]
    mask = gen_mask(rng, shape, pattern or rng.choice(MASK_PATTERNS))
    if nder is None:
        nder = rng.choice([0, 0, 1, 2]) if info['derivs'] else 0
    if not info['derivs']:
        nder = 0
    derivs = gen_derivs(rng, cls, shape, numer, mask, nder)
    return {'mode': 'default', 'cls': cls, 'shape': list(shape), 'numer': list(numer), 'denom': list(denom),
            'dtype': dtype, 'vals': vals, 'mask': mask,
            'units': rng.choice(UNITS) if info['units'] and rng.random() < 0.4 else None,
            'readonly': rng.random() < 0.3, 'derivs': derivs, 'digits': None}


SMALL_SHAPES = [(), (), (1,), (3,), (7,), (2, 3), (3, 4), (4, 1, 3), (0,), (2, 0), (0, 3), (2, 3, 2, 2, 3),
                (2, 2, 2, 2, 2, 2), (1, 1), (5, 5)]
BIG_SHAPES = [(199,), (200,), (201,), (10, 20), (10, 21), (15, 15), (3, 2, 2, 2, 3, 3), (2, 3, 4, 3, 3),
              (67,), (66,), (50,), (51,), (101,), (25,), (26,), (300,), (2, 3, 2, 2, 3, 3)]


def cutoff_case(rng, over, masked):
    """An object whose antimasked value count sits just below / at / above the 200 cutoff."""
    cls = rng.choice(['Scalar', 'Scalar', 'Vector3', 'Pair', 'Matrix3', 'Quaternion', 'Vector'])
    info = CLSINFO[cls]
    numer = rng.choice(info['numers'])
    isz = prod(numer)
    nkeep = CUTOFF // isz + (1 if over else 0)          # nkeep*isz <= 200 < (nkeep+1)*isz
    if not over and rng.random() < 0.3:
        nkeep -= 1
    extra = rng.choice([1, 5, 40]) if masked else 0
    n = nkeep + extra
    shape = (n,)
    if n % 2 == 0 and rng.random() < 0.5:
        shape = (n // 2, 2)
    elif n % 3 == 0 and rng.random() < 0.5:
        shape = (n // 3, 3)
    c = gen_object(rng, shape=shape, cls=cls, kind='float', pattern='F', numer=numer, denom=())
    if masked:
        m = [False] * n
        for i in rng.sample(range(n), extra):
            m[i] = True
        c['mask'] = m
        for d in c['derivs']:
            pass
    c['tag'] = 'cutoff'
    return c


def exhaustive_mask_cases(tier):
    """Every mask over a few small shapes (the mask codec incl. corner cropping)."""
    shapes = [(1,), (2,), (3,), (4,), (2, 2), (2, 3), (3, 2), (2, 2, 2)] if tier == 'quick' else \
             [(1,), (2,), (3,), (4,), (5,), (6,), (7,), (8,), (2, 2), (2, 3), (3, 2), (2, 4), (3, 3), (2, 2, 2),
              (2, 2, 3), (3, 2, 2), (2, 1, 2, 1, 2), (1, 10), (11, 1), (9,), (2, 5), (3, 4), (4, 3), (2, 3, 2)]
    out = []
    for shp in shapes:
        n = prod(shp)
        for bits in itertools.product([False, True], repeat=n):
            kind = ('float', 'int', 'bool')[(sum(bits) + n) % 3]
            cls = {'float': 'Scalar', 'int': 'Scalar', 'bool': 'Boolean'}[kind]
            vals = list(range(1, n + 1))
            if kind == 'float':
                vals = [f2p(float(v) + 0.5) for v in vals]
            elif kind == 'bool':
                vals = [v % 2 for v in vals]
            out.append({'mode': 'default', 'cls': cls, 'shape': list(shp), 'numer': [], 'denom': [],
                        'dtype': {'float': 'float64', 'int': 'int16', 'bool': 'bool'}[kind], 'vals': vals,
                        'mask': list(bits), 'units': None, 'readonly': False, 'derivs': [], 'digits': None,
                        'tag': 'exh'})
    return out


DIGITS = ['double', 'single', 3, 6.5, 6.92, 7, 8, 9.5, 10, 12, 14, 15, 15.65, 16, 20]
NUM_DIGITS_EXTRA = [1, 2, 4, 5]
REFS = ['fpzip', 'smallest', 'largest', 'mean', 'median', 'logmean', 1.0, 1e-3, 50., 1e3]
LOSSY_DISTS = ['unit', 'pos', 'sym', 'wide', 'zeros_some', 'const', 'offset', 'spikes']


def gen_finite(rng, n, dist):
    if dist == 'unit':
        v = [rng.random() for _ in range(n)]
    elif dist == 'pos':
        v = [rng.uniform(1, 100) for _ in range(n)]
    elif dist == 'sym':
        v = [rng.uniform(-1, 1) for _ in range(n)]
    elif dist == 'wide':
        v = [rng.choice([-1, 1]) * 10 ** rng.uniform(-3, 3) for _ in range(n)]
    elif dist == 'zeros_some':
        v = [0.0 if rng.random() < 0.2 else rng.uniform(-5, 5) for _ in range(n)]
    elif dist == 'const':
        v = [rng.uniform(-5, 5)] * n
    elif dist == 'offset':
        v = [1e6 + rng.random() for _ in range(n)]
    else:
        v = [rng.uniform(1, 2) * (1000. if rng.random() < 0.02 else 1.) for _ in range(n)]
    return [f2p(x) for x in v]


def lossy_case(rng):
    cls = rng.choice(['Scalar', 'Scalar', 'Scalar', 'Vector3', 'Pair', 'Matrix3', 'Vector'])
    info = CLSINFO[cls]
    numer = rng.choice(info['numers'])
    isz = prod(numer)
    shape = rng.choice([(300,), (15, 20), (250,), (6, 5, 10), (150,), (2, 3, 2, 2, 3, 3), (2, 150), (90,)])
    n = prod(shape)
    pattern = rng.choice(['F', 'F', 'mix', 'box', 'aF'])
    mask = gen_mask(rng, shape, pattern)
    if isz > 1 and rng.random() < 0.6:        # components with very different ranges (per-item encoding)
        cols = [gen_finite(rng, n, rng.choice(LOSSY_DISTS)) for _ in range(isz)]
        vals = [cols[j][i] for i in range(n) for j in range(isz)]
    else:
        vals = gen_finite(rng, n * isz, rng.choice(LOSSY_DISTS))
    nder = rng.choice([0, 0, 1])
    derivs = gen_derivs(rng, cls, shape, numer, mask, nder, finite=True)
    ref = rng.choice(REFS)
    dig = rng.choice(DIGITS + (NUM_DIGITS_EXTRA if isinstance(ref, float) else []))
    digits_first = False
    r2 = rng.random()
    if r2 < 0.12:
        # pairs of different kinds: a string reference for the object, a number for the derivatives (or the
        # reverse), digits beyond double precision on the numeric side
        nder = 1
        derivs = gen_derivs(rng, cls, shape, numer, mask, nder, finite=True)
        sref, nref = rng.choice(['fpzip', 'largest', 'mean']), rng.choice([1.0, 1e-3, 50.])
        hi = rng.choice([16, 17, 18, 20])
        if rng.random() < 0.6:
            digits = [[rng.choice([7, 9.5, 'double']), hi], [sref, nref]]
            # derivative values far below the reference: the absolute precision asked for is finer than
            # 15.65 significant digits of the reference but coarser than the spacing of the values
            for dd in derivs:
                dd['vals'] = [f2p(p2f(v) * 1e-7 * nref) for v in dd['vals']]
        else:
            digits = [[hi, rng.choice([7, 9.5, 12])], [nref, sref]]
            vals = [f2p(p2f(v) * 1e-7 * nref) for v in vals]
    elif r2 < 0.35:
        ref2 = rng.choice(REFS)
        dig2 = rng.choice(DIGITS)
        digits = [[dig, dig2], [ref, ref2]]
    else:
        digits = [dig, ref]
    if rng.random() < 0.12:
        # object less precise than its derivatives, which are attached after set_pickle_digits
        nder = 1
        derivs = gen_derivs(rng, cls, shape, numer, mask, nder, finite=True)
        digits = [[rng.choice([6, 8, 'single']), 'double'], ['fpzip', 'fpzip']]
        digits_first = True
    return {'digits_first': digits_first, 'mode': 'lossy', 'cls': cls, 'shape': list(shape), 'numer': list(numer), 'denom': [],
            'dtype': 'float64', 'vals': vals, 'mask': mask, 'units': None,
            'readonly': rng.random() < 0.2, 'derivs': derivs, 'digits': digits}


def corpus(rng):
    """Targeted cases that every run contains."""
    out = []
    # both sides of the cutoff, with and without antimask
    for over in (False, True):
        for masked in (False, True):
            for _ in range(3):
                out.append(cutoff_case(rng, over, masked))
    # sizes 199/200/201 of every kind
    for n in (199, 200, 201):
        out.append(gen_object(rng, shape=(n,), cls='Scalar', kind='float', pattern='F', dist='randbits', nder=1))
        out.append(gen_object(rng, shape=(n,), cls='Scalar', kind='float', pattern='mix', dist='special', nder=1))
        out.append(gen_object(rng, shape=(n,), cls='Scalar', kind='int', pattern='mix', nder=0))
        out.append(gen_object(rng, shape=(n,), cls='Boolean', kind='bool', pattern='box'))
    # every int dtype, masked and not
    for dt in INT_DTYPES:
        for pat in ('F', 'mix', 'box', 'T'):
            out.append(gen_object(rng, shape=(3, 4), cls=rng.choice(['Scalar', 'Vector', 'Pair']), kind='int',
                                  pattern=pat, dtype=dt))
    # every class, shapeless and not, all mask patterns
    for cls in CLS:
        for shp in [(), (4,), (2, 3, 2, 2, 3)]:
            for pat in ('F', 'T', 'box', 'single_unmasked', 'aT', 'aF'):
                out.append(gen_object(rng, shape=shp, cls=cls, pattern=pat))
    # more than 4 axes above the cutoff (fpzip reshapes to 4 axes)
    for pat in ('F', 'box', 'mix'):
        out.append(gen_object(rng, shape=(3, 2, 2, 2, 3, 3), cls='Scalar', kind='float', pattern=pat, dist='mixed'))
        out.append(gen_object(rng, shape=(2, 3, 2, 2, 3, 3), cls='Vector3', kind='float', pattern=pat, dist='smooth'))
    # special values above the cutoff (fpzip lossless) incl. NaN payloads
    for dist in ('special', 'randbits', 'zeros', 'const', 'wide'):
        out.append(gen_object(rng, shape=(15, 15), cls='Scalar', kind='float', pattern='F', dist=dist, nder=1))
        out.append(gen_object(rng, shape=(15, 15), cls='Scalar', kind='float', pattern='mix', dist=dist, nder=2))
    for c in out:
        c.setdefault('tag', 'corpus')
    # uint64 values beyond the int64 range (direct oracle only)
    for pat in ('F', 'mix'):
        c = gen_object(rng, shape=(5,), cls='Scalar', kind='int', pattern=pat, dtype='uint64', big=True, nder=0)
        if pat == 'mix':
            c['mask'] = [False, True, False, False, True]
        c['tag'] = 'bigu64'
        out.append(c)
    return out


def gen_cases(rng, tier):
    cases = corpus(rng)
    cases += exhaustive_mask_cases(tier)
    nsmall, nbig, nlossy = (2000, 150, 400) if tier == 'quick' else (20000, 1800, 6000)
    for _ in range(nsmall):
        cases.append(gen_object(rng))
    for _ in range(nbig):
        r = rng.random()
        if r < 0.4:
            cases.append(cutoff_case(rng, rng.random() < 0.5, rng.random() < 0.6))
        else:
            cases.append(gen_object(rng, shape=rng.choice(BIG_SHAPES)))
    for _ in range(nlossy):
        cases.append(lossy_case(rng))
    # every digits x reference option once on a fixed array (scalars and per-item)
    for dig in DIGITS + NUM_DIGITS_EXTRA:
        for ref in REFS:
            if dig in NUM_DIGITS_EXTRA and not isinstance(ref, float):
                continue
            c = lossy_case(rng)
            c['digits'] = [dig, ref]
            cases.append(c)
    for c in cases:
        if c.get('shape') and not isinstance(c.get('mask'), bool) and 'hist' not in c and rng.random() < 0.2:
            c['hist'] = rng.randrange(1, 5000)
        elif c.get('shape') and 'layout' not in c and rng.random() < 0.3:
            c['layout'] = rng.choice(['F', 'strided', 'reversed', 'swapped'])
    return cases


# ---------------------------------------------------------------------------
# building the object
# ---------------------------------------------------------------------------
def np_values(vals, dtype, full_shape):
    if dtype == 'float64':
        return np.array(vals, dtype='uint64').view('float64').reshape(full_shape)
    if dtype == 'bool':
        return np.array(vals, dtype='bool').reshape(full_shape)
    return np.array(vals, dtype=dtype).reshape(full_shape)


def get_units(Pm, name):
    if name is None:
        return None
    if name == 'KM/SEC':
        return Pm.Units.KM / Pm.Units.SEC
    return getattr(Pm.Units, name)


def build(c, Pm):
    cls = getattr(Pm, c['cls'])
    shape, numer, denom = tuple(c['shape']), tuple(c['numer']), tuple(c['denom'])
    full = shape + numer + denom
    arr = np_values(c['vals'], c['dtype'], full)
    m = c['mask']
    mask = m if isinstance(m, bool) else np.array(m, dtype=bool).reshape(shape)
    if full == ():
        arr = arr[()]
        arr = float(arr) if c['dtype'] == 'float64' else bool(arr) if c['dtype'] == 'bool' else arr
    kw = {}
    if denom:
        kw['drank'] = len(denom)
    if c['units']:
        kw['units'] = get_units(Pm, c['units'])
    lay = c.get('layout')
    if lay and isinstance(arr, np.ndarray) and arr.ndim >= 1 and arr.size:
        # the same numbers in an array that is not C-ordered, as earlier public calls leave them (from_scalars,
        # swap_axes, slicing with a step): seeded change C11-I wrote such arrays out in memory order
        if lay == 'F' and arr.ndim >= 2:
            arr = np.asfortranarray(arr)
        elif lay == 'strided':
            big = np.zeros(arr.shape[:-1] + (2 * arr.shape[-1],), dtype=arr.dtype)
            big[..., ::2] = arr
            arr = big[..., ::2]
        elif lay == 'reversed':
            arr = arr[::-1].copy()[::-1]
        elif lay == 'swapped' and arr.dtype.kind in 'iu' and arr.dtype.itemsize > 1:
            # integers in the byte order that is not the machine's (seeded change C11-L: the order was not recorded)
            arr = arr.astype(arr.dtype.newbyteorder('>' if arr.dtype.byteorder in ('=', '<', '|') else '<'))
    q = cls(arr, mask, **kw)
    if c['digits'] is not None and c.get('digits_first'):
        # the derivatives are attached AFTER set_pickle_digits: they carry no digits of their own and
        # must be pickled with the second entries of the parent's pairs
        dg, rf = c['digits']
        q.set_pickle_digits(tuple(dg) if isinstance(dg, list) else dg,
                            tuple(rf) if isinstance(rf, list) else rf)
    for d in c['derivs']:
        dden = tuple(d['denom'])
        darr = np_values(d['vals'], 'float64', shape + numer + dden)
        if shape + numer + dden == ():
            darr = float(darr[()])
        dmask = q._mask_ if d['mask'] == 'same' else False
        dq = cls(darr, dmask, drank=len(dden)) if dden else cls(darr, dmask)
        q.insert_deriv(d['key'], dq)
    if c.get('hist'):
        # the object gets its content through a history (cached views asked for, one element masked / unmasked and
        # assigned back): pickling reads antimask, corners and slicer from the cache (seeded change C11-E)
        q = hist.reach(Pm, q, 'setitem', c['hist'])
    if c['digits'] is not None and not c.get('digits_first'):
        dg, rf = c['digits']
        q.set_pickle_digits(tuple(dg) if isinstance(dg, list) else dg,
                            tuple(rf) if isinstance(rf, list) else rf)
    if c['readonly']:
        q.as_readonly()
    return q


# ---------------------------------------------------------------------------
# observation
# ---------------------------------------------------------------------------
def patterns(values, kind, nrows, isz):
    """values as rows of integers: float -> 64-bit patterns, int -> the integers, bool -> 0/1"""
    a = np.asarray(values)
    if kind == 'float':
        a = np.ascontiguousarray(a, dtype='float64').reshape(-1).view('uint64')
    elif kind == 'bool':
        a = np.ascontiguousarray(a).reshape(-1).astype('uint8')
    else:
        a = np.ascontiguousarray(a).reshape(-1)
    flat = [int(x) for x in a]
    if len(flat) != nrows * isz:
        return ('badsize', len(flat), nrows, isz)
    return [flat[i * isz:(i + 1) * isz] for i in range(nrows)]


def units_obs(u):
    if u is None:
        return None
    return (tuple(int(x) for x in u.exponents), tuple(u.triple))


def obs0(q):
    shape = tuple(q._shape_)
    n = prod(shape)
    isz = prod(q._numer_) * prod(q._denom_)
    kind = q.dtype()
    return {'cls': type(q).__name__, 'shape': [int(x) for x in shape], 'numer': [int(x) for x in q._numer_],
            'denom': [int(x) for x in q._denom_], 'kind': kind,
            'mask': [bool(x) for x in np.broadcast_to(q._mask_, shape).ravel()],
            'units': units_obs(q._units_), 'ro': bool(q._readonly_),
            'vals': patterns(q._values_, kind, n, isz),
            'default': patterns(q._default_, kind, 1, isz)[0],
            'vshape': list(np.shape(q._values_)), 'mshape': list(np.shape(q._mask_))}


def obs(q):
    o = obs0(q)
    o['derivs'] = {k: obs0(d) for k, d in q._derivs_.items()}
    o['dattrs'] = sorted(a[3:] for a in q.__dict__ if a.startswith('d_d'))
    return o


def snapshot(q):
    def arr(x):
        a = np.asarray(x)
        w = a.flags.writeable if isinstance(x, np.ndarray) else None
        return (type(x).__name__, str(a.dtype), a.shape, a.tobytes(), w, id(x) if isinstance(x, np.ndarray) else None)
    s = {'values': arr(q._values_), 'mask': arr(q._mask_), 'default': arr(q._default_),
         'units': (id(q._units_), units_obs(q._units_), None if q._units_ is None else str(q._units_.name)),
         'ro': q._readonly_, 'shape': (q._shape_, q._numer_, q._denom_, q._item_, q._rank_, q._nrank_, q._drank_),
         'cls': type(q).__name__, 'dkeys': list(q._derivs_.keys()),
         'dattrs': sorted(a for a in q.__dict__ if a.startswith('d_d'))}
    s['derivs'] = {k: (id(d), snapshot(d)) for k, d in q._derivs_.items()}
    return s


def attrs(q):
    return sorted(a for a in q.__dict__ if a != '_cache_')


VTAG = {'ALL_MASKED': 0, 'ANTIMASKED': 1, 'FLOAT': 2, 'INT': 3, 'BOOL': 4}
FMETH = {'literal': 1, 'float64': 2}


def path_of_state(st):
    """which encodings the implementation chose (compared with the model's choice)"""
    venc = [VTAG.get(e[0], 9) for e in st['VALS_ENCODING']]
    fm = 0
    intw = None
    for e in st['VALS_ENCODING']:
        if e[0] == 'FLOAT':
            fm = FMETH.get(st['_values_'][0], 7)
        if e[0] == 'INT':
            dt = np.dtype(e[2] if len(e) > 2 else 'int')
            intw = (dt.itemsize, dt.kind == 'i')
    corners = None
    mbool = None
    for e in st['MASK_ENCODING']:
        if e[0] == 'CORNERS':
            corners = ([int(x) for x in e[1][0]], [int(x) for x in e[1][1]])
        if e[0] == 'BOOL':
            mbool = ([int(x) for x in e[1]], int(e[2]))
    nenc = 0
    if fm == 1:
        nenc = int(np.size(st['_values_'][1]))
    return {'venc': venc, 'fm': fm, 'intw': intw, 'corners': corners, 'mbool': mbool,
            'fpz_ok': not (fm == 1 and nenc > CUTOFF)}


# ---------------------------------------------------------------------------
# re-decoding of every byte string with the real libraries (hypotheses of the theorems)
# ---------------------------------------------------------------------------
def ref_box(mask_arr):
    """tight bounding box of the unmasked elements, computed independently of polymath"""
    idx = np.argwhere(~mask_arr)
    return idx.min(axis=0), idx.max(axis=0) + 1


def validate_state(q0, st, pmask_sel=None):
    """returns list of problems; counts decoded strings in n[0]"""
    import fpzip
    problems = []
    ndec = 0
    mask = q0._mask_
    vals = q0._values_
    if isinstance(vals, np.ndarray):
        shape = tuple(q0._shape_)
        marr = np.broadcast_to(mask, shape)
        if pmask_sel is not None:               # derivative pickled through the parent's antimask
            expect = vals[pmask_sel]
            if isinstance(st['_mask_'], (bool, np.bool_)) and st['_mask_'] is not False and st['_mask_']:
                problems.append('deriv-mask-not-false')
        elif np.all(mask):
            expect = None
            if st['_mask_'] is not True or st['_values_'] is not None:
                problems.append('all-masked-state')
        elif not np.any(mask) or not isinstance(mask, np.ndarray):
            expect = vals
            if st['_mask_'] is not False:
                problems.append('unmasked-state')
        else:
            expect = vals[~marr]
            lo, hi = ref_box(marr)
            sl = tuple(slice(a, b) for a, b in zip(lo, hi))
            cropped = marr[sl]
            try:
                raw = bz2.decompress(st['_mask_'])
                ndec += 1
                if raw != np.packbits(np.ascontiguousarray(cropped)).tobytes():
                    problems.append('mask-bytes')
                un = np.unpackbits(np.frombuffer(raw, dtype='uint8')).astype(bool)[:cropped.size]
                if not (un.reshape(cropped.shape) == cropped).all():
                    problems.append('mask-unpack')
            except Exception as e:                  # noqa
                problems.append('mask-decode-' + type(e).__name__)
        if expect is not None:
            enc = st['_values_']
            kind = q0.dtype()
            try:
                if kind == 'float':
                    e64 = np.ascontiguousarray(expect, dtype='float64')
                    if enc[0] == 'literal':
                        got = np.ascontiguousarray(enc[1])
                    elif enc[0] == 'float64' and enc[2] == 0:
                        got = fpzip.decompress(enc[3]).astype('float64').reshape(enc[1])
                        ndec += 1
                    else:
                        got = None
                    if got is not None and (got.shape != e64.shape or
                                            got.reshape(-1).view('uint64').tolist() != e64.reshape(-1).view('uint64').tolist()):
                        problems.append('float-bytes-' + enc[0])
                elif kind == 'int':
                    raw = bz2.decompress(enc)
                    ndec += 1
                    if raw != np.ascontiguousarray(expect).tobytes():
                        problems.append('int-bytes')
                else:
                    raw = bz2.decompress(enc)
                    ndec += 1
                    if raw != np.packbits(np.ascontiguousarray(expect)).tobytes():
                        problems.append('bool-bytes')
            except Exception as e:                  # noqa
                problems.append('values-decode-' + type(e).__name__)
    return problems, ndec


# ---------------------------------------------------------------------------
# direct oracle
# ---------------------------------------------------------------------------
SINGLE_DIGITS = math.log10(2 ** 23)
DOUBLE_DIGITS = math.log10(2 ** 52)


def lossy_bound(orig_rows, unmasked, digits, ref, isz):
    """per element absolute error allowed, as the documentation of set_pickle_digits states it.
    orig_rows: float array (n, isz); unmasked: bool (n,). Returns array (n, isz) of bounds."""
    sel = orig_rows[unmasked]
    bound = np.zeros(orig_rows.shape)
    if sel.size <= CUTOFF or digits == 'double':
        return bound
    maxabs = np.abs(sel).max() if sel.size else 0.
    slack = 4 * np.spacing(maxabs)
    if digits == 'single':
        return np.abs(orig_rows) * 2. ** -23 + 1e-300
    # digits are truncated to what double precision supports only when they are RELATIVE to the data; with a
    # numeric reference the precision asked for is reference * 10**-digits as given (seeded change C11-F)
    d = float(digits) if isinstance(ref, float) else min(float(digits), DOUBLE_DIGITS)
    if ref == 'fpzip':
        return np.abs(orig_rows) * 10. ** -d * (1 + 1e-9) + 1e-300
    for j in range(isz):
        col = sel[:, j] if isz > 1 else sel.reshape(-1)
        if isinstance(ref, float):
            r = ref
        else:
            nz = np.abs(col[col != 0.])
            if nz.size == 0 or col.max() == col.min():
                r = 0.
            elif ref == 'smallest':
                r = nz.min()
            elif ref == 'largest':
                r = nz.max()
            elif ref == 'mean':
                r = nz.mean()
            elif ref == 'median':
                r = np.median(nz)
            else:
                r = np.exp(np.mean(np.log(nz)))
        if col.size and col.max() == col.min():
            b = 0.
        else:
            b = r * 10. ** -d * (1 + 1e-9) + slack
        if isz > 1:
            bound[:, j] = b
        else:
            bound[...] = b
    return bound


def rows_as_float(rows):
    return np.array(rows, dtype='uint64').view('float64').reshape(len(rows), -1) if rows else np.zeros((0, 1))


def compare(O, R, case, lossy=None):
    """list of (what, detail): where the restored object departs from the property"""
    bad = []
    for f in ('cls', 'shape', 'numer', 'denom', 'kind', 'units', 'ro'):
        if O[f] != R[f]:
            bad.append((f, (O[f], R[f])))
    if O['mask'] != R['mask']:
        bad.append(('mask', None))

    def arrays_ok(o):       # the values array has shape + numer + denom, the mask is one bool or has the shape
        return o['vshape'] == o['shape'] + o['numer'] + o['denom'] and o['mshape'] in ([], o['shape'])
    if not arrays_ok(R):
        bad.append(('array_shape', (R['vshape'], R['mshape'], R['shape'], R['numer'], R['denom'])))
    for k in sorted(R['derivs']):
        if not arrays_ok(R['derivs'][k]):
            bad.append(('deriv_array_shape', (k, R['derivs'][k]['vshape'], R['derivs'][k]['mshape'])))
    if sorted(O['derivs']) != sorted(R['derivs']) or R['dattrs'] != sorted(R['derivs']):
        bad.append(('deriv_keys', (sorted(O['derivs']), sorted(R['derivs']), R['dattrs'])))
    if bad:
        return bad
    n = len(O['mask'])
    isz = max(1, len(O['default']))

    def cmp_vals(ov, rv, default, pm, om, what, dig):
        if not isinstance(rv, list) or not isinstance(ov, list) or len(rv) != len(ov):
            bad.append((what + '_shape', str(rv)[:80]))
            return
        if dig is None:
            for i in range(n):
                if pm[i]:
                    if default is not None and rv[i] != default:
                        bad.append((what + '_masked_default', (i, rv[i], default)))
                        return
                elif not om[i]:
                    if rv[i] != ov[i]:
                        bad.append((what + '_value', (i, ov[i], rv[i])))
                        return
        else:
            of, rf = rows_as_float(ov), rows_as_float(rv)
            um = ~(np.array(pm, bool) | np.array(om, bool))
            bnd = lossy_bound(of, um, dig[0], dig[1], of.shape[1])
            err = np.abs(rf - of)
            err[np.isnan(err)] = np.inf
            viol = (err > bnd) & um[:, None]
            if viol.any():
                i, j = np.argwhere(viol)[0]
                bad.append((what + '_digits', (int(i), float(of[i, j]), float(rf[i, j]), float(bnd[i, j]))))
            if default is not None:
                for i in range(n):
                    if pm[i] and rv[i] != default:
                        bad.append((what + '_masked_default', (i, rv[i], default)))
                        return

    dg = rf = None
    if lossy is not None and O['kind'] == 'float':
        dg, rf = lossy
    nomask = [False] * n
    main_dig = None if dg is None else ((dg[0], rf[0]) if isinstance(dg, list) else (dg, rf))
    der_dig = None if dg is None else ((dg[1], rf[1]) if isinstance(dg, list) else (dg, rf))
    # a single Python value is pickled unchanged ("For a single value, nothing changes"): its hidden value
    # under a True mask is not replaced by the default; the masked-default clause is about value arrays
    cmp_vals(O['vals'], R['vals'], O['default'] if O['vshape'] or R['vshape'] else None, O['mask'], nomask,
             'main', main_dig)
    for k in O['derivs']:
        od, rd = O['derivs'][k], R['derivs'][k]
        for f in ('cls', 'shape', 'numer', 'denom', 'ro'):
            if od[f] != rd[f]:
                bad.append(('deriv_' + f, (k, od[f], rd[f])))
        if rd['kind'] != 'float':
            bad.append(('deriv_kind', (k, rd['kind'])))
        if od['shape'] == rd['shape'] and od['denom'] == rd['denom']:
            cmp_vals(od['vals'], rd['vals'], None, O['mask'], od['mask'], 'deriv', der_dig)
    return bad


# ---------------------------------------------------------------------------
# Coq terms
# ---------------------------------------------------------------------------
class Intern(object):
    """Float values are opaque to the model (it never inspects them), so for large cases the 64-bit
    patterns are replaced, consistently over input and observed output of one case, by small
    integers (an injective renaming): Coq parses a 20-digit literal in ~1.5 ms. Small cases keep
    the true patterns. Integer and boolean values are never renamed."""
    def __init__(self, active):
        self.active = active
        self.ids = {}

    def z(self, v, kind):
        if not self.active or kind != 'float':
            return cZ(v)
        if v not in self.ids:
            self.ids[v] = len(self.ids)
        return cZ(self.ids[v])


def coq_rows(rows, it=None, kind='int'):
    if it is None:
        return clist([clist([cZ(v) for v in r], 'Z') for r in rows], '(list Z)')
    return clist([clist([it.z(v, kind) for v in r], 'Z') for r in rows], '(list Z)')


def coq_maskL(q):
    m = q._mask_
    if isinstance(m, (bool, np.bool_)):
        return '(LS %s)' % cbool(bool(m))
    return '(LA %s)' % clist([cbool(x) for x in np.broadcast_to(m, q._shape_).ravel()], 'bool')


def coq_kind(q):
    k = q.dtype()
    if k == 'float':
        return 'KFloat'
    if k == 'bool':
        return 'KBool'
    v = q._values_
    if isinstance(v, np.ndarray):
        return '(KInt %s %s)' % (cnat(v.dtype.itemsize), cbool(v.dtype.kind == 'i'))
    return '(KInt 8%nat true)'


def units_tag(u):
    if u is None:
        return 0
    for i, nm in enumerate(UNITS):
        if nm is not None and _UNITS_OBS.get(nm) == u:
            return i
    return 99


_UNITS_OBS = {}


def coq_q0(q, o, fpz_ok=True, it=None):
    return '(mkq0 %s %s %s %s %s %s %s %s %s %s %s %s)' % (
        cnat(CLS.index(o['cls'])), cshape(o['shape']), cshape(o['numer']), cshape(o['denom']), coq_kind(q),
        cbool(not isinstance(q._values_, np.ndarray)), coq_rows(o['vals'], it, o['kind']), coq_maskL(q),
        coq_rows([o['default']], it, o['kind'])[1:-1], cnat(units_tag(o['units'])), cbool(o['ro']), cbool(fpz_ok))


def coq_case(q, O, st, it=None):
    ders = ['(%s, %s)' % (cnat(KEYS.index(k)),
                          coq_q0(d, O['derivs'][k], path_of_state(st['_derivs_'][k][1])['fpz_ok'], it))
            for k, d in q._derivs_.items()]
    return '(mkqube %s %s)' % (coq_q0(q, O, path_of_state(st)['fpz_ok'], it), clist(ders, '(nat * q0)'))


KINDTAG = {'float': 0, 'int': 1, 'bool': 2}


def coq_obs0(o, path, it=None):
    intw = copt(None, '(nat * bool)') if path['intw'] is None else \
        '(Some (%s, %s))' % (cnat(path['intw'][0]), cbool(path['intw'][1]))
    corners = copt(None, '(list nat * list nat)') if path['corners'] is None else \
        '(Some (%s, %s))' % (cshape(path['corners'][0]), cshape(path['corners'][1]))
    mbool = copt(None, '(list nat * nat)') if path['mbool'] is None else \
        '(Some (%s, %s))' % (cshape(path['mbool'][0]), cnat(path['mbool'][1]))
    return '(mko0 %s %s %s %s %s %s %s %s %s %s %s %s %s %s)' % (
        cnat(CLS.index(o['cls']) if o['cls'] in CLS else 99), cshape(o['shape']), cshape(o['numer']),
        cshape(o['denom']), cnat(KINDTAG[o['kind']]), clist([cbool(x) for x in o['mask']], 'bool'),
        cnat(units_tag(o['units'])), cbool(o['ro']), coq_rows(o['vals'], it, o['kind']),
        clist([cnat(x) for x in path['venc']], 'nat'), cnat(path['fm']), intw, corners, mbool)


def coq_obs(R, st, it=None):
    ders = []
    for k, d in R['derivs'].items():
        dst = st['_derivs_'][k][1]
        ders.append('(%s, %s)' % (cnat(KEYS.index(k)), coq_obs0(d, path_of_state(dst), it)))
    return '(mkobs %s %s)' % (coq_obs0(R, path_of_state(st), it), clist(ders, '(nat * obs0)'))


# ---------------------------------------------------------------------------
# one case
# ---------------------------------------------------------------------------
def run_case(c, Pm, want_coq=True):
    res = {'coq': None, 'bad': [], 'ndec': 0, 'path': None, 'gained': False}
    with warnings.catch_warnings():
        warnings.simplefilter('ignore')
        try:
            q = build(c, Pm)
        except Exception as e:      # noqa
            res['bad'].append(('build_exception', lib.exc_family(e)))
            res['exc'] = lib.exc_family(e)
            return res
        O = obs(q)
        a0 = attrs(q)
        s0 = snapshot(q)
        try:
            data = pickle.dumps(q)
            s1 = snapshot(q)
            a1 = attrs(q)
            k = pickle.loads(data)
            s2 = snapshot(q)
        except Exception as e:      # noqa
            res['bad'].append(('exception', lib.exc_family(e)))
            res['exc'] = lib.exc_family(e)
            return res
        if s0 != s1 or s0 != s2:
            diff = [f for f in s0 if s0[f] != s1[f] or s0[f] != s2[f]]
            res['bad'].append(('purity', diff))
        res['gained'] = a0 != a1
        try:
            R = obs(k)
        except Exception as e:      # noqa
            res['bad'].append(('restored_unobservable', lib.exc_family(e)))
            res['exc'] = lib.exc_family(e)
            return res
        res['O'], res['R'] = O, R
        st = q.__getstate__()
        res['path'] = path_of_state(st)
        if s0 != snapshot(q):
            res['bad'].append(('purity', ['getstate']))
        res['bad'] += compare(O, R, c, c['digits'] if c['mode'] == 'lossy' else None)
        if c['mode'] == 'lossy':
            res['f32_string_ref'] = float32_with_string_ref(st, c['digits'])
        # hypotheses about the external compressors, on this run's byte strings
        if c['mode'] == 'default':
            probs, nd = validate_state(q, st)
            marr = np.broadcast_to(q._mask_, q._shape_)
            through = isinstance(q._values_, np.ndarray) and isinstance(q._mask_, np.ndarray) and \
                bool(np.any(q._mask_)) and not bool(np.all(q._mask_))
            for key, d in q._derivs_.items():
                p2, n2 = validate_state(d, st['_derivs_'][key][1], (~marr) if through else None)
                probs += ['deriv-' + x for x in p2]
                nd += n2
            res['ndec'] = nd
            for p in probs:
                res['bad'].append(('codec', p))
        if want_coq and c['mode'] == 'default' and c.get('tag') != 'bigu64':
            nfloat = (len(c['vals']) if c['dtype'] == 'float64' else 0) + sum(len(d['vals']) for d in c['derivs'])
            it = Intern(nfloat > 64)
            res['interned'] = it.active
            res['coq'] = '(%s, %s)' % (coq_case(q, O, st, it), coq_obs(R, st, it))
    return res


def float32_with_string_ref(st, digits):
    """True if some array of this pickled state was stored as float32 although a reference other than
    'fpzip' / a number was requested with numeric digits (the documented absolute accuracy is then not kept)"""
    dg, rf = digits
    pairs = [(dg[0], rf[0]), (dg[1], rf[1])] if isinstance(dg, list) else [(dg, rf), (dg, rf)]

    def walk(enc, pair):
        if not isinstance(enc, tuple) or not enc:
            return False
        if enc[0] == 'items':
            return any(walk(e, pair) for e in enc[3])
        return enc[0] == 'float32' and pair[0] != 'single' and isinstance(pair[1], str) and pair[1] != 'fpzip'
    if walk(st.get('_values_'), pairs[0]):
        return True
    return any(walk(d[1].get('_values_'), pairs[1]) for d in st['_derivs_'].values())


def signature(c, bad, res=None):
    what, detail = bad
    sig = {'what': what, 'mode': c['mode'], 'cls': c['cls'], 'dtype': c['dtype'],
           'masked_array': isinstance(c['mask'], list) and any(c['mask']) and not all(c['mask']),
           'big_uint64': c.get('tag') == 'bigu64', 'leading_rank': len(c['shape']),
           'any_item': bool(c['numer'] or c['denom'] or any(d['denom'] for d in c['derivs'])),
           'float32_with_string_reference': bool(res and res.get('f32_string_ref'))}
    if what in ('exception', 'build_exception', 'restored_unobservable'):
        sig['exc'], sig['site'] = detail
    if what == 'codec':
        sig['codec'] = detail
    if c['mode'] == 'lossy':
        dg, rf = c['digits']
        sig['digits'] = str(dg)
        sig['reference'] = str(rf)
    return sig


def summary(c):
    d = {k: c[k] for k in ('mode', 'cls', 'shape', 'numer', 'denom', 'dtype', 'units', 'readonly', 'digits')}
    m = c['mask']
    d['mask'] = m if isinstance(m, bool) else '%d/%d masked' % (sum(m), len(m))
    d['derivs'] = [(x['key'], x['denom'], x['mask']) for x in c['derivs']]
    d['vals_hash'] = lib.case_hash([c['vals'], c['mask'], [x['vals'] for x in c['derivs']]])
    return d


def nontrivial(c):
    m = c['mask']
    return (isinstance(m, list) and any(m)) or m is True or bool(c['derivs']) or c['mode'] == 'lossy'


# ---- the 'scaled' codec against the premises and conclusions of C11_scaled_roundtrip (coq/theories/C11Real.v) ----
SCALED_REFS = ['smallest', 'largest', 'mean', 'median', 'logmean', 'num']


def scaled_case(rng):
    n = rng.choice([201, 202, 250, 333, 500, 1000])
    dist = rng.choice(['uniform', 'narrow', 'wide', 'signed', 'withzeros', 'twovalues'])
    r = np.random.RandomState(rng.randrange(2 ** 31))
    if dist == 'uniform':
        v = r.uniform(0., 10. ** rng.randint(-3, 6), n)
    elif dist == 'narrow':
        v = 10. ** rng.randint(-2, 5) + r.uniform(0., 10. ** rng.randint(-6, 0), n)
    elif dist == 'wide':
        v = 10. ** r.uniform(-4, 4, n)
    elif dist == 'signed':
        v = r.normal(0., 10. ** rng.randint(-2, 4), n)
    elif dist == 'withzeros':
        v = r.uniform(-5., 5., n) * (r.uniform(0, 1, n) < 0.7)
    else:
        v = r.choice([1.25, 7.5], n)
    ref = rng.choice(SCALED_REFS)
    refnum = 10. ** rng.randint(-3, 3) if ref == 'num' else None
    return {'kind': 'scaled', 'vals': [float(x).hex() for x in v], 'digits': rng.choice([1, 2, 3, 4, 5, 6, 7, 8, 9, 10, 11, 12, 13, 3.5, 6.92]),
            'ref': ref, 'refnum': refnum, 'dist': dist}


def scaled_check(c):
    """-> (path, problems). Calls pickler._encode_one_float_array / _decode_floats on one array and checks, when the
    'scaled' method was chosen, the premises of C11_scaled_roundtrip as the code computes them and its conclusions as
    the code delivers them."""
    import sys as _sys
    import bz2 as _bz2
    from polymath.extensions import pickler as pk
    v = np.array([float.fromhex(x) for x in c['vals']])
    ref = c['refnum'] if c['ref'] == 'num' else c['ref']
    digits = c['digits']
    enc = pk._encode_one_float_array(v.copy(), digits, ref)
    back = pk._decode_floats(enc)
    probs = []
    mn, mx = v.min(), v.max()
    span = mx - mn
    nz = np.abs(v[v != 0.])
    if c['ref'] == 'num':
        maxabs = max(-mn, mx)
        refval, d = maxabs, digits + np.log10(maxabs / ref)
    else:
        refval = {'smallest': nz.min, 'largest': nz.max, 'mean': nz.mean, 'median': lambda: np.median(nz),
                  'logmean': lambda: np.exp(np.mean(np.log(nz)))}[c['ref']]()
        d = digits
    prec = refval * 10. ** (-d)
    slack = 4 * np.spacing(max(abs(mn), abs(mx)))
    if back.shape != v.shape:
        return enc[0], ['decoded shape %s' % (back.shape,)]
    err = np.abs(back - v).max()
    if enc[0] != 'scaled':
        # whatever the method, the precision asked for is kept (float32 only when the digits allow it)
        lim = prec * (1 + 1e-9) + slack if enc[0] != 'float32' else max(prec, np.abs(v).max() * 2. ** -23) * (1 + 1e-9) + slack
        if err > lim:
            probs.append('method %s: error %.3e above the precision %.3e' % (enc[0], err, prec))
        return enc[0], probs
    (_, shape, dtype, n, inv_sf, offset, blob) = enc
    eps = _sys.float_info.epsilon
    W = 256. ** n
    if not (isinstance(n, int) and 1 <= n <= 6):
        probs.append('premise n <= 6: nbytes = %r' % (n,))
        return 'scaled', probs
    U = span / prec + 1
    if U > W * (1 + 1e-12):
        probs.append('premise span/prec + 1 <= 256^n: %.6e > 256^%d' % (U, n))
    want_n = -int(-(np.log(U) / np.log(256)) // 1)        # the formula of C11_scaled_nbytes, as the code writes it
    if n != want_n and abs(np.log(U) / np.log(256) - round(np.log(U) / np.log(256))) > 1e-9:
        probs.append('premise nbytes = ceil(ln U / ln 256): stored %d, formula %d' % (n, want_n))
    if n > 1 and U <= 256. ** (n - 1) * (1 - 1e-12):
        probs.append('nbytes not minimal: %.6e fits in %d bytes' % (U, n - 1))
    want_inv = span / (W * (1. - eps))
    if abs(inv_sf - want_inv) > 8 * np.spacing(want_inv):
        probs.append('premise scale: 1/scale_factor %r, model %r' % (inv_sf, want_inv))
    if abs(offset - (mn + 0.5 * want_inv)) > 8 * np.spacing(abs(mn) + want_inv):
        probs.append('premise offset: %r, model %r' % (offset, mn + 0.5 * want_inv))
    raw = np.frombuffer(_bz2.decompress(blob), dtype='uint8' if n in (3, 5) else dtype)
    per = {1: 1, 2: 1, 4: 1, 3: 3, 5: 5, 6: 3}[n]
    if raw.size != v.size * per:
        probs.append('stored %d integers for %d values' % (raw.size, v.size))
        return 'scaled', probs
    if per > 1:
        base = 256 if n in (3, 5) else 65536
        k = sum(raw.reshape(-1, per)[:, j].astype(object) * base ** j for j in range(per))
    else:
        k = raw.astype(object)
    k = np.array([int(x) for x in k], dtype=object)
    # model: k = floor(sf * (v - min)), exactly, on the rationals the floats denote
    from fractions import Fraction as _Fr
    sf = _Fr(256) ** n / _Fr(float(span)) * (1 - _Fr(eps))
    km = [int((sf * (_Fr(float(x)) - _Fr(float(mn)))).__floor__()) for x in v]
    if any(not (0 <= int(a) < 256 ** n) for a in k):
        probs.append('conclusion 0 <= k < 256^n fails')
    dk = max(abs(int(a) - b) for a, b in zip(k, km))
    if dk > 1:
        probs.append('integer codes differ from floor(sf*(v-min)) by %d' % dk)
    if err > 0.5 * inv_sf * (1 + 1e-9) + slack:
        probs.append('conclusion |decoded - v| <= half a step fails: %.6e > %.6e' % (err, 0.5 * inv_sf))
    if err > 0.5 * prec * (1 + 1e-9) + slack:
        probs.append('conclusion |decoded - v| <= precision / 2 fails: %.6e > %.6e' % (err, 0.5 * prec))
    return 'scaled', probs


def scaled_part(ctx):
    nscaled = 300 if ctx.tier == 'quick' else 4000
    fixed = []
    for ref in SCALED_REFS:            # deterministic core: every reference x digits that lead to 1..6 bytes
        for dg in (1, 3, 5, 8, 10, 12):
            v = np.linspace(1., 2., 256) ** 3
            fixed.append({'kind': 'scaled', 'vals': [float(x).hex() for x in v], 'digits': dg, 'ref': ref,
                          'refnum': 1. if ref == 'num' else None, 'dist': 'core'})
    for c in fixed + [scaled_case(ctx.rng) for _ in range(nscaled)]:
        try:
            path, probs = scaled_check(c)
        except Exception as e:      # noqa
            path, probs = 'exception', ['%s: %s' % (type(e).__name__, str(e)[:100])]
        ctx.note_case({'kind': 'scaled', 'n': len(c['vals']), 'digits': c['digits'], 'ref': c['ref'], 'dist': c['dist']}, True)
        ctx.count('scaled_codec:' + path)
        ctx.count('scaled_ref:' + c['ref'])
        for pr in probs:
            ctx.fail({'what': 'scaled-codec', 'problem': pr.split(':')[0][:60], 'ref': c['ref']}, c, {'problem': pr, 'path': path})
            break


def run(ctx):
    Pm = P()
    for nm in UNITS:
        if nm:
            _UNITS_OBS[nm] = units_obs(get_units(Pm, nm))
    ctx.rule = ('corpus aimed at every encoding threshold (antimasked value count 199/200/201 and item multiples, '
                '>4 axes, every int dtype, every class shapeless and not, special float patterns above and below the '
                'fpzip cutoff) + every mask over small shapes (exhaustive: %s) + seeded sample of objects '
                '(9 classes, 15 small/17 large shapes, 12 mask patterns incl. masked borders, 7 float value '
                'distributions as raw 64-bit patterns, 8 int dtypes, bool, units, read-only, 0-2 derivatives with '
                'denominators) + set_pickle_digits cases (15 digits x 10 references, tuples, per-item ranges; oracle '
                'only); non-trivial = has a masked element, a derivative, or lossy digits'
                % ('n<=4, 2x3, 2x2x2' if ctx.tier == 'quick' else 'n<=9, 3x4, 4x3, 2x3x2, 2x2x3, 3x3, 5 axes'))
    ctx.assumptions = [
        'values are float64 / int8..uint64 / bool arrays; float16/float32 input arrays are not generated',
        'uint64 values >= 2**63 are exercised by the direct oracle only (model integers are Z without wrap-around)',
        'derivative masks are the parent mask or False; a derivative value is compared where parent and derivative are unmasked',
        'the error bound of set_pickle_digits is checked by the oracle on finite values only (the statement promises '
        'special values only for the default settings); tolerance 4 ulp of the largest magnitude',
        'bz2 / fpzip / numpy.packbits are hypotheses of the theorems; every byte string of every pickled state of the '
        'run is decoded again with the real libraries and compared with an independent NumPy computation',
        'attributes _pickle_digits/_pickle_reference appearing on the ORIGINAL object would be counted '
        '(orig_gained_attrs) but are not part of obs',
    ]
    if ctx.ensure_library():
        ctx.prove(['theories/Props/C11.v'])
    scaled_part(ctx)
    cases = gen_cases(ctx.rng, ctx.tier)
    terms, idx, bad_cases = [], [], set()
    ndec = 0
    gained = 0
    ninterned = 0
    nviol = {}
    for i, c in enumerate(cases):
        res = run_case(c, Pm)
        ctx.note_case(summary(c), nontrivial(c))
        ctx.count('mode:' + c['mode'])
        ctx.count('cls:' + c['cls'])
        ctx.count('dtype:' + c['dtype'])
        ctx.count('tag:' + c.get('tag', 'sample'))
        if res['path']:
            ctx.count('venc:' + '+'.join(str(x) for x in res['path']['venc']) + '/fm%d' % res['path']['fm'])
            ctx.count('mask_enc:' + ('corners' if res['path']['corners'] else 'bool' if res['path']['mbool'] else 'none'))
        ndec += res['ndec']
        gained += 1 if res['gained'] else 0
        seen = set()
        for b in res['bad']:
            if b[0] in seen:
                continue
            seen.add(b[0])
            bad_cases.add(i)
            sig = signature(c, b, res)
            known = lib.finding_for(ctx.prop, sig, ctx.findings) is not None
            key = '%s/%s/%s/%s' % (sig['what'], sig.get('exc'), sig.get('site'), sig.get('codec'))
            if not known:
                nviol[key] = nviol.get(key, 0) + 1
            if known or nviol[key] <= 5:       # at most 5 replay files per kind of failure
                ctx.fail(sig, c, {'what': b[0], 'detail': b[1], 'path': res['path']})
        if res['coq'] is not None:
            terms.append(res['coq'])
            idx.append(i)
            ninterned += 1 if res.get('interned') else 0
    ctx.traces = len(terms)
    ctx.cov['byte_strings_redecoded_with_real_libraries'] = ndec
    ctx.cov['orig_gained_attrs'] = gained
    ctx.cov['failing_cases_by_kind'] = nviol
    ctx.cov['terms_with_renamed_float_patterns'] = ninterned
    order = sorted(range(len(terms)), key=lambda j: len(terms[j]))
    nsmall = sum(1 for t in terms if len(t) < 6000)
    groups = [('small', order[:nsmall], 150), ('big', order[nsmall:], 12)]
    mism = []
    for gname, members, per in groups:
        if not members:
            continue
        mm = ctx.coq_eval_shards(gname, HEADER, [terms[j] for j in members], lambda x: 'mismatches %s' % x,
                                 shard=per, timeout=1500)
        if mm is None:
            mism = None
            break
        mism += [members[j] for j in mm]
    if mism:
        unexplained = []
        for j in mism:
            if idx[j] in bad_cases:
                ctx.concrete_found.add('model-vs-impl')
            else:
                unexplained.append(j)
        if unexplained:
            j = unexplained[0]
            c = cases[idx[j]]
            shown = ctx.coq_show(HEADER, 'explain (fst %s) (snd %s)' % (terms[j], terms[j])) \
                if len(terms[j]) < 200000 else 'case too large to print'
            ctx.broken_tie('correspondence', 'model-vs-impl',
                           {'n_mismatch': len(unexplained), 'first_case': summary(c), 'case': c if len(str(c)) < 20000 else None,
                            'model_vs_impl_fields': shown})
    ctx.cov['correspondence_mismatches'] = len(mism or [])
    ctx.exhaustive = True
    return ctx.finish()


def replay(path):
    import json
    Pm = P()
    for nm in UNITS:
        if nm:
            _UNITS_OBS[nm] = units_obs(get_units(Pm, nm))
    d = json.load(open(path))
    if 'case' not in d or d['case'] is None:
        print(json.dumps(d, indent=1)[:4000])
        return 1
    c = d['case']
    if c.get('kind') == 'scaled':
        path, probs = scaled_check(c)
        print('scaled codec case:', {k: c[k] for k in ('digits', 'ref', 'refnum', 'dist')}, 'n =', len(c['vals']), 'method', path)
        for pr in probs:
            print('FAILS     :', pr)
        print('property holds on this case' if not probs else 'property FAILS on this case')
        return 1 if probs else 0
    res = run_case(c, Pm, want_coq=False)
    print('case      :', summary(c))
    print('path      :', res['path'])
    if 'O' in res:
        print('original  : mask', res['O']['mask'][:40], 'vals', res['O']['vals'][:8])
        print('restored  : mask', res['R']['mask'][:40], 'vals', res['R']['vals'][:8])
    for b in res['bad']:
        print('FAILS     :', b[0], str(b[1])[:400])
    print('property holds on this case' if not res['bad'] else 'property FAILS on this case')
    return 0 if not res['bad'] else 1
