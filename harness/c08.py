"""C08 - read-only objects cannot be changed through the public API.

Histories over a pool of objects: make / freeze / derive / mutate / direct array write /
non-mutating operation.  Direct oracle (the property itself): every object that is
read-only keeps its observable state for the rest of the history, every public mutator on
it raises ValueError, a frozen object's arrays refuse direct writes, objects derived from a
read-only object are read-only, pickling keeps the status, copy() is writable and
independent, and a non-mutating operation never fails because an operand is read-only.
Correspondence: the same histories (restricted to the model alphabet) on the Coq heap
machine of C08Model.v, compared step by step."""
import copy as _copy
import pickle
import warnings

import numpy as np

from . import lib
from .lib import cbool, cnat, cZ, clist

HEADER = 'From Coq Require Import List ZArith Bool.\nFrom PM Require Import C08Model.\nImport ListNotations.\n'


def P():
    lib.setup_impl_path()
    import polymath
    return polymath


# ---------------------------------------------------------------------------
# object pool and operations
# ---------------------------------------------------------------------------
MAKERS = ['scalar3', 'scalar3_m', 'scalar3_d', 'vector23', 'bool3', 'scalar0', 'pair3_d', 'matrix2', 'scalar0_zero',
           'scalar3_zero', 'vector0_zero']


def make(kind, Pm):
    A = np.array
    if kind == 'scalar3':
        return Pm.Scalar(A([1., 2., 3.]))
    if kind == 'scalar3_m':
        return Pm.Scalar(A([1., 2., 3.]), A([False, True, False]))
    if kind == 'scalar3_d':
        x = Pm.Scalar(A([1., 2., 3.]), A([False, False, True]))
        x.insert_deriv('t', Pm.Scalar(A([4., 5., 6.])))
        return x
    if kind == 'vector23':
        return Pm.Vector(np.arange(6.).reshape(2, 3), A([False, True]))
    if kind == 'bool3':
        return Pm.Boolean(A([True, False, True]), A([False, False, True]))
    if kind == 'scalar0':
        x = Pm.Scalar(2.5)
        x.insert_deriv('t', Pm.Scalar(1.5))
        return x
    if kind == 'pair3_d':
        x = Pm.Pair(np.arange(6.).reshape(3, 2))
        x.insert_deriv('t', Pm.Pair(np.ones((3, 2))))
        return x
    # values at the poles of the sanitised operations (division by it, clip, mask_where(replace=...)): a shapeless
    # read-only operand must not make them fail (seeded change C08-F)
    if kind == 'scalar0_zero':
        return Pm.Scalar(0.)
    if kind == 'scalar3_zero':
        return Pm.Scalar(A([0., 2., 0.]))
    if kind == 'vector0_zero':
        return Pm.Vector(A([0., 0., 0.]))
    if kind == 'matrix2':
        return Pm.Matrix(np.arange(8.).reshape(2, 2, 2) + 1., A([False, True]))
    raise ValueError(kind)


CONSTANTS = ['Scalar.ONE', 'Scalar.PI', 'Vector3.ZAXIS', 'Boolean.TRUE', 'Matrix3.IDENTITY', 'Pair.ZEROS',
             'Vector3.ONES', 'Quaternion.IDENTITY', 'Scalar.ZERO', 'Vector3.ZERO', 'Scalar.MASKED']

# how -> (function, shares storage with source, result must be read-only if source is)
DERIVE = {
    'slice': lambda x, Pm: x[0:2] if x.shape else x[...],
    'int': lambda x, Pm: x[0] if x.shape else x[...],
    'ellipsis': lambda x, Pm: x[...],
    'advanced': lambda x, Pm: x[np.array([0, 1])] if x.shape else x[...],
    'boolmask': lambda x, Pm: x[np.array([True, False] + [True] * (x.shape[0] - 2))] if x.shape and x.shape[0] >= 2 else x[...],
    'reshape': lambda x, Pm: x.reshape(x.shape + (1,)),
    'flatten': lambda x, Pm: x.flatten(),
    'swap': lambda x, Pm: x.reshape((1,) + x.shape).swap_axes(0, -1) if x.shape else x.reshape((1, 1)).swap_axes(0, 1),
    'roll': lambda x, Pm: x.reshape((1,) + x.shape).roll_axis(1 if x.shape else 0, 0),
    'move': lambda x, Pm: x.reshape((1,) + x.shape).move_axis(0, -1),
    'wod': lambda x, Pm: x.wod,
    'clone': lambda x, Pm: x.clone(),
    'broadcast': lambda x, Pm: x.broadcast_to((2,) + x.shape),
    'broadcast_nr': lambda x, Pm: x.broadcast_to((2,) + x.shape, recursive=False),
    'without_mask': lambda x, Pm: x.without_mask(),
    'to_scalar': lambda x, Pm: x.to_scalar(0) if x.numer else x.clone(),
    'transpose': lambda x, Pm: x.transpose_numer(0, 1) if len(x.numer) == 2 else x.clone(),
    'as_float': lambda x, Pm: x.as_float() if not x.is_bool() else x.clone(),
    'remask': lambda x, Pm: x.remask(x.mask),
    'deriv': lambda x, Pm: x.d_dt if 't' in x.derivs else x.clone(),
    'copy': lambda x, Pm: x.copy(),
    'copy_ro': lambda x, Pm: x.copy(readonly=True),
    'pickle': lambda x, Pm: pickle.loads(pickle.dumps(x)),
    'pycopy': lambda x, Pm: _copy.copy(x),
    # results of arithmetic are new writable objects, but they may share derivative objects or mask arrays with
    # their operands: mutating the result must never reach a read-only operand
    'add_num': lambda x, Pm: x + 1. if not x.is_bool() else x.clone(),
    'radd_obj': lambda x, Pm: Pm.Scalar(3.) + x if not x.numer and not x.is_bool() else x + x.wod if not x.is_bool() else x.clone(),
    'mul_one': lambda x, Pm: x * 1. if not x.is_bool() else x.clone(),
    'neg': lambda x, Pm: -x if not x.is_bool() else x.clone(),
    # item relabelings that also cast to another class: the read-only status has to survive the cast even when it is
    # carried by the object's flag alone (an array-indexed copy of a read-only object) - seeded change C08-L
    'as_column': lambda x, Pm: x.as_column() if len(x.numer) == 1 and hasattr(x, 'as_column') else x.clone(),
    'as_row': lambda x, Pm: x.as_row() if len(x.numer) == 1 and hasattr(x, 'as_row') else x.clone(),
    'reshape_numer_cast': lambda x, Pm: (x.reshape_numer((1,) + tuple(x.numer), classes=(Pm.Matrix,)) if len(x.numer) == 1
                                        else x.clone()),
    'flatten_numer_cast': lambda x, Pm: x.flatten_numer(classes=(Pm.Vector,)) if len(x.numer) == 2 else x.clone(),
    'swapxy': lambda x, Pm: x.swapxy() if type(x).__name__ == 'Pair' else x.clone(),
    'to_pair': lambda x, Pm: x.to_pair((0, 1)) if len(x.numer) == 1 and x.numer[0] >= 2 and hasattr(x, 'to_pair') else x.clone(),
}
FRESH = ('copy', 'pycopy')      # must be writable and independent
# results that share storage with the source (or must keep the status: pickle, copy_ro, deriv)
KEEPS_RO = ('slice', 'int', 'ellipsis', 'reshape', 'flatten', 'swap', 'roll', 'move', 'wod', 'clone',
            'broadcast', 'broadcast_nr', 'without_mask', 'to_scalar', 'transpose', 'remask', 'deriv', 'copy_ro', 'pickle')

MUTATE = {
    'set_int': lambda x, Pm: x.__setitem__(0 if x.shape else Ellipsis, x.masked_single().wod if False else (x[-1].wod if x.shape else x.wod * 2 if not x.is_bool() else x.wod)),
    'set_slice': lambda x, Pm: x.__setitem__(slice(0, 1) if x.shape else Ellipsis, x.wod[0:1] if x.shape else x.wod),
    'set_mask': lambda x, Pm: x.__setitem__(np.array([True] + [False] * (x.shape[0] - 1)) if x.shape else True, x.masked_single().wod),
    'set_ellipsis': lambda x, Pm: x.__setitem__(Ellipsis, x.masked_single().wod),
    'set_num': lambda x, Pm: x.__setitem__(0 if x.shape else Ellipsis, True if x.is_bool() else 7.) if not x.numer else x.__setitem__(Ellipsis, x.wod),
    'iadd': lambda x, Pm: x.__iadd__(1.) if not x.numer else x.__iadd__(x.wod),
    'isub': lambda x, Pm: x.__isub__(x.wod),
    'imul': lambda x, Pm: x.__imul__(2.),
    'itruediv': lambda x, Pm: x.__itruediv__(2.),
    'ifloordiv': lambda x, Pm: x.__ifloordiv__(2.),
    'imod': lambda x, Pm: x.__imod__(2.),
    'iand': lambda x, Pm: x.__iand__(True),
    'ior': lambda x, Pm: x.__ior__(False),
    'ixor': lambda x, Pm: x.__ixor__(True),
    'set_units': lambda x, Pm: x.set_units(Pm.Units.KM),
    'delete_deriv': lambda x, Pm: x.delete_deriv('t'),
    'delete_derivs': lambda x, Pm: x.delete_derivs(),
    'insert_derivs_replace': lambda x, Pm: x.insert_derivs({'t': x.wod}),
}
# mutators the property lists; the others in MUTATE are in-place operators of the same family
DIRECT = {
    'values': lambda x: x._values_,
    'mask': lambda x: x._mask_,
    'deriv_values': lambda x: x._derivs_['t']._values_ if 't' in x._derivs_ else None,
    'deriv_mask': lambda x: x._derivs_['t']._mask_ if 't' in x._derivs_ else None,
}
NONMUT = {
    'add': lambda x, Pm: x + x, 'neg': lambda x, Pm: -x, 'eq': lambda x, Pm: x == x, 'getitem': lambda x, Pm: x[...],
    'sum': lambda x, Pm: x.sum(), 'str': lambda x, Pm: str(x), 'copy': lambda x, Pm: x.copy(),
    'mul': lambda x, Pm: x * 2., 'mask_where': lambda x, Pm: x.mask_where(x.mask), 'reshape': lambda x, Pm: x.reshape(x.shape),
    'shrink': lambda x, Pm: x.shrink(x.antimask) if x.shape else x, 'wod': lambda x, Pm: x.wod,
    'pickle': lambda x, Pm: pickle.dumps(x), 'as_readonly_again': lambda x, Pm: x.clone().as_readonly(),
    'without_derivs': lambda x, Pm: x.without_derivs(), 'with_deriv': lambda x, Pm: x.with_deriv('z', x.wod),
    'norm': lambda x, Pm: x.norm() if len(x.numer) == 1 else abs(x) if not x.numer and not x.is_bool() else x,
    # operations that neutralise poles with mask_where(..., replace=...) on the (possibly read-only) operand
    'rdiv': lambda x, Pm: 3. / x if not x.numer and not x.is_bool() else x,
    'div_by': lambda x, Pm: Pm.Scalar(3.) / x if not x.numer and not x.is_bool() else x,
    'rmod': lambda x, Pm: 3. % x if not x.numer and not x.is_bool() else x,
    'rfloordiv': lambda x, Pm: 3. // x if not x.numer and not x.is_bool() else x,
    'reciprocal': lambda x, Pm: x.reciprocal() if not x.numer and not x.is_bool() else x,
    'unit': lambda x, Pm: x.unit() if len(x.numer) == 1 else x,
    'mask_where_replace': lambda x, Pm: x.mask_where(True, replace=x.wod) if not x.is_bool() else x,
    'mask_where_eq0': lambda x, Pm: x.mask_where_eq(0, 1) if not x.numer and not x.is_bool() else x,
    'clip': lambda x, Pm: x.clip(1., 2.) if not x.numer and not x.is_bool() and x.is_float() else x,
    'clip_noremask': lambda x, Pm: x.clip(1., 2., remask=False) if not x.numer and not x.is_bool() and x.is_float() else x,
    'sqrt_neg': lambda x, Pm: (x - 5.).sqrt() if not x.numer and not x.is_bool() else x,
    'log': lambda x, Pm: x.log() if not x.numer and not x.is_bool() and x.units is None else x,
    # derivative bookkeeping that returns a new object (seeded change C08-G: a helper that starts with require_writable)
    'without_derivs_preserve': lambda x, Pm: x.without_derivs(preserve=sorted(x.derivs)[:1] or ['t']),
    'without_derivs_preserve_all': lambda x, Pm: x.without_derivs(preserve=sorted(x.derivs)),
    'without_deriv': lambda x, Pm: x.without_deriv(sorted(x.derivs)[0]) if x.derivs else x,
    'with_derivs': lambda x, Pm: x.with_derivs({'z': x.wod}),
    'rename_deriv': lambda x, Pm: x.rename_deriv(sorted(x.derivs)[0], 'zz') if x.derivs and hasattr(x, 'rename_deriv') else x,
    'as_this_type': lambda x, Pm: x.wod.copy().as_this_type(x), 'stack': lambda x, Pm: Pm.Qube.stack(x, x),
    'rhs_of_setitem': lambda x, Pm: _assign_into_copy(x), 'as_float': lambda x, Pm: x.as_float() if not x.is_bool() else x,
    'clone': lambda x, Pm: x.clone(), 'without_mask': lambda x, Pm: x.without_mask(), 'all_masked': lambda x, Pm: x.as_all_masked(),
    'remask_or': lambda x, Pm: x.remask_or(True), 'expand_mask': lambda x, Pm: x.expand_mask(),
    'without_units': lambda x, Pm: x.without_units(), 'into_units': lambda x, Pm: x.into_units(),
    'broadcast_into': lambda x, Pm: x.broadcast_to((2,) + tuple(x.shape)),
    # conversions with options that touch the mask (seeded change C08-J: Vector.int(top=, remask=True) OR-ed the
    # out-of-range elements into the operand's own mask array, which a frozen operand refuses)
    'int_top_remask': lambda x, Pm: (x.int(top=tuple(2 for _ in range(x.numer[0])), remask=True) if len(x.numer) == 1 and x.is_float()
                                     else x.int(top=2, remask=True) if not x.numer and x.is_float() else x),
    'int_top': lambda x, Pm: (x.int(top=tuple(2 for _ in range(x.numer[0]))) if len(x.numer) == 1 and x.is_float()
                              else x.int(top=2) if not x.numer and x.is_float() else x),
    'as_int': lambda x, Pm: x.as_int() if not x.is_bool() and type(x).INTS_OK else x,
    'frac': lambda x, Pm: x.frac() if not x.numer and x.is_float() else x,
    'sign': lambda x, Pm: x.sign() if not x.numer and not x.is_bool() else x,
    'abs': lambda x, Pm: abs(x) if not x.numer and not x.is_bool() else x,
    'max': lambda x, Pm: x.max() if not x.numer and not x.is_bool() else x,
    'sort': lambda x, Pm: x.sort() if not x.numer and not x.is_bool() and x.shape else x,
    'mask_where_ge': lambda x, Pm: x.mask_where_ge(1., 0.) if not x.numer and not x.is_bool() else x,
    'clip_component': lambda x, Pm: x.clip_component(0, 0., 1.) if len(x.numer) == 1 and x.is_float() and hasattr(x, 'clip_component') else x,
}


def _assign_into_copy(x):
    z = x.copy()
    z[...] = x
    return z


# A read-only object used as the OTHER operand: the operation may not fail because of it and may not change it -
# including the derivative-free twin it caches (seeded change C08-H: as_this_type() inserted converted derivatives into
# the cached wod of a read-only right-hand side whose derivatives have another class than the target).
def _ro_operands(Pm):
    ang = Pm.Scalar(np.array([0.1, 0.2, 0.3]))
    ang.insert_deriv('t', Pm.Scalar(np.array([1., 2., 3.])))
    rot = Pm.Matrix3.x_rotation(ang)
    v3 = Pm.Vector3(np.arange(9.).reshape(3, 3))
    v3.insert_deriv('t', Pm.Vector(np.ones((3, 3))))
    sc = Pm.Scalar(np.array([1., 2., 3.]), np.array([False, True, False]))
    sc.insert_deriv('t', Pm.Scalar(np.array([4., 5., 6.])))
    q = Pm.Quaternion(np.array([[1., 0., 0., 0.], [0., 1., 0., 0.], [0., 0., 1., 0.]]))
    q.insert_deriv('t', Pm.Quaternion(np.ones((3, 4))))
    m3 = q.to_matrix3()
    return [('Matrix3.x_rotation', rot), ('Vector3+Vector deriv', v3), ('Scalar', sc), ('Quaternion.to_matrix3', m3)]


_RHS_ACTIONS = {
    'setitem_all': lambda t, r, Pm: t.__setitem__(Ellipsis, r),
    'setitem_one': lambda t, r, Pm: t.__setitem__(0, r[0]),
    'mask_where_replace': lambda t, r, Pm: t.mask_where(np.array([True, False, True]), replace=r),
    'stack': lambda t, r, Pm: Pm.Qube.stack(t, r),
    'as_this_type': lambda t, r, Pm: t.as_this_type(r),
    'add': lambda t, r, Pm: (t + r) if not isinstance(r, Pm.Matrix3) else (t * r),
    'eq': lambda t, r, Pm: t == r,
}


def _deep_state(x):
    w = x.wod
    return {'snap': lib.canon(snapshot(x)), 'ro': bool(x.readonly), 'wod_keys': sorted(w._derivs_),
            'wod_ro': bool(w.readonly), 'nod_keys': sorted(x.without_derivs()._derivs_),
            'deriv_classes': {k: type(d).__name__ for k, d in x._derivs_.items()}}


def rhs_scenarios(Pm):
    """-> list of (case, failures)"""
    out = []
    names = [n for n, _ in _ro_operands(Pm)]
    for idx, oname in enumerate(names):
        for aname in sorted(_RHS_ACTIONS):
            for warm in (True, False):
                r = _ro_operands(Pm)[idx][1].as_readonly()
                held = r.wod if warm else None
                t = r.copy()                      # a writable, independent object of the same class
                t.delete_derivs()
                before = _deep_state(r) if warm else None
                base = {'snap': lib.canon(snapshot(r)), 'ro': bool(r.readonly)}
                fails = []
                try:
                    with warnings.catch_warnings():
                        warnings.simplefilter('ignore')
                        _RHS_ACTIONS[aname](t, r, Pm)
                    outc = 'ok'
                except Exception as e:    # noqa
                    outc = type(e).__name__ + ':' + str(e)[:80]
                    if 'read-only' in str(e) or 'readonly' in str(e):
                        fails.append(({'what': 'nonmutating-fails-on-readonly-operand', 'action': aname, 'operand': oname}, {'exc': outc}))
                after = _deep_state(r)
                if {'snap': after['snap'], 'ro': after['ro']} != base:
                    fails.append(({'what': 'readonly-operand-changed', 'action': aname, 'operand': oname, 'field': 'content'}, {}))
                if after['wod_keys'] or after['nod_keys'] or (held is not None and held._derivs_):
                    fails.append(({'what': 'readonly-operand-changed', 'action': aname, 'operand': oname, 'field': 'wod-has-derivatives'},
                                  {'wod_keys': after['wod_keys'], 'held_keys': sorted(held._derivs_) if held is not None else None}))
                if before is not None and before != after:
                    fails.append(({'what': 'readonly-operand-changed', 'action': aname, 'operand': oname, 'field': 'deep-state'},
                                  {'before': before, 'after': after}))
                out.append(({'part': 'rhs', 'operand': idx, 'operand_name': oname, 'action': aname, 'warm': warm, 'outcome': outc}, fails))
    return out


def snapshot(x, top=True):
    """observable state (hidden values under the mask excluded); derivatives one level deep"""
    sh = x.shape
    m = np.broadcast_to(np.asarray(x._mask_), sh).copy()
    v = np.broadcast_to(np.asarray(x._values_), sh + x.item).copy()
    if m.any():
        v[m] = 0
    return (type(x).__name__, sh, x.item, v.tobytes(), m.tobytes(), str(x.units), bool(x.readonly),
            tuple((k, snapshot(d, False)) for k, d in sorted(x.derivs.items())) if top else ())


def frozen_arrays(x):
    """WRITEABLE flags of the arrays of x and of its derivatives"""
    out = []
    for a in (x._values_, x._mask_):
        if isinstance(a, np.ndarray):
            out.append(bool(a.flags.writeable))
    for d in x._derivs_.values():
        out += frozen_arrays(d)
    return out


class World(object):
    def __init__(self, Pm):
        self.Pm = Pm
        self.objs = []       # dict(obj, ro_since, snap, born, parent, via, frozen_by_as_readonly)
        self.step = 0

    def add(self, obj, parent=None, via=None):
        rec = {'obj': obj, 'ro_since': None, 'snap': None, 'born': self.step, 'parent': parent, 'via': via,
               'frozen': False}
        self.objs.append(rec)
        if obj.readonly:
            self.mark_ro(rec)
        return rec

    def mark_ro(self, rec, frozen=False):
        if rec['ro_since'] is None:
            rec['ro_since'] = self.step
            rec['snap'] = snapshot(rec['obj'])
        rec['frozen'] = rec['frozen'] or frozen

    def descends_after_freeze(self, j, i):
        """object j was derived (transitively) from object i at or after the step i became read-only"""
        ro_since = self.objs[i]['ro_since']
        while j is not None:
            rec = self.objs[j]
            if rec['parent'] == i and rec['born'] >= ro_since:
                return True
            j = rec['parent']
        return False

    def check_all(self, actor=None):
        """violations visible now: a read-only object whose observable state changed / lost the flag"""
        bad = []
        for i, rec in enumerate(self.objs):
            if rec['ro_since'] is None:
                continue
            now = snapshot(rec['obj'])
            if now != rec['snap'] and now[:7] == rec['snap'][:7] and set(rec['snap'][7]) <= set(now[7]):
                rec['snap'] = now       # only new derivatives were inserted: allowed on a read-only object
            if now != rec['snap']:
                prior = False
                if actor is not None:
                    prior = not self.descends_after_freeze(actor, i)
                bad.append((i, 'changed', prior))
                rec['snap'] = now
        return bad


def _arrays(x):
    out = [a for a in (x._values_, x._mask_) if isinstance(a, np.ndarray)]
    for d in x._derivs_.values():
        out += _arrays(d)
    return out


def _shares(a, b):
    return any(np.shares_memory(p, q) for p in _arrays(a) for q in _arrays(b))


def gen_history(rng, tier, length):
    ops = [('make', rng.choice(MAKERS))]
    n = 1
    for _ in range(length - 1):
        r = rng.random()
        i = rng.randrange(n)
        if r < 0.10:
            ops.append(('make', rng.choice(MAKERS)))
            n += 1
        elif r < 0.14:
            ops.append(('const', rng.choice(CONSTANTS)))
            n += 1
        elif r < 0.30:
            ops.append(('freeze', i))
        elif r < 0.55:
            ops.append(('derive', i, rng.choice(list(DERIVE))))
            n += 1
        elif r < 0.80:
            ops.append(('mutate', i, rng.choice(list(MUTATE))))
        elif r < 0.88:
            ops.append(('direct', i, rng.choice(list(DIRECT))))
        elif r < 0.93:
            ops.append(('addderiv', i, rng.choice([0, 1, 2])))
        else:
            ops.append(('nonmut', i, rng.choice(list(NONMUT))))
    return ops


def run_history(ops, Pm):
    """-> (trace, failures) ; failures = list of (signature, detail)"""
    W = World(Pm)
    fails = []
    trace = []
    # a shared class constant starts every history as the library defines it: an earlier history may have inserted a
    # derivative under a new key (permitted on read-only objects), which would make the outcome of this history
    # depend on the ones before it (thorough run: two irreproducible alarms)
    for op in ops:
        if op[0] == 'const':
            cls, name = op[1].split('.')
            c = getattr(getattr(Pm, cls), name, None)
            if c is not None and c._derivs_:
                c.delete_derivs(override=True)
    for step, op in enumerate(ops):
        W.step = step
        kind = op[0]
        actor = None
        out = 'ok'
        try:
            with warnings.catch_warnings():
                warnings.simplefilter('ignore')
                if kind == 'make':
                    W.add(make(op[1], Pm))
                elif kind == 'const':
                    cls, name = op[1].split('.')
                    c = getattr(getattr(Pm, cls), name, None)
                    if c is None:
                        c = Pm.Scalar.ONE
                    rec = W.add(c)
                    if not c.readonly:
                        fails.append(({'what': 'constant-not-readonly', 'const': op[1]}, {}))
                elif kind == 'freeze':
                    rec = W.objs[op[1]]
                    rec['obj'].as_readonly()
                    W.mark_ro(rec, frozen=True)
                    for d in rec['obj']._derivs_.values():
                        if not d.readonly:
                            fails.append(({'what': 'derivative-not-readonly-after-as_readonly'}, {}))
                    if any(frozen_arrays(rec['obj'])):
                        fails.append(({'what': 'array-writeable-after-as_readonly'}, {'flags': frozen_arrays(rec['obj'])}))
                elif kind == 'derive':
                    src = W.objs[op[1]]
                    was_ro = src['obj'].readonly
                    new = DERIVE[op[2]](src['obj'], Pm)
                    if new is src['obj']:
                        out = 'same'
                    else:
                        rec = W.add(new, parent=op[1], via=op[2])
                        if op[2] in FRESH:
                            if new.readonly:
                                fails.append(({'what': 'copy-not-writable', 'via': op[2]}, {}))
                            elif _shares(new, src['obj']):
                                fails.append(({'what': 'copy-shares-storage', 'via': op[2]}, {}))
                        elif was_ro and not new.readonly and op[2] in KEEPS_RO:
                            fails.append(({'what': 'derived-from-readonly-is-writable', 'via': op[2],
                                           'cls': type(new).__name__}, {}))
                        if op[2] == 'pickle' and was_ro and any(frozen_arrays(new)) and src['frozen']:
                            fails.append(({'what': 'unpickled-arrays-writeable'}, {}))
                    if src['obj'].readonly and src['ro_since'] is None:
                        W.mark_ro(src)        # broadcasting marks an array-valued source read-only
                elif kind == 'mutate':
                    rec = W.objs[op[1]]
                    actor = op[1]
                    was_ro = rec['obj'].readonly
                    if op[2] == 'insert_derivs_replace' and 't' not in rec['obj'].derivs:
                        was_ro = False      # inserting a NEW derivative into a read-only object is allowed
                        actor = None
                    if op[2] in ('delete_deriv', 'delete_derivs') and not rec['obj'].derivs:
                        pass
                    try:
                        MUTATE[op[2]](rec['obj'], Pm)
                        out = 'mutated'
                        if was_ro:
                            fails.append(({'what': 'mutator-accepted-on-readonly', 'mutator': op[2],
                                           'cls': type(rec['obj']).__name__}, {}))
                    except ValueError:
                        out = 'ValueError'
                    except (TypeError, IndexError) as e:
                        out = type(e).__name__
                        # a read-only target must be reported as ValueError only when the call is
                        # otherwise legal; an unsupported operation may fail earlier with TypeError
                elif kind == 'direct':
                    rec = W.objs[op[1]]
                    arr = DIRECT[op[2]](rec['obj'])
                    if isinstance(arr, np.ndarray) and arr.size:
                        actor = op[1]
                        try:
                            arr.flat[0] = arr.flat[0]      # same value: a write attempt that changes nothing
                            out = 'written'
                            if rec['frozen']:
                                fails.append(({'what': 'direct-write-accepted-after-as_readonly', 'array': op[2]}, {}))
                        except ValueError:
                            out = 'refused'
                    else:
                        out = 'noarray'
                elif kind == 'addderiv':
                    # inserting a NEW derivative is allowed on a read-only object; the derivative must then
                    # be read-only too (also when it has to be broadcast down from a size-1 shape)
                    rec = W.objs[op[1]]
                    x = rec['obj']
                    if x.DERIVS_OK and not x.is_bool():
                        d = x.wod * 2. if not x.is_int() else x.wod.as_float()
                        if not x.shape and op[2]:
                            d = d.reshape((1,) * op[2])
                        key = 'z%d' % step
                        x.insert_deriv(key, d)
                        if x.readonly and not x.derivs[key].readonly:
                            fails.append(({'what': 'new-derivative-of-readonly-is-writable',
                                           'shapeless': not x.shape, 'deriv_rank': op[2]}, {}))
                        elif x.readonly:
                            try:
                                x.derivs[key].__imul__(3.)
                                fails.append(({'what': 'mutator-accepted-on-derivative-of-readonly',
                                               'shapeless': not x.shape, 'deriv_rank': op[2]}, {}))
                            except ValueError:
                                pass
                    else:
                        out = 'skip'
                elif kind == 'nonmut':
                    rec = W.objs[op[1]]
                    x = rec['obj']
                    twin = x.copy()
                    try:
                        NONMUT[op[2]](twin, Pm)
                        twin_out = 'ok'
                    except Exception as e:
                        twin_out = type(e).__name__
                    try:
                        NONMUT[op[2]](x, Pm)
                        out = 'ok'
                    except Exception as e:
                        out = type(e).__name__
                    if x.readonly and out != twin_out and twin_out == 'ok':
                        fails.append(({'what': 'nonmutating-fails-on-readonly', 'op': op[2],
                                       'cls': type(x).__name__, 'exc': out}, {}))
        except Exception as e:
            name, site = lib.exc_family(e)
            out = 'exc:' + name
        trace.append(out)
        # a read-only object cannot be changed through its derivatives either: they are read-only too
        # (seeded change C08-D: broadcast_to(recursive=False) froze the source but not its derivatives)
        for i, rec in enumerate(W.objs):
            o = rec['obj']
            if o.readonly and not rec.get('wd_reported'):
                for k, d in o._derivs_.items():
                    if not d.readonly:
                        rec['wd_reported'] = True
                        fails.append(({'what': 'readonly-object-has-writable-derivative', 'op': op[0],
                                       'how': op[2] if len(op) > 2 else op[1]},
                                      {'object_index': i, 'key': k, 'step': step}))
                        break
        for i, what, prior in W.check_all(actor):
            src = W.objs[i]
            fails.append(({'what': 'readonly-object-changed', 'prior_view': prior, 'op': op[0],
                           'how': op[2] if len(op) > 2 else op[1]},
                          {'object_index': i, 'made_readonly_at': src['ro_since'], 'step': step}))
    return trace, fails, W


# ---------------------------------------------------------------------------
# model alphabet (Coq heap machine): 1-D float Scalars without derivatives
# ---------------------------------------------------------------------------
M_OPS = ['make', 'freeze', 'slice', 'wod', 'clone', 'advanced', 'copy', 'broadcast', 'pickle',
         'set_int', 'iadd', 'set_units', 'direct_values', 'direct_mask']


def gen_model_history(rng, length):
    ops = [('make',)]
    n = 1
    for _ in range(length - 1):
        k = rng.choice(M_OPS)
        i = rng.randrange(n)
        if k == 'make':
            ops.append(('make',))
            n += 1
        elif k in ('slice', 'wod', 'clone', 'advanced', 'copy', 'broadcast', 'pickle'):
            ops.append((k, i))
            n += 1
        else:
            ops.append((k, i))
    return ops


def all_model_histories(depth):
    """every history of the given length starting with make"""
    def rec(prefix, n):
        if len(prefix) == depth:
            yield list(prefix)
            return
        for k in M_OPS:
            if k == 'make':
                yield from rec(prefix + [('make',)], n + 1)
            else:
                for i in range(n):
                    grow = k in ('slice', 'wod', 'clone', 'advanced', 'copy', 'broadcast', 'pickle')
                    yield from rec(prefix + [(k, i)], n + (1 if grow else 0))
    yield from rec([('make',)], 1)


def run_model_history(ops, Pm):
    """impl side of the correspondence: per step (outcome, per object: ro flag, values writeable, mask array
    writeable or None, visible values, mask)"""
    objs = []
    trace = []
    counter = [0]

    def fresh():
        counter[0] += 1
        base = 10. * counter[0]
        return Pm.Scalar(np.array([base + 1, base + 2, base + 3]), np.array([False, True, False]))
    for op in ops:
        k = op[0]
        out = 'ok'
        try:
            with warnings.catch_warnings():
                warnings.simplefilter('ignore')
                if k == 'make':
                    objs.append(fresh())
                elif k == 'freeze':
                    objs[op[1]].as_readonly()
                elif k == 'slice':
                    objs.append(objs[op[1]][..., 0:2])
                elif k == 'wod':
                    x = objs[op[1]]
                    objs.append(x.clone(recursive=False) if True else x.wod)
                elif k == 'clone':
                    objs.append(objs[op[1]].clone())
                elif k == 'advanced':
                    objs.append(objs[op[1]][..., np.array([1, 0])])
                elif k == 'copy':
                    objs.append(objs[op[1]].copy())
                elif k == 'broadcast':
                    objs.append(objs[op[1]].broadcast_to((2,) + objs[op[1]].shape))
                elif k == 'pickle':
                    objs.append(pickle.loads(pickle.dumps(objs[op[1]])))
                elif k == 'set_int':
                    objs[op[1]][..., 0] = Pm.Scalar(99., False)
                elif k == 'iadd':
                    objs[op[1]].__iadd__(100.)
                elif k == 'set_units':
                    objs[op[1]].set_units(Pm.Units.KM)
                elif k == 'direct_values':
                    a = objs[op[1]]._values_
                    a.flat[0] = 55.
                    for o in objs:          # a raw write bypasses the API: caches are not our subject here
                        o._cache_.clear()
                elif k == 'direct_mask':
                    a = objs[op[1]]._mask_
                    if isinstance(a, np.ndarray):
                        a.flat[0] = True
                        for o in objs:
                            o._cache_.clear()
                    else:
                        out = 'noarray'
        except ValueError:
            out = 'err'
        except Exception as e:
            out = 'exc:' + type(e).__name__
        state = []
        for x in objs:
            m = np.broadcast_to(np.asarray(x._mask_), x.shape).ravel()
            v = np.broadcast_to(np.asarray(x._values_), x.shape).ravel()
            state.append((bool(x.readonly), bool(x._values_.flags.writeable),
                          None if not isinstance(x._mask_, np.ndarray) else bool(x._mask_.flags.writeable),
                          [None if mm else int(vv) for vv, mm in zip(v, m)], x.units is not None))
        trace.append((out, state))
    return trace


def coq_mop(op):
    k = op[0]
    if k == 'make':
        return 'HMake'
    names = {'freeze': 'HFreeze', 'slice': 'HSlice', 'wod': 'HClone', 'clone': 'HClone', 'advanced': 'HAdvanced',
             'copy': 'HCopy', 'broadcast': 'HBroadcast', 'pickle': 'HPickle', 'set_int': 'HSetInt', 'iadd': 'HIAdd',
             'set_units': 'HSetUnits', 'direct_values': 'HDirectV', 'direct_mask': 'HDirectM'}
    return '(%s %s)' % (names[k], cnat(op[1]))


def coq_mstate(st):
    objs = []
    for ro, vw, mw, vis, un in st:
        objs.append('(%s, %s, %s, %s, %s)' % (
            cbool(ro), cbool(vw), 'None' if mw is None else '(Some %s)' % cbool(mw),
            clist(['None' if v is None else '(Some %s)' % cZ(v) for v in vis], '(option Z)'), cbool(un)))
    return clist(objs, '(bool * bool * option bool * list (option Z) * bool)')


def coq_mtrace(tr):
    return clist(['(%s, %s)' % ({'ok': 'ROk', 'err': 'RErr', 'noarray': 'ROk'}.get(o, 'RExc'), coq_mstate(st)) for o, st in tr],
                 '(outcome * list (bool * bool * option bool * list (option Z) * bool))')


def run(ctx):
    Pm = P()
    ctx.rule = ('Oracle: random histories (length 6-25) over make/constant/freeze/derive(23 ways)/mutate(18 mutators)/'
                'direct array write/non-mutating op on 8 kinds of objects; every object that is or becomes read-only is '
                'snapshotted and re-checked after every later step. Correspondence: all histories of length <=3 (quick) / '
                '<=4 (thorough) + random to length 14 over the 14-symbol model alphabet vs the Coq heap machine, compared '
                'per step (outcome, read-only flags, WRITEABLE flags, visible contents). Non-trivial = history contains a '
                'freeze followed by a mutation attempt.')
    ctx.assumptions = ['views created BEFORE an object is frozen are outside "derived from it" (recorded as a known finding '
                       'when a write through such a view shows through)']
    if ctx.ensure_library():
        ctx.prove(['theories/Props/C08.v'])
        ctx.effects_obligations()      # regenerated from the current source: see coq/obl/Eff_C08.v
    # ---- oracle histories
    nh = 1500 if ctx.tier == 'quick' else 15000
    # exhaustive core: every maker, frozen, every way of deriving an object from it, then every mutator and every direct
    # write applied to the derived object (quick: mutators sampled one in three)
    core = []
    for mk in MAKERS:
        for via in DERIVE:
            for mu in MUTATE:
                if ctx.tier == 'quick' and ctx.rng.random() > 0.34:
                    continue
                core.append([('make', mk), ('freeze', 0), ('derive', 0, via), ('mutate', 1, mu)])
            for dw in DIRECT:
                core.append([('make', mk), ('freeze', 0), ('derive', 0, via), ('direct', 1, dw)])
    # two derivations in a row: first an array-indexed copy of the frozen object (read-only by its flag alone), then
    # every way of deriving an object from that copy, then a mutator / a direct write
    for mk in MAKERS:
        for via in DERIVE:
            for mu in (list(MUTATE)[::3] if ctx.tier == 'quick' else MUTATE):
                core.append([('make', mk), ('freeze', 0), ('derive', 0, 'advanced'), ('derive', 1, via), ('mutate', 2, mu)])
            core.append([('make', mk), ('freeze', 0), ('derive', 0, 'advanced'), ('derive', 1, via), ('direct', 2, 'values')])
    # every non-mutating operation on every kind of object right after it was frozen (and on a view of it)
    for mk in MAKERS:
        for nm in sorted(NONMUT):
            core.append([('make', mk), ('freeze', 0), ('nonmut', 0, nm)])
    for k in range(nh + len(core)):
        ops = core[k] if k < len(core) else gen_history(ctx.rng, ctx.tier, ctx.rng.randrange(6, 26))
        trace, fails, W = run_history(ops, Pm)
        froze = [i for i, o in enumerate(ops) if o[0] == 'freeze']
        nontriv = bool(froze) and any(o[0] in ('mutate', 'direct') for o in ops[froze[0]:])
        case = {'part': 'oracle', 'ops': [list(o) for o in ops]}
        ctx.note_case(case, nontriv)
        for o in ops:
            ctx.count('op:' + o[0])
        for t in trace:
            if t.startswith('exc:'):
                ctx.count('unexpected:' + t)
        seen = set()
        for sig, det in fails:
            key = lib.canon(sig)
            if key in seen:
                continue
            seen.add(key)
            ctx.fail(sig, case, det)
    # ---- read-only objects as the other operand
    for case, fails in rhs_scenarios(Pm):
        ctx.note_case(case, True)
        ctx.count('rhs:' + case['action'])
        seen = set()
        for sig, det in fails:
            key = lib.canon(sig)
            if key not in seen:
                seen.add(key)
                ctx.fail(sig, case, det)
    # ---- correspondence histories
    hists = []
    for d in ((2, 3) if ctx.tier == 'quick' else (2, 3, 4)):
        hists.extend(all_model_histories(d))
    for _ in range(300 if ctx.tier == 'quick' else 3000):
        hists.append(gen_model_history(ctx.rng, ctx.rng.randrange(5, 15)))
    terms = []
    for ops in hists:
        tr = run_model_history(ops, Pm)
        ctx.note_case({'part': 'model', 'ops': [list(o) for o in ops]},
                      any(o[0] == 'freeze' for o in ops) and ops[-1][0] in ('set_int', 'iadd', 'direct_values', 'direct_mask', 'set_units'))
        terms.append('(%s, %s)' % (clist([coq_mop(o) for o in ops], 'hop'), coq_mtrace(tr)))
    ctx.traces = len(terms)
    mism = ctx.coq_eval_shards('hist', HEADER, terms, lambda x: 'mismatches %s' % x, shard=300)
    if mism:
        j = mism[0]
        ops = hists[j]
        tr = run_model_history(ops, Pm)
        shown = ctx.coq_show(HEADER, 'htrace init_heap %s' % clist([coq_mop(o) for o in ops], 'hop'))
        ctx.broken_tie('correspondence', 'heap-machine-vs-impl',
                       {'n_mismatch': len(mism), 'first_case': [list(o) for o in ops],
                        'impl_trace': [(o, st) for o, st in tr], 'model_trace': shown})
    ctx.cov['correspondence_mismatches'] = len(mism or [])
    return ctx.finish()


def replay(path):
    import json
    Pm = P()
    d = json.load(open(path))
    if 'case' not in d:
        print(json.dumps(d, indent=1)[:4000])
        return 1
    if d['case']['part'] == 'rhs':
        bad = 0
        for case, fails in rhs_scenarios(Pm):
            if (case['operand'], case['action'], case['warm']) == (d['case']['operand'], d['case']['action'], d['case']['warm']):
                print(case)
                for sig, det in fails:
                    print('FAIL', sig, det)
                    bad = 1
        print('property holds on this scenario' if not bad else 'property FAILS on this scenario')
        return bad
    ops = [tuple(o) for o in d['case']['ops']]
    if d['case']['part'] == 'oracle':
        trace, fails, W = run_history(ops, Pm)
        for o, t in zip(ops, trace):
            print('  %-45s -> %s' % (o, t))
        for sig, det in fails:
            print('FAIL', sig, det)
        print('property holds on this history' if not fails else 'property FAILS on this history')
        return 0 if not fails else 1
    tr = run_model_history(ops, Pm)
    for o, t in zip(ops, tr):
        print(o, t)
    return 1
