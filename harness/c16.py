"""C16 - vector, matrix, rotation and quaternion algebra.

Stages
  R  tools/regen/tracer_c16.py (separate process: it patches polymath for tracing) runs the
     CURRENT source on symbols and writes coq/gen/Gen_kern_*.v + coq/gen/obl/C16_*.v;
     every emitted definition, evaluated from its expression tree at the seed point, must
     reproduce what the unpatched implementation computes there (sanity obligation).
  P  coqc: Props/C16.v (hand-written theorems over the reference definitions) and every
     generated obligation file, in parallel, under timeout.
  K+S numeric: implementation vs NumPy reference (einsum, cross, linalg.inv) under
     broadcasting and all six mask representations, identity residuals, mask carrying.
     When a traced obligation breaks, this part is the search for a concrete failing input
     (the families related to the broken kernel get a larger sample).
"""
import itertools
import json
import math
import os
import subprocess
import sys
import time
import warnings
from concurrent.futures import ThreadPoolExecutor

import numpy as np

from . import lib

GEN = lib.GEN
OBL = os.path.join(GEN, 'obl')
GENFLAGS = ['-R', GEN, 'PMGen']
MREPS = ['F', 'T', 'aF', 'aT', 'mix', 'bview']
RTOL = 1e-9
ATOL = 1e-11


def P():
    lib.setup_impl_path()
    import polymath
    return polymath


# ---------------------------------------------------------------------------
# stage R + P
# ---------------------------------------------------------------------------
def regenerate(ctx, Pm):
    """run the tracer in its own process; returns the manifest (or None)"""
    for d in (GEN, OBL):
        os.makedirs(d, exist_ok=True)
    sys.path.insert(0, lib.VERIF)
    from tools.regen import tracer_c16 as TC
    mine = {'Gen_kern_%s' % name for name, _, _ in TC.KERNELS}     # other properties own other kernels
    for f in os.listdir(GEN):
        if f.lstrip('.').split('.')[0] in mine:
            try:
                os.remove(os.path.join(GEN, f))
            except OSError:
                pass
    for f in os.listdir(OBL):
        if f.lstrip('.').startswith('C16_'):
            try:
                os.remove(os.path.join(OBL, f))
            except OSError:
                pass
    env = dict(os.environ)
    env['VERIF_REPO'] = lib.REPO
    env['VERIF_GEN'] = lib.GEN
    env['VERIF_BUILD'] = lib.BUILD
    env['PYTHONPATH'] = lib.VERIF
    t0 = time.time()
    p = subprocess.run([sys.executable, '-m', 'tools.regen.tracer_c16'], cwd=lib.VERIF, env=env,
                       stdout=subprocess.PIPE, stderr=subprocess.STDOUT, text=True, timeout=600)
    mpath = os.path.join(ctx.dir, 'trace_manifest.json')
    if p.returncode != 0 or not os.path.exists(mpath):
        ctx.obligations.append(('regenerate-kernels', False, p.stdout[-1500:]))
        ctx.broken_tie('regeneration', 'tracer', p.stdout[-2000:])
        return None
    man = json.load(open(mpath))
    ctx.log('R: %s in %.1fs' % (p.stdout.strip().splitlines()[-1], time.time() - t0))
    fns = {name: fn for name, fn, _ in TC.KERNELS}
    n_ok = 0
    for k in man['kernels']:
        name = k['name']
        if 'error' in k:
            ctx.obligations.append(('trace:' + name, False, k['error']))
            ctx.broken_tie('regeneration', 'trace:' + name, k['error'] + '\n' + k.get('traceback', ''))
            continue
        problems = []
        if k['sanity_bad']:
            problems.append('expression tree does not reproduce the traced concrete values: %s' % k['sanity_bad'][:3])
        # the unpatched implementation on the same seed inputs
        try:
            with warnings.catch_warnings():
                warnings.simplefilter('ignore')
                io = TC.run_float(name, fns[name], Pm)
            if len(io.outputs) != len(k['outputs']):
                problems.append('output count differs: %d vs %d' % (len(io.outputs), len(k['outputs'])))
            else:
                for (g, idx, _, v), (g2, idx2, w, _v2) in zip(io.outputs, k['outputs']):
                    if g != g2 or list(idx) != list(idx2) or not close(v, w, 1e-9, 1e-12):
                        problems.append('%s%s: implementation %r, emitted term %r' % (g, idx, v, w))
                        break
            if io.masks != k['masks']:
                problems.append('masks differ: %r vs %r' % (io.masks, k['masks']))
        except Exception as e:      # noqa
            problems.append('float run failed: %s: %s' % (type(e).__name__, e))
        ok = not problems
        n_ok += ok
        ctx.obligations.append(('sanity:' + name, ok, '; '.join(problems)[:500]))
        if not ok:
            ctx.broken_tie('regeneration', 'sanity:' + name, '; '.join(problems))
    ctx.traces = n_ok
    ctx.cov['kernels_traced'] = len(man['kernels'])
    ctx.cov['irrational_constants_recognised'] = sorted({c for k in man['kernels']
                                                          for c in k.get('irrational_constants', [])})
    return man


def close(v, w, rtol=RTOL, atol=ATOL):
    if isinstance(v, float) and isinstance(w, float) and math.isnan(v) and math.isnan(w):
        return True
    return abs(v - w) <= atol + rtol * max(abs(v), abs(w))


def compile_generated(ctx, man, timeout):
    """coqc the emitted kernels, then the obligation files, in parallel.
    Returns the list of kernels whose obligations broke."""
    kernels = [k for k in man['kernels'] if 'error' not in k]
    broken = []

    def gen_job(k):
        path = os.path.join(GEN, 'Gen_kern_%s.v' % k['name'])
        return k, lib.run_coqc(path, timeout=120, extra=GENFLAGS)

    def obl_job(k):
        path = os.path.join(OBL, 'C16_%s.v' % k['name'])
        return k, lib.run_coqc(path, timeout=timeout, extra=GENFLAGS)

    t0 = time.time()
    with ThreadPoolExecutor(max_workers=lib.NPROC) as ex:
        gen_res = list(ex.map(gen_job, kernels))
    bad_gen = set()
    for k, (rc, out, err, dt) in gen_res:
        if rc != 0:
            bad_gen.add(k['name'])
            ctx.obligations.append(('emit:' + k['name'], False, (err or out)[-800:]))
            ctx.broken_tie('regeneration', 'emit:' + k['name'], (err or out)[-1500:])
            broken.append(k['name'])
    # heavy files first
    order = sorted([k for k in kernels if k['name'] not in bad_gen], key=lambda k: -k.get('dag_nodes', 0))
    with ThreadPoolExecutor(max_workers=lib.NPROC) as ex:
        res = list(ex.map(obl_job, order))
    axioms = set()
    slow = []
    for k, (rc, out, err, dt) in res:
        lemmas = k['lemmas']
        slow.append((round(dt, 1), k['name']))
        if rc == 0:
            for l in lemmas:
                ctx.obligations.append((l, True, 'coq/gen/obl/C16_%s.v' % k['name']))
            for line in out.splitlines():
                m = line.strip().split(' ')[0]
                if '.' in m and line[:1] not in (' ', '\t') and m[0].isalpha() and not m.endswith(':'):
                    axioms.add(m)
        else:
            msg = '\n'.join(l for l in (err or out).splitlines() if 'not in the ideal' not in l)[-1500:]
            failing = failing_lemma(os.path.join(OBL, 'C16_%s.v' % k['name']), msg, lemmas)
            seen = False
            for l in lemmas:
                if l == failing:
                    seen = True
                ctx.obligations.append((l, not seen and failing is not None, msg if seen else ''))
            ctx.broken_tie('proof', 'C16_' + k['name'],
                           {'kernel': k['name'], 'lemma': failing, 'coq': msg,
                            'file': 'coq/gen/obl/C16_%s.v' % k['name'],
                            'definitions': 'coq/gen/Gen_kern_%s.v' % k['name']})
            ctx.log('OBLIGATION BROKEN %s (%s)\n%s' % (k['name'], failing, msg[-600:]))
            broken.append(k['name'])
    ctx.axioms['generated obligations (union)'] = ' '.join(sorted(axioms))
    ctx.cov['slowest_obligation_files'] = sorted(slow, reverse=True)[:5]
    ctx.log('P: %d kernel files + %d obligation files in %.1fs, %d broken'
            % (len(kernels), len(order), time.time() - t0, len(broken)))
    return broken


def failing_lemma(path, msg, lemmas):
    import re
    m = re.search(r'line (\d+)', msg)
    if not m:
        return lemmas[0] if lemmas else None
    line = int(m.group(1))
    cur = None
    for i, text in enumerate(open(path).read().splitlines(), 1):
        mm = re.match(r'Lemma (\w+)', text)
        if mm:
            cur = mm.group(1)
        if i >= line:
            break
    return cur


# ---------------------------------------------------------------------------
# numeric part: operands
# ---------------------------------------------------------------------------
VALS = [-2.0, -1.75, -1.5, -1.25, -1.0, -0.75, -0.5, -0.25, 0.25, 0.5, 0.75, 1.0, 1.25, 1.5, 1.75, 2.0,
        0.3, -0.7, 1.1, -1.3, 0.9, -0.45]
ANGLES = [k * math.pi / 12 for k in range(-12, 13)] + [0.1, -0.3, 1.0, 2.0, -2.5, 3.0, 0.7, -1.9]
RIGHT = [k * math.pi / 2 for k in range(-4, 5)]
BPAIRS = [((), ()), ((), (3,)), ((3,), ()), ((3,), (3,)), ((2, 3), (3,)), ((3, 1), (1, 3)),
          ((2, 1), (2, 3)), ((1,), (3,)), ((2, 3), (2, 3)), ((2, 1, 2), (3, 1)), ((4,), (1,))]
SHAPES = [(), (1,), (3,), (2, 3), (3, 1), (2, 1, 2)]


def make_mask(rng, shape, rep):
    if rep == 'F':
        return False
    if rep == 'T':
        return True
    if shape == ():
        return rep == 'aT' or (rep in ('mix', 'bview') and rng.random() < 0.5)
    n = int(np.prod(shape))
    if rep == 'aF':
        return [False] * n
    if rep == 'aT':
        return [True] * n
    if rep == 'bview':
        last = [rng.random() < 0.5 for _ in range(shape[-1])]
        return [last[i % shape[-1]] for i in range(n)]
    return [rng.random() < 0.35 for _ in range(n)]


def gen_operand(rng, shape, item, kind='rand', rep=None, denom=()):
    """kind: rand | axis (axis-aligned unit items) | zero (some zero items) | int"""
    rep = rep or rng.choice(MREPS)
    n = int(np.prod(shape))
    isz = int(np.prod(item)) * int(np.prod(denom))
    vals = []
    for _ in range(n):
        if kind == 'axis' and len(item) == 1:
            it = [0.0] * isz
            it[rng.randrange(item[0])] = rng.choice([1.0, -1.0, 2.0])
        elif kind == 'zero' and rng.random() < 0.5:
            it = [0.0] * isz
        else:
            it = [rng.choice(VALS) for _ in range(isz)]
        vals.append(it)
    d = {'shape': list(shape), 'item': list(item), 'denom': list(denom), 'vals': vals,
         'mask': make_mask(rng, shape, rep), 'mrep': rep}
    if len(item) == 1 and not denom and rng.random() < 0.15:
        # integer data where the class admits it (generic Vector, Pair): int x float must give the float answer
        # (seeded change C16-C: the result buffer of cross_3x3 took the dtype of the left operand)
        d['vals'] = [[float(rng.choice([-2, -1, 0, 1, 1, 2, 3])) for _ in range(isz)] for _ in range(n)]
        d['int'] = True
    return d


def build(d, cls):
    shape, item, denom = tuple(d['shape']), tuple(d['item']), tuple(d.get('denom', ()))
    arr = np.array(d['vals'], dtype=float).reshape(shape + item + denom)
    if d.get('int') and getattr(cls, 'INTS_OK', False):
        arr = arr.astype(np.int64)
    m = d['mask']
    if isinstance(m, bool):
        mask = m
    else:
        mask = np.array(m, bool).reshape(shape)
        if d.get('mrep') == 'bview' and len(shape) >= 1:
            row = mask[(0,) * (len(shape) - 1)]
            if np.all(mask == row):
                mask = np.broadcast_to(row, shape)
    q = cls(arr, mask, drank=len(denom))
    if _WITH_DERIVS[0] and getattr(cls, 'DERIVS_OK', False) and arr.dtype.kind == 'f' and not denom:
        # second pass of a case: every operand carries an unmasked derivative under the same key, so that the
        # product rules run (their in-place accumulation must not write into an operand's mask: seeded change C16-H)
        try:
            q.insert_deriv('t', cls(np.ones(arr.shape), drank=len(denom)))
        except Exception:       # noqa
            pass
    _BUILT.append((q, _snap(q)))
    return q


def arr_of(d):
    return np.array(d['vals'], dtype=float).reshape(tuple(d['shape']) + tuple(d['item']) + tuple(d.get('denom', ())))


def mask_of(d):
    shape = tuple(d['shape'])
    m = d['mask']
    return np.broadcast_to(np.array(m, bool).reshape(shape) if not isinstance(m, bool) else np.array(m), shape)


def cls_for(Pm, n, prefer_special):
    if prefer_special and n == 2:
        return Pm.Pair
    if prefer_special and n == 3:
        return Pm.Vector3
    return Pm.Vector


# ---------------------------------------------------------------------------
# numeric part: the reference (NumPy) for each operation
# ---------------------------------------------------------------------------
def bmask(ma, mb, shape):
    return np.broadcast_to(ma, shape) | np.broadcast_to(mb, shape)


def ref_binary(op, A, B, ma, mb, sa, sb, da, db):
    """values, mask for a binary vector/matrix operation; A, B full arrays.
    da/db: number of denominator axes (at most one operand has some)."""
    s = np.broadcast_shapes(sa, sb)
    la, lb = len(sa), len(sb)
    # bring to common leading rank
    A2 = A.reshape((1,) * (len(s) - la) + A.shape)
    B2 = B.reshape((1,) * (len(s) - lb) + B.shape)
    mask = bmask(ma, mb, s)
    undef = np.zeros(s, bool)
    dA = 'x' if da else ''
    dB = 'x' if db else ''
    if op == 'dot':
        vals = np.einsum('...i%s,...i%s->...%s' % (dA, dB, dA + dB),
                         np.broadcast_to(A2, s + A2.shape[len(s):]), np.broadcast_to(B2, s + B2.shape[len(s):]))
    elif op == 'cross':
        Ab = np.broadcast_to(A2, s + A2.shape[len(s):])
        Bb = np.broadcast_to(B2, s + B2.shape[len(s):])
        def cr(x, y):       # np.cross no longer accepts 2-vectors
            if x.shape[-1] == 2:
                return x[..., 0] * y[..., 1] - x[..., 1] * y[..., 0]
            return np.cross(x, y)
        if da:
            vals = np.stack([cr(Ab[..., k], Bb) for k in range(Ab.shape[-1])], axis=-1)
        elif db:
            vals = np.stack([cr(Ab, Bb[..., k]) for k in range(Bb.shape[-1])], axis=-1)
        else:
            vals = cr(Ab, Bb)
    elif op == 'outer':
        vals = np.einsum('...i%s,...j%s->...ij%s' % (dA, dB, dA + dB),
                         np.broadcast_to(A2, s + A2.shape[len(s):]), np.broadcast_to(B2, s + B2.shape[len(s):]))
    elif op == 'element_mul':
        vals = np.einsum('...i%s,...i%s->...i%s' % (dA, dB, dA + dB),
                         np.broadcast_to(A2, s + A2.shape[len(s):]), np.broadcast_to(B2, s + B2.shape[len(s):]))
    elif op == 'element_div':
        Bb = np.broadcast_to(B2, s + B2.shape[len(s):])
        undef = np.any(Bb == 0, axis=-1)
        safe = np.where(Bb == 0, 1.0, Bb)
        Ab = np.broadcast_to(A2, s + A2.shape[len(s):])
        vals = Ab / (safe[..., np.newaxis] if da else safe)
    elif op in ('matmul', 'matvec'):
        Ab = np.broadcast_to(A2, s + A2.shape[len(s):])
        Bb = np.broadcast_to(B2, s + B2.shape[len(s):])
        vals = np.einsum('...ik,...kj->...ij' if op == 'matmul' else '...ik,...k->...i', Ab, Bb)
    elif op in ('perp', 'proj', 'sep'):
        Ab = np.broadcast_to(A2, s + A2.shape[len(s):])
        Bb = np.broadcast_to(B2, s + B2.shape[len(s):])
        nb = np.sqrt(np.einsum('...i,...i->...', Bb, Bb))
        undef = nb == 0
        nbs = np.where(undef, 1.0, nb)
        ub = Bb / nbs[..., np.newaxis]
        pr = ub * np.einsum('...i,...i->...', Ab, ub)[..., np.newaxis]
        if op == 'proj':
            vals = pr
        elif op == 'perp':
            vals = Ab - pr
        else:
            na = np.sqrt(np.einsum('...i,...i->...', Ab, Ab))
            undef = undef | (na == 0)
            ua = Ab / np.where(na == 0, 1.0, na)[..., np.newaxis]
            # Kahan's formula, accurate at every angle
            vals = 2 * np.arctan2(np.linalg.norm(ua - ub, axis=-1), np.linalg.norm(ua + ub, axis=-1))
    else:
        raise KeyError(op)
    return vals, mask | undef


def ref_unary(op, A, ma, sa):
    mask = np.array(ma)
    undef = np.zeros(sa, bool)
    if op == 'norm':
        vals = np.sqrt(np.einsum('...i,...i->...', A, A))
    elif op == 'norm_sq':
        vals = np.einsum('...i,...i->...', A, A)
    elif op == 'unit':
        n = np.sqrt(np.einsum('...i,...i->...', A, A))
        undef = n == 0
        vals = A / np.where(undef, 1.0, n)[..., np.newaxis]
    elif op == 'transpose':
        vals = np.swapaxes(A, -1, -2)
    elif op == 'inverse':
        det = np.linalg.det(A)
        undef = det == 0
        safe = A.copy()
        safe[undef] = np.eye(A.shape[-1])
        vals = np.linalg.inv(safe)
    else:
        raise KeyError(op)
    return vals, mask | undef


def observe(q):
    return {'cls': type(q).__name__, 'shape': list(q.shape), 'numer': list(q.numer), 'denom': list(q.denom),
            'vals': np.asarray(q.values, dtype=float), 'mask': np.broadcast_to(np.asarray(q.mask), q.shape)}


def compare(obs, vals, mask, rtol=RTOL, atol=ATOL, want_cls=None):
    """None when the observation agrees with the reference, else a short reason"""
    if list(obs['shape']) != list(mask.shape):
        return 'shape %s, expected %s' % (obs['shape'], list(mask.shape))
    if want_cls and obs['cls'] not in want_cls:
        return 'class %s, expected one of %s' % (obs['cls'], want_cls)
    if obs['vals'].shape != vals.shape:
        return 'value array shape %s, expected %s' % (obs['vals'].shape, vals.shape)
    if not np.array_equal(obs['mask'], mask):
        return 'mask %s, expected %s' % (obs['mask'].astype(int).tolist(), mask.astype(int).tolist())
    keep = ~mask
    item_rank = vals.ndim - mask.ndim
    k = keep.reshape(keep.shape + (1,) * item_rank)
    k = np.broadcast_to(k, vals.shape)
    a, b = obs['vals'][k], vals[k]
    if a.size and not np.all(np.isfinite(a)):
        return 'non-finite unmasked value'
    bad = np.abs(a - b) > atol + rtol * np.maximum(np.abs(a), np.abs(b))
    if np.any(bad):
        i = int(np.argmax(bad))
        return 'value %r, expected %r (unmasked element %d)' % (float(a[i]), float(b[i]), i)
    return None


# ---------------------------------------------------------------------------
# numeric part: case generation
# ---------------------------------------------------------------------------
BIN_OPS = ['dot', 'cross', 'outer', 'element_mul', 'element_div', 'perp', 'proj', 'sep']
UN_OPS = ['norm', 'norm_sq', 'unit']
EULER_AXES = sorted(f + a + b + c for f in 'sr' for a in 'xyz' for b in 'xyz' for c in 'xyz'
                    if a != b and b != c)
TWOVEC_PAIRS = [(0, 1), (1, 2), (2, 0), (1, 0), (2, 1), (0, 2)]

# which numeric families look for a concrete failing input when a traced kernel breaks
KERNEL_FAMILY = [('dot', 'bin:dot'), ('norm', 'un:norm'), ('elem', 'bin:element'), ('unit', 'un:unit'),
                 ('perpproj', 'bin:p'), ('cross', 'bin:cross'), ('outer', 'bin:outer'), ('matmul', 'mat'),
                 ('matvec', 'mat'), ('transpose', 'mat'), ('inverse', 'mat'), ('xrot', 'rot:axis'),
                 ('yrot', 'rot:axis'), ('zrot', 'rot:axis'), ('polerot', 'rot:pole'), ('euler_', 'rot:euler'),
                 ('twovec', 'rot:twovec'), ('rotate', 'rot:rotate'), ('qmul', 'quat'), ('qrecip', 'quat'),
                 ('q2m', 'quat'), ('qfromrot', 'quat'), ('qeuler_', 'quat:euler')]


def gen_cases(rng, tier, focus=()):
    cases = []
    scale = 1 if tier == 'quick' else 8

    def boost(fam):
        return 6 if any(fam.startswith(f) or f.startswith(fam) for f in focus) else 1

    # --- cross / dot along a chosen item axis of a matrix-valued first operand ---------
    # (the vector methods always use axis 0; seeded change C16-I put the new axis of cross() in front whatever axis1)
    for _ in range(40 * scale * boost('axisop')):
        op = rng.choice(['cross', 'dot'])
        item = rng.choice([(3, 3), (2, 3), (3, 2), (3, 4)]) if op == 'cross' else rng.choice([(3, 3), (2, 3), (3, 2), (2, 4)])
        axes = [k for k in range(2) if item[k] == 3] if op == 'cross' else [0, 1]
        a1 = rng.choice(axes)
        sa, sb = rng.choice(BPAIRS)
        a = gen_operand(rng, sa, item, 'rand')
        b = gen_operand(rng, sb, (item[a1],), 'rand')
        a.pop('int', None), b.pop('int', None)
        cases.append({'fam': 'axisop', 'op': op, 'a': a, 'b': b, 'axis1': rng.choice([a1, a1 - 2]), 'special': False})
    # --- binary vector operations -------------------------------------------------
    for op in BIN_OPS:
        for _ in range(60 * scale * boost('bin:' + op)):
            n = rng.choice([2, 3]) if op == 'cross' else rng.choice([1, 2, 3, 4])
            m = rng.choice([1, 2, 3, 4]) if op == 'outer' else n
            sa, sb = rng.choice(BPAIRS)
            kind = rng.choice(['rand', 'rand', 'rand', 'axis', 'zero'])
            a = gen_operand(rng, sa, (n,), kind)
            b = gen_operand(rng, sb, (m,), rng.choice(['rand', 'rand', 'axis', 'zero']))
            if kind == 'axis' and rng.random() < 0.5 and op in ('sep', 'perp', 'proj', 'cross') and sa == sb:
                # parallel / antiparallel pair
                f = rng.choice([1.0, -1.0, 2.0, -0.5])
                b = dict(a, vals=[[f * x for x in it] for it in a['vals']], mask=b['mask'], mrep=b['mrep'])
            dn = None
            if op in ('dot', 'cross', 'outer', 'element_mul') and rng.random() < 0.3:
                dn = rng.choice(['a', 'b'])
                tgt = a if dn == 'a' else b
                new = gen_operand(rng, tuple(tgt['shape']), tuple(tgt['item']), 'rand', tgt['mrep'], denom=(2,))
                new['mask'] = tgt['mask']
                if dn == 'a':
                    a = new
                else:
                    b = new
            if op == 'element_div' and rng.random() < 0.3:
                new = gen_operand(rng, tuple(a['shape']), tuple(a['item']), 'rand', a['mrep'], denom=(2,))
                new['mask'] = a['mask']
                a = new
            cases.append({'fam': 'bin', 'op': op, 'a': a, 'b': b, 'special': rng.random() < 0.5})
    # --- kind core: integer x float operands of the generic classes, both orders, every binary operation ---
    for op in BIN_OPS:
        for order in (0, 1):
            n = 3 if op in ('cross', 'sep') else rng.choice([2, 3])
            ia = gen_operand(rng, (2,), (n,), 'rand', 'F')
            ia['vals'] = [[float(rng.choice([-2, -1, 1, 2, 3])) for _ in range(n)] for _ in range(2)]
            ia['int'] = True
            fb = gen_operand(rng, rng.choice([(), (2,)]), (n,), 'rand', 'F')
            fb['vals'] = [[rng.choice([0.5, -1.5, 0.25, 2.5, -0.75]) for _ in range(n)] for _ in fb['vals']]
            fb.pop('int', None)
            a, b = (ia, fb) if order == 0 else (fb, ia)
            cases.append({'fam': 'bin', 'op': op, 'a': a, 'b': b, 'special': False})
    # --- unary vector operations ----------------------------------------------------
    for op in UN_OPS:
        for _ in range(40 * scale * boost('un:' + op)):
            n = rng.choice([1, 2, 3, 4])
            a = gen_operand(rng, rng.choice(SHAPES), (n,), rng.choice(['rand', 'rand', 'axis', 'zero']))
            cases.append({'fam': 'un', 'op': op, 'a': a, 'special': rng.random() < 0.5})
    # --- matrices --------------------------------------------------------------------------
    for _ in range(120 * scale * boost('mat')):
        n, k, m = rng.choice([1, 2, 3, 4]), rng.choice([1, 2, 3, 4]), rng.choice([1, 2, 3, 4])
        sa, sb = rng.choice(BPAIRS)
        op = rng.choice(['matmul', 'matmul', 'matvec', 'transpose', 'inverse', 'inverse'])
        a = gen_operand(rng, sa, (n, k), 'rand')
        if op == 'matmul':
            b = gen_operand(rng, sb, (k, m), 'rand')
        elif op == 'matvec':
            b = gen_operand(rng, sb, (k,), 'rand')
        else:
            b = None
        if op == 'inverse':
            a = gen_operand(rng, sa, (n, n), 'rand')
            if rng.random() < 0.3 and n >= 2:      # singular items
                for it in a['vals']:
                    if rng.random() < 0.5:
                        it[n:2 * n] = [2 * x for x in it[0:n]]
        cases.append({'fam': 'mat', 'op': op, 'a': a, 'b': b})
    # --- rotation constructors ----------------------------------------------------------------
    def angle_operand(shape, right=False):
        d = gen_operand(rng, shape, (), 'rand')
        pool = RIGHT if right else ANGLES
        d['vals'] = [[rng.choice(pool)] for _ in d['vals']]
        return d

    for _ in range(60 * scale * boost('rot:axis')):
        cases.append({'fam': 'rot', 'op': 'axis', 'axis': rng.randrange(3), 'via': rng.choice(['named', 'axis_rotation']),
                      't': angle_operand(rng.choice(SHAPES), rng.random() < 0.3)})
    for _ in range(30 * scale * boost('rot:pole')):
        sa, sb = rng.choice(BPAIRS)
        cases.append({'fam': 'rot', 'op': 'pole', 'ra': angle_operand(sa, rng.random() < 0.3),
                      'dec': angle_operand(sb, rng.random() < 0.3)})
    for axes in EULER_AXES:
        for _ in range(6 * scale * boost('rot:euler')):
            sa, sb = rng.choice(BPAIRS)
            right = rng.random() < 0.35
            cases.append({'fam': 'rot', 'op': 'euler', 'axes': axes, 'ai': angle_operand(sa, right),
                          'aj': angle_operand(sb, right), 'ak': angle_operand(rng.choice([(), sb]), right)})
    for a1, a2 in TWOVEC_PAIRS:
        for _ in range(12 * scale * boost('rot:twovec')):
            sa, sb = rng.choice(BPAIRS)
            kind = rng.choice(['rand', 'rand', 'axis', 'zero'])
            a = gen_operand(rng, sa, (3,), kind)
            b = gen_operand(rng, sb, (3,), rng.choice(['rand', 'rand', 'axis']))
            if kind == 'axis' and sa == sb and rng.random() < 0.5:
                f = rng.choice([1.0, -1.0, 2.0])
                b = dict(a, vals=[[f * x for x in it] for it in a['vals']], mask=b['mask'], mrep=b['mrep'])
            cases.append({'fam': 'rot', 'op': 'twovec', 'a1': a1, 'a2': a2, 'a': a, 'b': b})
    for _ in range(40 * scale * boost('rot:rotate')):
        sa, sb = rng.choice(BPAIRS)
        cases.append({'fam': 'rot', 'op': 'rotate', 'axes': rng.choice(EULER_AXES),
                      'ai': angle_operand(sa), 'aj': angle_operand(()), 'ak': angle_operand(()),
                      'v': gen_operand(rng, sb, rng.choice([(3,), (3, 3), (3, 2)]), 'rand')})
    # --- quaternions -----------------------------------------------------------------------------
    for _ in range(60 * scale * boost('quat')):
        sa, sb = rng.choice(BPAIRS)
        cases.append({'fam': 'quat', 'op': rng.choice(['mul', 'conj', 'reciprocal', 'to_matrix3', 'mulmat', 'parts', 'vmul', 'to_rotation']),
                      'p': gen_operand(rng, sa, (4,), rng.choice(['rand', 'rand', 'axis', 'zero'])),
                      'q': gen_operand(rng, sb, (4,), 'rand')})
    for k in range(24 * scale * boost('quat')):
        sa, sb = rng.choice(BPAIRS)
        cases.append({'fam': 'quat', 'op': ('vmul', 'to_rotation')[k % 2],
                      'p': gen_operand(rng, sa, (4,), 'rand', rep=('F', 'mix', 'aF')[k % 3]),
                      'q': gen_operand(rng, sb, (4,), 'rand', rep=('F', 'F', 'mix')[(k // 2) % 3])})
    for _ in range(30 * scale * boost('quat')):
        sa, sb = rng.choice(BPAIRS)
        cases.append({'fam': 'quat', 'op': 'from_rotation', 't': angle_operand(sa, rng.random() < 0.3),
                      'v': gen_operand(rng, sb, (3,), rng.choice(['rand', 'axis', 'zero']))})
    for axes in EULER_AXES:
        for _ in range(4 * scale * boost('quat:euler')):
            right = rng.random() < 0.35
            sa, sb = rng.choice(BPAIRS)
            cases.append({'fam': 'quat', 'op': 'euler', 'axes': axes, 'ai': angle_operand(sa, right),
                          'aj': angle_operand(sb, right), 'ak': angle_operand((), right)})
    # --- a small exhaustive core: every Euler convention at every triple of right angles ---------
    core = [-math.pi / 2, 0.0, math.pi / 2, math.pi] if tier == 'quick' else RIGHT
    for axes in EULER_AXES:
        for ai, aj, ak in itertools.product(core, repeat=3):
            cases.append({'fam': 'rot', 'op': 'euler1', 'axes': axes, 'angles': [ai, aj, ak]})
    return cases


# ---------------------------------------------------------------------------
# numeric part: running one case
# ---------------------------------------------------------------------------
def R_axis(k, t):
    c, s = np.cos(t), np.sin(t)
    z, o = np.zeros_like(c), np.ones_like(c)
    rows = {0: [[o, z, z], [z, c, -s], [z, s, c]],
            1: [[c, z, s], [z, o, z], [-s, z, c]],
            2: [[c, -s, z], [s, c, z], [z, z, o]]}[k]
    return np.stack([np.stack(r, axis=-1) for r in rows], axis=-2)


def euler_matrix_ref(axes, ai, aj, ak):
    """independent of the source's tables: 'sABC' = R_C(ak) R_B(aj) R_A(ai), 'rABC' = R_A(ai) R_B(aj) R_C(ak)"""
    A, B, C = ['xyz'.index(ch) for ch in axes[1:]]
    if axes[0] == 's':
        return R_axis(C, ak) @ R_axis(B, aj) @ R_axis(A, ai)
    return R_axis(A, ai) @ R_axis(B, aj) @ R_axis(C, ak)


def rot_residual(M):
    """max |M M^T - I|, max |det - 1| over the given matrices"""
    I = np.eye(3)
    r1 = np.abs(M @ np.swapaxes(M, -1, -2) - I).reshape(M.shape[:-2] + (9,)).max(axis=-1)
    r2 = np.abs(np.linalg.det(M) - 1)
    return np.maximum(r1, r2)


def check_rotation(obs, mask, tol=1e-9):
    if list(obs['shape']) != list(mask.shape):
        return 'shape %s, expected %s' % (obs['shape'], list(mask.shape))
    if obs['cls'] != 'Matrix3':
        return 'class %s' % obs['cls']
    if not np.array_equal(obs['mask'], mask):
        return 'mask %s, expected %s' % (obs['mask'].astype(int).tolist(), mask.astype(int).tolist())
    res = rot_residual(obs['vals'])
    bad = (~mask) & ~(res <= tol)
    if np.any(bad):
        return 'unmasked result is not a rotation: residual %.3g' % float(np.nanmax(np.where(bad, res, 0)))
    return None


def angles_of(d, Pm):
    return build(d, Pm.Scalar), arr_of(d), mask_of(d)


_BUILT = []          # (object, snapshot) of every operand built for the current case
_WITH_DERIVS = [False]


def _snap(q):
    return (np.asarray(q._values_).tobytes(), np.broadcast_to(np.asarray(q._mask_), q.shape).tobytes(),
            np.shape(q._mask_))


def run_case(c, Pm):
    """run_case0 + the operands must come out of the operations as they went in (values and masks): a result that
    is right while an operand was altered disagrees with the reference the next time that operand is used
    (seeded change C16-F: to_matrix3 OR-ed the zero-quaternion mask into the operand's own mask array)"""
    del _BUILT[:]
    prob, det, nontriv = run_case0(c, Pm)
    if prob is None:
        for k, (q, before) in enumerate(_BUILT):
            if _snap(q) != before:
                prob = 'operand %d (%s) was modified by the operation' % (k, type(q).__name__)
                break
    if prob is None and len(_BUILT) >= 2 and not any(q._drank_ for q, _ in _BUILT):
        del _BUILT[:]
        _WITH_DERIVS[0] = True
        try:
            prob2, det2, _ = run_case0(c, Pm)
        finally:
            _WITH_DERIVS[0] = False
        if prob2 is not None:
            prob, det = 'with a derivative on every operand: ' + str(prob2), det2
        else:
            for k, (q, before) in enumerate(_BUILT):
                if _snap(q) != before:
                    prob = 'operand %d (%s) was modified by the operation when every operand carries a derivative' % (k, type(q).__name__)
                    break
    del _BUILT[:]
    return prob, det, nontriv


def run_case0(c, Pm):
    """returns (problem or None, detail dict, nontrivial flag)"""
    fam, op = c['fam'], c['op']
    det = {}
    with warnings.catch_warnings():
        warnings.simplefilter('error')
        try:
            if fam == 'axisop':
                a, b = build(c['a'], Pm.Matrix), build(c['b'], Pm.Vector)
                A, B = arr_of(c['a']), arr_of(c['b'])
                sa, sb = tuple(c['a']['shape']), tuple(c['b']['shape'])
                lead = np.broadcast_shapes(sa, sb)
                item = tuple(c['a']['item'])
                a1 = c['axis1'] % 2
                Ab = np.broadcast_to(A.reshape((1,) * (len(lead) - len(sa)) + sa + item), lead + item)
                Bb = np.broadcast_to(B.reshape((1,) * (len(lead) - len(sb)) + sb + (item[a1],)), lead + (item[a1],))
                if op == 'cross':
                    vals = np.cross(Ab, Bb[..., None, :] if a1 == 1 else Bb[..., :, None], axisa=len(lead) + a1,
                                    axisb=len(lead) + a1, axisc=len(lead) + a1)
                    r = Pm.Qube.cross(a, b, axis1=c['axis1'], axis2=0)
                else:
                    vals = np.einsum('...ij,...j->...i', Ab, Bb) if a1 == 1 else np.einsum('...ji,...j->...i', Ab, Bb)
                    r = Pm.Qube.dot(a, b, axis1=c['axis1'], axis2=0)
                mask = np.broadcast_to(mask_of(c['a']).reshape((1,) * (len(lead) - len(sa)) + sa), lead) | \
                    np.broadcast_to(mask_of(c['b']).reshape((1,) * (len(lead) - len(sb)) + sb), lead)
                obs = observe(r)
                det = {'impl': str(r)[:400], 'ref_vals': vals.tolist(), 'ref_mask': mask.tolist()}
                return compare(obs, vals, mask), det, bool(np.any(mask)) or sa != sb
            if fam == 'bin':
                n = c['a']['item'][0]
                ca = cls_for(Pm, n, c['special'])
                cb = cls_for(Pm, c['b']['item'][0], c['special'])
                a, b = build(c['a'], ca), build(c['b'], cb)
                da, db = len(c['a'].get('denom', ())), len(c['b'].get('denom', ()))
                vals, mask = ref_binary(op, arr_of(c['a']), arr_of(c['b']), mask_of(c['a']), mask_of(c['b']),
                                        tuple(c['a']['shape']), tuple(c['b']['shape']), da, db)
                r = getattr(a, op)(b)
                obs = observe(r)
                det = {'impl': str(r)[:400], 'ref_vals': vals.tolist(), 'ref_mask': mask.tolist()}
                tol = 1e-7 if op == 'sep' else RTOL
                prob = compare(obs, vals, mask, rtol=tol, atol=1e-7 if op == 'sep' else ATOL)
                if prob is None and op == 'perp':
                    # identities: perp + proj = v, perp . axis = 0
                    pr = a.proj(b)
                    tot = observe(r + pr)
                    A0 = arr_of(c['a'])
                    A = np.broadcast_to(A0.reshape((1,) * (mask.ndim - len(c['a']['shape'])) + A0.shape),
                                        mask.shape + (n,))
                    pr0 = compare(tot, A, mask)
                    prob = pr0 and ('perp + proj != v: ' + pr0)
                    if prob is None:
                        d0 = observe(r.dot(b))
                        prob = compare(d0, np.zeros(mask.shape), mask, atol=1e-9) and 'perp . axis != 0'
                if prob is None and op == 'cross' and n == 3 and not da and not db:
                    d0 = observe(r.dot(a))
                    prob = compare(d0, np.zeros(mask.shape), mask, atol=1e-9) and 'cross . a != 0'
                nontriv = bool(np.any(mask)) or c['a']['shape'] != c['b']['shape']
                return prob, det, nontriv
            if fam == 'un':
                n = c['a']['item'][0]
                a = build(c['a'], cls_for(Pm, n, c['special']))
                vals, mask = ref_unary(op, arr_of(c['a']), mask_of(c['a']), tuple(c['a']['shape']))
                r = getattr(a, op)()
                det = {'impl': str(r)[:400], 'ref_vals': vals.tolist(), 'ref_mask': mask.tolist()}
                prob = compare(observe(r), vals, mask)
                if prob is None and op == 'unit':
                    prob = compare(observe(r.norm()), np.ones(mask.shape), mask) and '|unit| != 1'
                return prob, det, bool(np.any(mask))
            if fam == 'mat':
                a = build(c['a'], Pm.Matrix)
                A, ma, sa = arr_of(c['a']), mask_of(c['a']), tuple(c['a']['shape'])
                if op in ('matmul', 'matvec'):
                    b = build(c['b'], Pm.Matrix if op == 'matmul' else Pm.Vector)
                    vals, mask = ref_binary(op, A, arr_of(c['b']), ma, mask_of(c['b']), sa, tuple(c['b']['shape']), 0, 0)
                    r = a * b
                    prob = compare(observe(r), vals, mask)
                    if prob is None and op == 'matmul':
                        lt, rt = observe((a * b).transpose()), observe(b.transpose() * a.transpose())
                        prob = compare(lt, rt['vals'], mask) and '(MN)^T != N^T M^T'
                elif op == 'transpose':
                    vals, mask = ref_unary(op, A, ma, sa)
                    r = a.transpose()
                    prob = compare(observe(r), vals, mask)
                else:
                    vals, mask = ref_unary(op, A, ma, sa)
                    r = a.inverse()
                    obs = observe(r)
                    # the property speaks of well-conditioned values: items that are singular up to
                    # rounding (float det tiny but not 0) are not compared
                    with np.errstate(all='ignore'):
                        illc = ~(np.linalg.cond(A) < 1e8) & (np.linalg.det(A) != 0)
                    mask = mask | illc
                    obs['mask'] = obs['mask'] | illc
                    prob = compare(obs, vals, mask, rtol=1e-7, atol=1e-9)
                    if prob is None:
                        n = A.shape[-1]
                        one = observe(a * r)
                        one['mask'] = one['mask'] | illc
                        prob = compare(one, np.broadcast_to(np.eye(n), mask.shape + (n, n)), mask, rtol=1e-7, atol=1e-8) \
                            and 'M * M.inverse() != I where unmasked'
                det = {'impl': str(r)[:400], 'ref_vals': np.asarray(vals).tolist(), 'ref_mask': mask.tolist()}
                return prob, det, bool(np.any(mask))
            if fam == 'rot':
                return run_rot(c, Pm)
            if fam == 'quat':
                return run_quat(c, Pm)
        except Exception as e:       # noqa
            name, site = lib.exc_family(e)
            return 'exception %s at %s: %s' % (name, site, str(e)[:200]), {'exc': name, 'site': site}, True
    raise KeyError(fam)


def run_rot(c, Pm):
    op = c['op']
    if op == 'axis':
        t, T, mt = angles_of(c['t'], Pm)
        k = c['axis']
        if c['via'] == 'named':
            r = getattr(Pm.Matrix3, 'xyz'[k] + '_rotation')(t)
        else:
            r = Pm.Matrix3.axis_rotation(t, k)
        obs = observe(r)
        prob = check_rotation(obs, mt)
        if prob is None:
            # the documented sense, as implemented: y and z counterclockwise, x clockwise (see claims)
            ref = R_axis(k, -T if k == 0 else T)
            prob = compare(obs, ref, mt)
        return prob, {'impl': str(r)[:300]}, bool(np.any(mt))
    if op == 'pole':
        ra, RA, m1 = angles_of(c['ra'], Pm)
        dec, DEC, m2 = angles_of(c['dec'], Pm)
        s = np.broadcast_shapes(RA.shape, DEC.shape)
        r = Pm.Matrix3.pole_rotation(ra, dec)
        obs = observe(r)
        mask = bmask(m1, m2, s)
        prob = check_rotation(obs, mask)
        if prob is None:
            # third row is the pole direction
            RAb, DECb = np.broadcast_to(RA, s), np.broadcast_to(DEC, s)
            pole = np.stack([np.cos(RAb) * np.cos(DECb), np.sin(RAb) * np.cos(DECb), np.sin(DECb)], axis=-1)
            zrow = {'cls': 'x', 'shape': list(s), 'vals': obs['vals'][..., 2, :], 'mask': obs['mask']}
            prob = compare(zrow, pole, mask) and 'third row is not the pole'
        return prob, {'impl': str(r)[:300]}, bool(np.any(mask))
    if op in ('euler', 'euler1'):
        if op == 'euler1':
            ai, aj, ak = [Pm.Scalar(x) for x in c['angles']]
            AI, AJ, AK = [np.array(x) for x in c['angles']]
            mask = np.array(False)
            s = ()
        else:
            ai, AI, m1 = angles_of(c['ai'], Pm)
            aj, AJ, m2 = angles_of(c['aj'], Pm)
            ak, AK, m3 = angles_of(c['ak'], Pm)
            s = np.broadcast_shapes(AI.shape, AJ.shape, AK.shape)
            mask = bmask(bmask(m1, m2, s), m3, s)
        axes = c['axes']
        r = Pm.Matrix3.from_euler(ai, aj, ak, axes)
        obs = observe(r)
        prob = check_rotation(obs, np.broadcast_to(mask, s))
        mask = np.broadcast_to(mask, s)
        if prob is None:
            ref = euler_matrix_ref(axes, np.broadcast_to(AI, s), np.broadcast_to(AJ, s), np.broadcast_to(AK, s))
            prob = compare(obs, ref, mask) and 'from_euler != product of the axis rotations: ' + str(compare(obs, ref, mask))
        if prob is None:
            # round trip through to_euler
            e = r.to_euler(axes)
            for x in e:
                if not np.array_equal(np.broadcast_to(np.asarray(x.mask), s), mask):
                    prob = 'to_euler mask'
            if prob is None:
                back = observe(Pm.Matrix3.from_euler(e[0], e[1], e[2], axes))
                prob = compare(back, obs['vals'], mask, rtol=1e-7, atol=1e-7) and \
                    'from_euler(to_euler(R)) != R: ' + str(compare(back, obs['vals'], mask, rtol=1e-7, atol=1e-7))
        if prob is None:
            # Matrix3 -> Quaternion -> Matrix3
            q = r.to_quaternion()
            qn = observe(q.norm())
            prob = compare(qn, np.ones(s), mask, rtol=1e-9) and 'from_matrix3 is not a unit quaternion'
            if prob is None:
                back = observe(q.to_matrix3())
                pr = compare(back, obs['vals'], mask, rtol=1e-7, atol=1e-7)
                prob = pr and 'Matrix3 -> Quaternion -> Matrix3: ' + pr
        return prob, {'impl': str(r)[:300]}, bool(np.any(mask)) or op == 'euler1'
    if op == 'twovec':
        a, b = build(c['a'], v3cls(c, Pm, 'a')), build(c['b'], v3cls(c, Pm, 'b'))
        A, B = arr_of(c['a']), arr_of(c['b'])
        s = np.broadcast_shapes(A.shape[:-1], B.shape[:-1])
        Ab, Bb = np.broadcast_to(A, s + (3,)), np.broadcast_to(B, s + (3,))
        cr = np.cross(Ab, Bb)
        undef = (np.abs(cr).max(axis=-1) == 0)
        mask = bmask(mask_of(c['a']), mask_of(c['b']), s) | undef
        r = Pm.Matrix3.twovec(a, c['a1'], b, c['a2'])
        obs = observe(r)
        prob = check_rotation(obs, mask)
        if prob is None:
            # row a1 is the direction of a; b lies in the half plane (a1, a2): row a3 . b = 0, row a2 . b > 0
            na = np.linalg.norm(Ab, axis=-1)
            row1 = {'cls': 'x', 'shape': list(s), 'vals': obs['vals'][..., c['a1'], :], 'mask': obs['mask']}
            prob = compare(row1, Ab / np.where(na == 0, 1, na)[..., None], mask) and 'row axis1 is not unit(vector1)'
        if prob is None:
            a3 = 3 - c['a1'] - c['a2']
            d3 = np.einsum('...i,...i->...', obs['vals'][..., a3, :], Bb)
            d2 = np.einsum('...i,...i->...', obs['vals'][..., c['a2'], :], Bb)
            if np.any((~mask) & ((np.abs(d3) > 1e-9) | (d2 <= 0))):
                prob = 'vector2 is not in the (axis1, axis2) half plane'
        return prob, {'impl': str(r)[:300], 'ref_mask': mask.tolist()}, bool(np.any(mask))
    if op == 'rotate':
        ai, AI, m1 = angles_of(c['ai'], Pm)
        aj, AJ, m2 = angles_of(c['aj'], Pm)
        ak, AK, m3 = angles_of(c['ak'], Pm)
        M = Pm.Matrix3.from_euler(ai, aj, ak, c['axes'])
        item = tuple(c['v']['item'])
        cls = Pm.Vector3 if item == (3,) else Pm.Matrix
        v = build(c['v'], cls)
        V = arr_of(c['v'])
        s = np.broadcast_shapes(AI.shape, V.shape[:len(c['v']['shape'])])
        mask = bmask(bmask(bmask(m1, m2, AI.shape), m3, AI.shape), mask_of(c['v']), s)
        Mref = np.broadcast_to(euler_matrix_ref(c['axes'], AI, AJ, AK), s + (3, 3))
        Vb = np.broadcast_to(V, s + item)
        w = M.rotate(v)
        ref = np.einsum('...ik,...k->...i', Mref, Vb) if item == (3,) else np.einsum('...ik,...kj->...ij', Mref, Vb)
        prob = compare(observe(w), ref, mask)
        if prob is None:
            u = M.unrotate(w)
            prob = compare(observe(u), Vb, mask) and 'unrotate(rotate(v)) != v'
        if prob is None:
            u = M.rotate(M.unrotate(v))
            prob = compare(observe(u), Vb, mask) and 'rotate(unrotate(v)) != v'
        return prob, {'impl': str(w)[:300]}, bool(np.any(mask))
    raise KeyError(op)


def qmul_ref(p, q):
    a0, a1, a2, a3 = [p[..., i] for i in range(4)]
    b0, b1, b2, b3 = [q[..., i] for i in range(4)]
    return np.stack([a0 * b0 - a1 * b1 - a2 * b2 - a3 * b3, a0 * b1 + a1 * b0 + a2 * b3 - a3 * b2,
                     a0 * b2 - a1 * b3 + a2 * b0 + a3 * b1, a0 * b3 + a1 * b2 - a2 * b1 + a3 * b0], axis=-1)


def qmat_ref(q):
    n = np.sqrt((q * q).sum(axis=-1))
    u = q / np.where(n == 0, 1, n)[..., None]
    s, x, y, z = [u[..., i] for i in range(4)]
    rows = [[1 - 2 * (y * y + z * z), 2 * (x * y - s * z), 2 * (x * z + s * y)],
            [2 * (x * y + s * z), 1 - 2 * (x * x + z * z), 2 * (y * z - s * x)],
            [2 * (x * z - s * y), 2 * (y * z + s * x), 1 - 2 * (x * x + y * y)]]
    return np.stack([np.stack(r, axis=-1) for r in rows], axis=-2), n == 0


def v3cls(c, Pm, key):
    """the class in which a 3-vector operand is handed over: Vector3, or - for every other case - the generic Vector,
    which the rotation constructors convert with as_vector3 (seeded change C16-M: that conversion lost the mask)"""
    return Pm.Vector if (len(str(c.get(key, {}).get('vals', ''))) % 2) else Pm.Vector3


def run_quat(c, Pm):
    op = c['op']
    if op == 'from_rotation':
        t, T, mt = angles_of(c['t'], Pm)
        v = build(c['v'], v3cls(c, Pm, 'v'))
        V = arr_of(c['v'])
        s = np.broadcast_shapes(T.shape, V.shape[:-1])
        Vb = np.broadcast_to(V, s + (3,))
        nv = np.linalg.norm(Vb, axis=-1)
        mask = bmask(mt, mask_of(c['v']), s) | (nv == 0)
        Tb = np.broadcast_to(T, s)
        ref = np.concatenate([np.cos(Tb / 2)[..., None], np.sin(Tb / 2)[..., None] * Vb / np.where(nv == 0, 1, nv)[..., None]],
                             axis=-1)
        q = Pm.Quaternion.from_rotation(t, v)
        prob = compare(observe(q), ref, mask)
        if prob is None:
            prob = compare(observe(q.norm()), np.ones(s), mask) and 'from_rotation is not a unit quaternion'
        if prob is None:
            # the matrix of the quaternion rotates about v by t: it fixes v
            M = q.to_matrix3()
            w = M.rotate(Pm.Vector3(Vb))
            prob = compare(observe(w), Vb, mask, rtol=1e-9, atol=1e-9) and 'rotation does not fix its axis'
        return prob, {'impl': str(q)[:300]}, bool(np.any(mask))
    if op == 'euler':
        ai, AI, m1 = angles_of(c['ai'], Pm)
        aj, AJ, m2 = angles_of(c['aj'], Pm)
        ak, AK, m3 = angles_of(c['ak'], Pm)
        s = np.broadcast_shapes(AI.shape, AJ.shape, AK.shape)
        mask = bmask(bmask(m1, m2, s), m3, s)
        q = Pm.Quaternion.from_euler(ai, aj, ak, c['axes'])
        obs = observe(q)
        prob = compare(observe(q.norm()), np.ones(s), mask) and 'Quaternion.from_euler is not a unit quaternion'
        if prob is None:
            ref = euler_matrix_ref(c['axes'], np.broadcast_to(AI, s), np.broadcast_to(AJ, s), np.broadcast_to(AK, s))
            M = observe(q.to_matrix3())
            pr = compare(M, ref, mask, rtol=1e-8, atol=1e-8)
            prob = pr and 'to_matrix3(Quaternion.from_euler) != Matrix3 Euler product: ' + pr
        if prob is None:
            e = q.to_euler(c['axes'])
            back = observe(Pm.Matrix3.from_euler(e[0], e[1], e[2], c['axes']))
            pr = compare(back, ref, mask, rtol=1e-7, atol=1e-7)
            prob = pr and 'Quaternion Euler round trip: ' + pr
        return prob, {'impl': str(q)[:300]}, bool(np.any(mask))
    p, q = build(c['p'], Pm.Quaternion), build(c['q'], Pm.Quaternion)
    Pv, Qv = arr_of(c['p']), arr_of(c['q'])
    mp, mq = mask_of(c['p']), mask_of(c['q'])
    sp = tuple(c['p']['shape'])
    s = np.broadcast_shapes(sp, tuple(c['q']['shape']))
    Pb, Qb = np.broadcast_to(Pv, s + (4,)), np.broadcast_to(Qv, s + (4,))
    if op == 'mul':
        r = p * q
        mask = bmask(mp, mq, s)
        prob = compare(observe(r), qmul_ref(Pb, Qb), mask)
        if prob is None:
            pr = compare(observe(r.norm_sq()), (Pb * Pb).sum(-1) * (Qb * Qb).sum(-1), mask)
            prob = pr and 'norm not multiplicative'
    elif op == 'conj':
        r = p.conj()
        prob = compare(observe(r), Pv * np.array([1, -1, -1, -1.0]), mp)
    elif op == 'reciprocal':
        n2 = (Pv * Pv).sum(-1)
        mask = mp | (n2 == 0)
        r = p.reciprocal()
        prob = compare(observe(r), Pv * np.array([1, -1, -1, -1.0]) / np.where(n2 == 0, 1, n2)[..., None], mask)
        if prob is None:
            one = observe(p * r)
            prob = compare(one, np.broadcast_to(np.array([1.0, 0, 0, 0]), sp + (4,)), mask, atol=1e-9) and 'q * q.reciprocal() != 1'
    elif op == 'to_matrix3':
        ref, zero = qmat_ref(Pv)
        mask = mp | zero
        r = p.to_matrix3()
        obs = observe(r)
        prob = check_rotation(obs, mask) or compare(obs, ref, mask)
    elif op == 'mulmat':
        refp, zp = qmat_ref(Pb)
        refq, zq = qmat_ref(Qb)
        mask = bmask(mp, mq, s) | zp | zq
        l = observe((p * q).to_matrix3())
        r = p.to_matrix3() * q.to_matrix3()
        prob = compare(l, observe(r)['vals'], mask, rtol=1e-8, atol=1e-9) and 'to_matrix3(p q) != to_matrix3 p . to_matrix3 q'
        if prob is None:
            prob = compare(observe(r), refp @ refq, mask, rtol=1e-8, atol=1e-9)
    elif op == 'parts':
        sc, ve = p.to_parts()
        r = Pm.Quaternion.from_parts(sc, ve)
        prob = compare(observe(sc), Pv[..., 0], mp) or compare(observe(ve), Pv[..., 1:], mp) or \
            compare(observe(r), Pv, mp)
        if prob is None:        # the vector part handed over as a generic Vector (converted by as_vector3)
            r2 = Pm.Quaternion.from_parts(sc, Pm.Vector(ve.values, ve.mask))
            pr = compare(observe(r2), Pv, mp)
            prob = pr and 'from_parts(scalar, generic Vector): ' + pr
        mask = mp
    elif op == 'vmul':
        # a generic 3-vector next to a quaternion stands for the pure quaternion (0, v), on either side
        # (seeded change C16-N: Quaternion.__rmul__ multiplied in the wrong order)
        Vp = np.concatenate([np.zeros(Pv.shape[:-1] + (1,)), Pv[..., 1:]], axis=-1)
        Vb = np.broadcast_to(Vp, s + (4,))
        v = Pm.Vector(Pv[..., 1:].copy(), p.mask)
        mask = bmask(mp, mq, s)
        r = v * q
        prob = compare(observe(r), qmul_ref(Vb, Qb), mask)
        prob = prob and 'Vector * Quaternion is not (0,v) * q: ' + prob
        if prob is None:
            r = q * v
            prob = compare(observe(r), qmul_ref(Qb, Vb), mask)
            prob = prob and 'Quaternion * Vector is not q * (0,v): ' + prob
    elif op == 'to_rotation':
        # angle and axis of any quaternion, normalised or not: from_rotation gives the unit quaternion back
        # (seeded change C16-O: a formula valid for unit quaternions only)
        n = np.sqrt((Pv * Pv).sum(-1))
        nv = np.sqrt((Pv[..., 1:] ** 2).sum(-1))
        mask = mp | (nv == 0)
        ang, axis = p.to_rotation()
        refang = 2 * np.arctan2(nv, Pv[..., 0])
        prob = compare(observe(ang), refang, mp)
        prob = prob and 'to_rotation angle: ' + prob
        if prob is None:
            prob = compare(observe(axis), Pv[..., 1:] / np.where(nv == 0, 1, nv)[..., None], mask)
            prob = prob and 'to_rotation axis: ' + prob
        r = Pm.Quaternion.from_rotation(ang, axis)
        if prob is None:
            prob = compare(observe(r), Pv / np.where(n == 0, 1, n)[..., None], mask, rtol=1e-9, atol=1e-9)
            prob = prob and 'from_rotation(*q.to_rotation()) != q.unit(): ' + prob
    else:
        raise KeyError(op)
    return prob, {'impl': str(r)[:300]}, bool(np.any(mp)) or bool(np.any(mq))


def family_of(c):
    if c['fam'] == 'bin':
        return 'bin:' + c['op']
    if c['fam'] == 'un':
        return 'un:' + c['op']
    if c['fam'] == 'mat':
        return 'mat'
    if c['fam'] == 'rot':
        return 'rot:' + {'euler1': 'euler'}.get(c['op'], c['op'])
    return 'quat:euler' if c['op'] == 'euler' else 'quat'


def signature(c, prob, det):
    sig = {'fam': c['fam'], 'op': c['op'], 'problem': (prob or '').split(':')[0][:60]}
    if 'exc' in det:
        sig['exc'] = det['exc']
        sig['site'] = det['site']
    if c['fam'] == 'rot' and c['op'] == 'twovec':
        A, B = arr_of(c['a']), arr_of(c['b'])
        s = np.broadcast_shapes(A.shape[:-1], B.shape[:-1])
        cr = np.cross(np.broadcast_to(A, s + (3,)), np.broadcast_to(B, s + (3,)))
        sig['parallel'] = bool(np.any(np.abs(cr).max(axis=-1) == 0))
    for k in ('a', 'b', 'p', 'q', 'v'):
        if isinstance(c.get(k), dict) and c[k].get('denom'):
            sig['denom'] = k
    if 'axes' in c:
        sig['axes'] = c['axes']
    return sig


def slim(c):
    """a case small enough for the evidence samples"""
    out = {}
    for k, v in c.items():
        if isinstance(v, dict) and 'vals' in v and len(str(v['vals'])) > 300:
            out[k] = {'shape': v['shape'], 'item': v['item'], 'mrep': v['mrep']}
        else:
            out[k] = v
    return out


# ---------------------------------------------------------------------------
def run(ctx):
    Pm = P()
    ctx.rule = ('vector lengths 1-4, matrices 1x1..4x4 incl. rectangular, 11 broadcast-compatible pairs of leading '
                'shapes, 6 mask representations, values from a pool of 22 well-conditioned numbers plus structured '
                'items (axis-aligned, parallel/antiparallel, zero), angles from 33 values incl. all multiples of '
                'pi/12 and pi/2, all 24 Euler conventions, all 6 twovec axis pairs, with and without one '
                'denominator axis; quick = seeded sample + all 24 conventions at every triple of 4 right angles, '
                'thorough = 8x sample + every triple of 9 right angles; non-trivial = a masked element, an '
                'undefined element or a genuine broadcast')
    ctx.assumptions = [
        'identities are proved over the real numbers; the float implementation is compared within relative 1e-9 '
        '(1e-7 for sep, inverse, Euler and quaternion round trips)',
        'LAPACK det/inv are stubs in the trace (hypothesis M.Inv(M) = I); numerically compared with numpy.linalg',
        'tracing follows the path of one generic seed point per kernel; the path condition is a hypothesis of the '
        'obligations',
        'x_rotation is tied to Rx(-t): it has the opposite sense to y_/z_rotation and to its docstring (orthonormal, '
        'det +1 all the same)']
    ctx.trusted = lib.DEFAULT_TRUSTED + [
        'tools/regen/tracer.py (Sym class, NumPy proxy installed in the tracer process, simplification rules) and '
        'emit_coq.py; validated each run by re-evaluating every emitted term at the seed point against the '
        'unpatched implementation',
        'float constants nearest to sqrt 2 / PI are emitted as the real numbers sqrt 2 / PI']
    man = regenerate(ctx, Pm)                                  # stage R
    broken = []
    if ctx.ensure_library():                                   # stage P
        with ThreadPoolExecutor(max_workers=2) as ex:
            fut = ex.submit(ctx.prove, ['theories/Props/C16.v'])
            if man is not None:
                broken = compile_generated(ctx, man, timeout=240 if ctx.tier == 'quick' else 600)
            fut.result()
    focus = sorted({fam for b in broken for pre, fam in KERNEL_FAMILY if b.startswith(pre)})
    if focus:
        ctx.log('searching for a concrete failing input in: %s' % focus)
    cases = gen_cases(ctx.rng, ctx.tier, focus)                # stage K+S
    t0 = time.time()
    fails = {}
    shown = {}
    for c in cases:
        prob, det, nontriv = run_case(c, Pm)
        fam = family_of(c)
        ctx.note_case(slim(c), nontriv)
        ctx.count('family:' + fam)
        for k in ('a', 'b', 'p', 'q', 't', 'ai'):
            if isinstance(c.get(k), dict):
                ctx.count('mrep:' + c[k]['mrep'])
        if prob:
            ties = [('C16_' + b) for b in broken for pre, f in KERNEL_FAMILY if b.startswith(pre) and
                    (fam.startswith(f) or f.startswith(fam))]
            sig = signature(c, prob, det)
            for t in ties:
                ctx.concrete_found.add(t)
            fails[fam] = fails.get(fam, 0) + 1
            key = (fam, sig['problem'])
            shown[key] = shown.get(key, 0) + 1
            if lib.finding_for(ctx.prop, sig, ctx.findings) is None and shown[key] > 3:
                ctx.count('further_failures_not_listed')       # same family and symptom: 3 replay files suffice
                continue
            res = ctx.fail(sig, c, dict(det, problem=prob), tie=None)
            if res == 'violation':
                ctx.log('FAIL %s %s: %s' % (fam, c['op'], prob[:200]))
    ctx.log('numeric: %d cases in %.1fs, failing families: %s' % (len(cases), time.time() - t0, fails))
    ctx.cov['numeric_failures_by_family'] = fails
    ctx.exhaustive = False
    return ctx.finish()


def replay(path):
    Pm = P()
    d = json.load(open(path))
    if 'case' not in d:
        print(json.dumps(d, indent=1)[:4000])
        return 1
    prob, det, _ = run_case(d['case'], Pm)
    print('case      :', json.dumps(d['case'])[:2000])
    for k, v in det.items():
        print('%-10s: %s' % (k, str(v)[:1500]))
    print('property holds on this case' if not prob else 'property FAILS on this case: ' + prob)
    return 0 if not prob else 1
