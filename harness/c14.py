"""C14 - equality, ordering and three-valued logic under masks.

Stages: prove Props/C14.v; generate cases; run the implementation; compare with
(a) a table-driven Python reference (direct oracle = the property statement) and
(b) the Coq model evaluated by vm_compute (correspondence)."""
import itertools
import warnings

import numpy as np

from . import lib, hist
from .lib import cbool, cnat, cZ, clist, cshape, copt

HEADER = 'From Coq Require Import List ZArith Bool.\nFrom PM Require Import Base Mask C14Model.\nImport ListNotations.\n'

SHAPES = [(), (1,), (2,), (3,), (0,), (2, 3), (3, 1), (1, 3), (2, 0), (2, 1, 2)]
BPAIRS = [((), ()), ((), (3,)), ((3,), ()), ((3,), (3,)), ((2, 3), (3,)), ((3, 1), (1, 3)),
          ((2, 1), (2, 3)), ((1,), (3,)), ((2, 3), (2, 3)), ((0,), ()), ((2, 0), (1,)),
          ((2,), (3,)), ((2, 3), (2,)), ((2, 1, 2), (3, 1))]   # last three: some incompatible
MREPS = ['F', 'T', 'aF', 'aT', 'mix', 'bview']


def P():
    lib.setup_impl_path()
    import polymath
    return polymath


# ---------------------------------------------------------------------------
# operands
# ---------------------------------------------------------------------------
def make_mask(rng, shape, rep):
    n = int(np.prod(shape))
    if rep == 'F' or (shape == () and rep in ('aF',)):
        return False
    if rep == 'T' or (shape == () and rep in ('aT',)):
        return True
    if shape == ():
        return rng.random() < 0.5
    if rep == 'aF':
        return np.zeros(shape, bool)
    if rep == 'aT':
        return np.ones(shape, bool)
    if rep == 'bview':
        last = np.array([rng.random() < 0.5 for _ in range(shape[-1])], bool)
        return np.broadcast_to(last, shape)
    return np.array([rng.random() < 0.4 for _ in range(n)], bool).reshape(shape)


def tv_list(vals, mask, shape):
    v = np.broadcast_to(np.asarray(vals), shape).ravel()
    m = np.broadcast_to(np.asarray(mask), shape).ravel()
    return ['M' if mm else ('T' if vv else 'F') for vv, mm in zip(v, m)]


def gen_bool_operand(rng, shape, rep=None):
    rep = rep or rng.choice(MREPS)
    n = int(np.prod(shape))
    vals = [rng.random() < 0.5 for _ in range(n)]
    mask = make_mask(rng, shape, rep)
    return {'shape': list(shape), 'vals': vals,
            'mask': mask if isinstance(mask, bool) else [bool(x) for x in np.asarray(mask).ravel()],
            'mrep': rep}


HIST_MODES = ['sibling', 'sibling', 'setitem', 'iand', 'ior', 'ixor', 'iadd', 'isub', 'imul']
_ALT = {'iand': 'iadd', 'ior': 'isub', 'ixor': 'imul', 'iadd': 'iand', 'isub': 'ior', 'imul': 'ixor', 'itruediv': 'ixor'}


def via_history(d, obj, Pm):
    h = d.get('hist')
    if not h:
        return obj
    mode = h[0]
    if mode not in hist.modes_for(obj):
        mode = _ALT.get(mode, 'setitem')
    return hist.reach(Pm, obj, mode, h[1])


def build_bool(d, Pm):
    return via_history(d, _build_bool(d, Pm), Pm)


def _build_bool(d, Pm):
    shape = tuple(d['shape'])
    if shape == ():
        return Pm.Boolean(bool(d['vals'][0]), d['mask'] if isinstance(d['mask'], bool) else bool(d['mask'][0]))
    vals = np.array(d['vals'], bool).reshape(shape)
    m = d['mask']
    if isinstance(m, bool):
        mask = m
    else:
        mask = np.array(m, bool).reshape(shape)
        if d.get('mrep') == 'bview':
            mask = np.broadcast_to(mask[(0,) * (len(shape) - 1)], shape) \
                if all((mask == mask[(0,) * (len(shape) - 1)]).ravel()) else mask
    return Pm.Boolean(vals, mask)


def coq_mrep(obj):
    m = obj._mask_
    if isinstance(m, (bool, np.bool_)):
        return 'LS %s' % cbool(bool(m))
    return 'LA %s' % clist([cbool(x) for x in np.broadcast_to(m, obj.shape).ravel()], 'bool')


def coq_bobj(obj):
    vals = np.broadcast_to(np.asarray(obj._values_), obj.shape).ravel()
    return '(mkbL %s %s (%s))' % (cshape(obj.shape), clist([cbool(x) for x in vals], 'bool'),
                                  coq_mrep(obj))


UNITS = [None, 'KM', 'SEC', 'M']
UEXP = {None: None, 'KM': (1, 0, 0), 'M': (1, 0, 0), 'SEC': (0, 1, 0)}


def gen_num_operand(rng, shape, item=(), cls='Scalar', unit=None, rep=None, drank=0):
    rep = rep or rng.choice(MREPS)
    n = int(np.prod(shape))
    isz = int(np.prod(item))
    vals = [[rng.choice([-1, 0, 0, 1, 1, 2]) for _ in range(isz)] for _ in range(n)]
    mask = make_mask(rng, shape, rep)
    isfloat = rng.random() < 0.5
    if isfloat and rng.random() < 0.4:
        # fractional values: a float operand compared with an integer one must be compared as given, not after a
        # cast to the integer kind (seeded change C14-F); halves, so that the model can hold them doubled
        vals = [[x + rng.choice([0, 0.5, 0.5, -0.5]) for x in row] for row in vals]
    return {'cls': cls, 'shape': list(shape), 'item': list(item), 'vals': vals,
            'mask': mask if isinstance(mask, bool) else [bool(x) for x in np.asarray(mask).ravel()],
            'mrep': rep, 'unit': unit, 'float': isfloat, 'drank': drank}


def build_num(d, Pm):
    return via_history(d, _build_num(d, Pm), Pm)


def _build_num(d, Pm):
    shape = tuple(d['shape'])
    item = tuple(d['item'])
    arr = np.array(d['vals'], dtype=float if d['float'] else int).reshape(shape + item)
    m = d['mask']
    mask = m if isinstance(m, bool) else np.array(m, bool).reshape(shape)
    cls = getattr(Pm, d['cls'])
    units = getattr(Pm.Units, d['unit']) if d['unit'] else None
    if shape + item == ():
        arr = arr.item()
        if not isinstance(mask, bool):
            mask = bool(mask)
    return cls(arr, mask, units=units, drank=d.get('drank', 0))


def coq_nobj(obj, d):
    vals = np.asarray(obj._values_).reshape((-1, int(np.prod(obj.item)))) if obj.size else []
    items = [clist([cZ(int(round(2 * float(x)))) for x in row], 'Z') for row in vals]    # doubled: halves are exact
    u = UEXP[d['unit']]
    ut = copt('(%s, %s, %s)' % tuple(cZ(x) for x in u), '(Z*Z*Z)') if u else copt(None, '(Z*Z*Z)')
    return '(mknL %s %s %s (%s) %s)' % (cshape(obj.shape), cshape(obj.item),
                                        clist(items, '(list Z)'), coq_mrep(obj), ut)


# ---------------------------------------------------------------------------
# observation of implementation results
# ---------------------------------------------------------------------------
def observe(r, Pm):
    if isinstance(r, (bool, np.bool_)):
        return ('bool', bool(r))
    if isinstance(r, Pm.Qube):
        if not r.is_bool():
            return ('other', repr(r))
        return ('arr', list(r.shape), tv_list(r._values_, r._mask_, r.shape))
    return ('other', repr(r))


def coq_obs(o):
    if o[0] == 'bool':
        return '(OBool %s)' % cbool(o[1])
    if o[0] == 'arr':
        return '(OArr %s %s)' % (cshape(o[1]), clist(o[2], 'tv'))
    return 'OErr'


# ---------------------------------------------------------------------------
# Python reference (the property's own tables)
# ---------------------------------------------------------------------------
KAND = {('F', 'F'): 'F', ('F', 'M'): 'F', ('F', 'T'): 'F', ('M', 'F'): 'F', ('M', 'M'): 'M',
        ('M', 'T'): 'M', ('T', 'F'): 'F', ('T', 'M'): 'M', ('T', 'T'): 'T'}
KOR = {('F', 'F'): 'F', ('F', 'M'): 'M', ('F', 'T'): 'T', ('M', 'F'): 'M', ('M', 'M'): 'M',
       ('M', 'T'): 'T', ('T', 'F'): 'T', ('T', 'M'): 'T', ('T', 'T'): 'T'}


def strict(f):
    def g(x, y):
        if x == 'M' or y == 'M':
            return 'M'
        return 'T' if f(x == 'T', y == 'T') else 'F'
    return g


def kany(l):
    if 'T' in l:
        return 'T'
    return 'F' if all(x == 'F' for x in l) else 'M'


def kall(l):
    if 'F' in l:
        return 'F'
    return 'T' if all(x == 'T' for x in l) else 'M'


def ma_any(l):      # masked values do not exist
    u = [x for x in l if x != 'M']
    return 'M' if (not u and l) else ('T' if 'T' in u else 'F')


def ma_all(l):
    u = [x for x in l if x != 'M']
    return 'M' if (not u and l) else ('F' if 'F' in u else 'T')


def ref_bin(fn, ta, sa, tb, sb):
    try:
        s = np.broadcast_shapes(tuple(sa), tuple(sb))
    except ValueError:
        return ('err',)
    A = np.broadcast_to(np.array(ta, dtype=object).reshape(sa), s).ravel()
    B = np.broadcast_to(np.array(tb, dtype=object).reshape(sb), s).ravel()
    return ('arr', list(s), [fn(x, y) for x, y in zip(A, B)])


def ref_reduce(fn, t, shape, axes):
    arr = np.array(t, dtype=object).reshape(shape)
    if not shape:
        return ('arr', [], list(t))
    axes = tuple(sorted(a % len(shape) for a in axes))
    keep = [i for i in range(len(shape)) if i not in axes]
    out_shape = [shape[i] for i in keep]
    moved = np.transpose(arr, keep + list(axes)).reshape(out_shape + [-1]) if arr.size or True else arr
    flat = moved.reshape(-1, moved.shape[-1]) if out_shape else moved.reshape(1, -1)
    if flat.shape[-1] == 0:
        return None     # no contributors: the tables say nothing (model vs impl still compared)
    return ('arr', out_shape, [fn(list(row)) for row in flat])


# ---------------------------------------------------------------------------
# case generation
# ---------------------------------------------------------------------------
BINOPS = {'tvl_and': ('OpTvlAnd', lambda a, b: a.tvl_and(b), lambda x, y: KAND[x, y]),
          'tvl_or': ('OpTvlOr', lambda a, b: a.tvl_or(b), lambda x, y: KOR[x, y]),
          'and': ('OpAnd', lambda a, b: a & b, strict(lambda p, q: p and q)),
          'or': ('OpOr', lambda a, b: a | b, strict(lambda p, q: p or q)),
          'xor': ('OpXor', lambda a, b: a ^ b, strict(lambda p, q: p != q))}
REDOPS = {'tvl_any': (0, kany), 'tvl_all': (1, kall), 'any': (2, ma_any), 'all': (3, ma_all)}
CMPS = ['eq', 'ne', 'lt', 'le', 'gt', 'ge']


def axes_options(rank):
    out = [None]
    for a in range(-rank, rank):
        out.append(a)
    for r in range(2, rank + 1):
        out.extend(itertools.combinations(range(rank), r))
    return out


def gen_cases(rng, tier):
    cases = []
    nrand = 1500 if tier == 'quick' else 12000
    # exhaustive part: all arrays over {T,F,M}
    maxlen = 4 if tier == 'quick' else 7
    for n in range(0, maxlen + 1):
        for t in itertools.product('TFM', repeat=n):
            d = {'shape': [n], 'vals': [x == 'T' for x in t],
                 'mask': [x == 'M' for x in t], 'mrep': 'mix'}
            for op in ('tvl_any', 'tvl_all', 'any', 'all'):
                cases.append({'kind': 'red', 'op': op, 'a': d, 'axis': None, 'exh': True})
    twod = [(1, 2), (2, 2)] if tier == 'quick' else [(1, 2), (2, 1), (2, 2), (1, 3), (2, 3), (3, 2)]
    for shp in twod:
        n = shp[0] * shp[1]
        for t in itertools.product('TFM', repeat=n):
            d = {'shape': list(shp), 'vals': [x == 'T' for x in t],
                 'mask': [x == 'M' for x in t], 'mrep': 'mix'}
            for axis in (0, 1, -1, (0, 1)):
                for op in ('tvl_any', 'tvl_all'):
                    cases.append({'kind': 'red', 'op': op, 'a': d, 'axis': axis, 'exh': True})
    blen = 2 if tier == 'quick' else 3
    for n in range(1, blen + 1):
        for ta in itertools.product('TFM', repeat=n):
            for tb in itertools.product('TFM', repeat=n):
                da = {'shape': [n], 'vals': [x == 'T' for x in ta], 'mask': [x == 'M' for x in ta], 'mrep': 'mix'}
                db = {'shape': [n], 'vals': [x == 'T' for x in tb], 'mask': [x == 'M' for x in tb], 'mrep': 'mix'}
                for op in BINOPS:
                    cases.append({'kind': 'bin', 'op': op, 'a': da, 'b': db, 'exh': True})
    # the 3x3 table on shapeless operands, every representation
    for xa in 'TFM':
        for xb in 'TFM':
            da = {'shape': [], 'vals': [xa == 'T'], 'mask': xa == 'M', 'mrep': 'F'}
            db = {'shape': [], 'vals': [xb == 'T'], 'mask': xb == 'M', 'mrep': 'F'}
            for op in BINOPS:
                cases.append({'kind': 'bin', 'op': op, 'a': da, 'b': db, 'exh': True})
    # random structured part
    for _ in range(nrand):
        r = rng.random()
        if r < 0.25:
            sa, sb = rng.choice(BPAIRS)
            cases.append({'kind': 'bin', 'op': rng.choice(list(BINOPS)),
                          'a': gen_bool_operand(rng, sa), 'b': gen_bool_operand(rng, sb)})
        elif r < 0.30:
            cases.append({'kind': 'not', 'a': gen_bool_operand(rng, rng.choice(SHAPES))})
        elif r < 0.55:
            shape = rng.choice(SHAPES)
            cases.append({'kind': 'red', 'op': rng.choice(list(REDOPS)),
                          'a': gen_bool_operand(rng, shape),
                          'axis': rng.choice(axes_options(len(shape)))})
        else:
            sa, sb = rng.choice(BPAIRS)
            cls, item = rng.choice([('Scalar', ()), ('Scalar', ()), ('Vector', (3,)), ('Pair', (2,)),
                                    ('Vector', (2,))])
            drank = 0
            if rng.random() < 0.15:     # items with denominator axes: an item is numerator + denominator
                cls, item, drank = rng.choice([('Scalar', (2,), 1), ('Vector', (3, 2), 1), ('Scalar', (2, 2), 2),
                                               ('Pair', (2, 2), 1), ('Vector', (2, 3), 1)])
            ua = rng.choice(UNITS) if rng.random() < 0.3 else None
            ub = rng.choice(UNITS) if rng.random() < 0.3 else ua
            a = gen_num_operand(rng, sa, item, cls, ua, drank=drank)
            drank2 = drank
            if rng.random() < 0.1:       # incompatible items
                cls2, item2 = rng.choice([('Vector', (3,)), ('Pair', (2,)), ('Scalar', ())])
                drank2 = 0
            elif rng.random() < 0.08:    # the same numerator with one more denominator axis (an object and its derivative)
                cls2, item2, drank2 = cls, tuple(item) + (rng.choice([2, 3]),), drank + 1
            else:
                cls2, item2 = cls, item
            b = gen_num_operand(rng, sb, item2, cls2, ub, drank=drank2)
            if rng.random() < 0.15:      # identical operand (reflexivity), possibly copied mask
                b = dict(a)
            elif rng.random() < 0.25 and not drank2:
                # the right operand is not an object of the left one's class: a number / list / ndarray, or a sibling
                # class with the same items (it is converted before the comparison: seeded change C14-F)
                if (cls2, tuple(item2)) == (cls, tuple(item)) and \
                        (b['mask'] is False or (isinstance(b['mask'], list) and not any(b['mask']))):
                    b = dict(b, raw=rng.choice(['list', 'nd', 'num'] if not (sb or item2) else ['list', 'nd']), unit=None)
                elif (cls2, tuple(item2)) == (cls, tuple(item)) == ('Scalar', ()) and sb and rng.random() < 0.5:
                    b = dict(b, raw='ma', unit=None)
                sib = {('Vector', (2,)): 'Pair', ('Pair', (2,)): 'Vector', ('Vector', (3,)): 'Vector3'}.get((cls2, tuple(item2)))
                if sib and 'raw' not in b and rng.random() < 0.6:
                    b = dict(b, cls=sib)
            k = rng.random()
            if drank and 0.35 <= k < 0.8:
                cases.append({'kind': rng.choice(['cmp', 'tvlcmp']), 'op': rng.choice(['eq', 'ne']), 'a': a, 'b': b})
            elif k < 0.35:
                cases.append({'kind': 'cmp', 'op': rng.choice(['eq', 'ne']), 'a': a, 'b': b})
            elif k < 0.55:
                cases.append({'kind': 'cmp', 'op': rng.choice(['lt', 'le', 'gt', 'ge']), 'a': a, 'b': b})
            elif k < 0.8:
                cases.append({'kind': 'tvlcmp', 'op': rng.choice(CMPS), 'a': a, 'b': b})
            else:
                cases.append({'kind': 'truth', 'op': rng.choice(['eq', 'ne']), 'a': a, 'b': b})
    # kind core: an integer object against the same numbers plus one half somewhere, given as number / list / ndarray /
    # object of the same or of a sibling class: equal only where the numbers are equal (seeded change C14-F)
    for cls, item, shape in [('Scalar', (), ()), ('Scalar', (), (3,)), ('Vector', (3,), ()), ('Vector', (3,), (2,)),
                             ('Pair', (2,), (2,)), ('Vector', (2,), (2,))]:
        n, isz = int(np.prod(shape)), int(np.prod(item))
        ivals = [[rng.choice([-1, 0, 1, 2]) for _ in range(isz)] for _ in range(n)]
        fvals = [[float(x) for x in row] for row in ivals]
        fvals[-1][-1] += 0.5
        for raw in (None, 'list', 'nd', 'num', 'sib'):
            if raw == 'num' and (shape or item):
                continue
            a = {'cls': cls, 'shape': list(shape), 'item': list(item), 'vals': ivals, 'mask': False, 'mrep': 'F',
                 'unit': None, 'float': False, 'drank': 0}
            b = dict(a, vals=fvals, float=True)
            if raw == 'sib':
                sib = {('Vector', (2,)): 'Pair', ('Pair', (2,)): 'Vector', ('Vector', (3,)): 'Vector3'}.get((cls, item))
                if not sib:
                    continue
                b['cls'] = sib
            elif raw:
                b['raw'] = raw
            for kind, op in (('cmp', 'eq'), ('cmp', 'ne'), ('tvlcmp', 'eq'), ('truth', 'eq'), ('truth', 'ne')):
                cases.append({'kind': kind, 'op': op, 'a': a, 'b': b})
                if not raw:
                    cases.append({'kind': kind, 'op': op, 'a': b, 'b': a})
    # Polynomials of different orders (compared after padding the shorter one with leading zero coefficients)
    for oa, ob in [(1, 2), (2, 1), (0, 2), (2, 0), (1, 3), (2, 2)]:
        for shape in [(3,), (), (2, 2)]:
            for _ in range(3):
                a = gen_num_operand(rng, shape, (oa + 1,), 'Polynomial')
                b = gen_num_operand(rng, shape, (ob + 1,), 'Polynomial')
                a['float'] = b['float'] = True
                n = max(oa, ob) + 1
                for k in range(len(a['vals'])):          # mostly equal after padding
                    if rng.random() < 0.6:
                        full = ([0] * (n - oa - 1) + list(a['vals'][k]))
                        if all(x == 0 for x in full[:n - ob - 1]):
                            b['vals'][k] = full[n - ob - 1:]
                for op in ('eq', 'ne', 'tvl_eq', 'tvl_ne'):
                    cases.append({'kind': 'polyeq', 'op': op, 'a': a, 'b': b})
    marked = len(cases)
    # history core: every way of reaching an operand through a history x every comparison, on a fixed pattern
    # (so that catching a stale cached view does not depend on which random cases happen to carry a history)
    for mode in sorted(set(HIST_MODES) | {'itruediv', 'derived', 'inplace_num'}):
        for k in range(3):
            for shape, rep in (((3,), 'mix'), ((2, 2), 'mix'), ((3,), 'aT')):
                a = gen_num_operand(rng, shape, (), 'Scalar', None, rep=rep)
                a['float'] = True
                a['vals'] = [[float(v[0])] for v in a['vals']]
                b = gen_num_operand(rng, shape, (), 'Scalar', None, rep='F')
                ah = dict(a, hist=[mode, k])
                for op in CMPS:
                    cases.append({'kind': 'cmp', 'op': op, 'a': ah, 'b': b})
                    cases.append({'kind': 'cmp', 'op': op, 'a': b, 'b': ah})
                for op in ('eq', 'lt'):
                    cases.append({'kind': 'tvlcmp', 'op': op, 'a': ah, 'b': b})
                cases.append({'kind': 'truth', 'op': 'eq', 'a': ah, 'b': a})
    # a fraction of the operands is REACHED THROUGH A HISTORY (harness/hist.py: cached views asked for, then an
    # in-place operation / assignment that brings the object to the described content) - seeded change C14-D
    for c in cases[:marked]:
        for k in ('a', 'b'):
            if k in c and rng.random() < 0.2:
                c[k] = dict(c[k], hist=[rng.choice(HIST_MODES), rng.randrange(24)])
    return cases


# ---------------------------------------------------------------------------
# run one case on the implementation; produce (impl obs, reference obs, coq term)
# ---------------------------------------------------------------------------
PYCMP = {'eq': lambda a, b: a == b, 'ne': lambda a, b: a != b, 'lt': lambda a, b: a < b,
         'le': lambda a, b: a <= b, 'gt': lambda a, b: a > b, 'ge': lambda a, b: a >= b}
COQCMP = {'lt': 'Lt', 'le': 'Le', 'gt': 'Gt', 'ge': 'Ge'}


def keep_vector(rank, axis):
    if axis is None:
        axes = set(range(rank))
    elif isinstance(axis, tuple):
        axes = set(a % rank for a in axis)
    else:
        axes = {axis % rank}
    return [i not in axes for i in range(rank)], sorted(axes)


def num_tv(d, obj):
    """per element: 'M' or the item tuple"""
    shape = tuple(d['shape'])
    vals = np.asarray(obj._values_).reshape((-1, int(np.prod(obj.item)))) if obj.size else np.zeros((0, 1))
    m = np.broadcast_to(np.asarray(obj._mask_), shape).ravel()
    return ['M' if mm else tuple(float(x) for x in row) for row, mm in zip(vals, m)]


def ref_cmp(op, a, b, oa, ob):
    """reference for == != < <= > >= (plain) on element descriptions"""
    sa, sb = a['shape'], b['shape']
    compatible = (a['item'] == b['item'] and
                  (UEXP[a['unit']] is None or UEXP[b['unit']] is None or UEXP[a['unit']] == UEXP[b['unit']]))
    try:
        s = np.broadcast_shapes(tuple(sa), tuple(sb))
    except ValueError:
        s = None
    if a['cls'] != b['cls'] and a['item'] != b['item'] and op in ('eq', 'ne'):
        return None     # conversion between classes re-reads axes; the property does not say how
    if a.get('drank', 0) != b.get('drank', 0):
        if a['item'] != b['item'] and op in ('eq', 'ne') and s is not None:
            # an object against (say) its own derivative: the whole items differ, so the operands are incompatible
            # and compare unequal (seeded change C14-J: only the numerators were compared)
            return ('bool', op == 'ne')
        return None     # same whole item, different numerator/denominator split: the property does not say
    if op in ('eq', 'ne'):
        if not compatible or s is None:
            return ('bool', op == 'ne')
    else:
        if a['cls'] != 'Scalar' or b['cls'] != 'Scalar':
            return ('err',)
        if not compatible or s is None:
            return ('err',)
    ta, tb = num_tv(a, oa), num_tv(b, ob)
    A = np.empty(len(ta), dtype=object)
    A[:] = ta
    B = np.empty(len(tb), dtype=object)
    B[:] = tb
    A = np.broadcast_to(A.reshape(sa), s).ravel()
    B = np.broadcast_to(B.reshape(sb), s).ravel()
    out = []
    for x, y in zip(A, B):
        if op in ('eq', 'ne'):
            if x == 'M' and y == 'M':
                e = True
            elif x == 'M' or y == 'M':
                e = False
            else:
                e = (x == y)
            out.append(e if op == 'eq' else not e)
        else:
            if x == 'M' or y == 'M':
                out.append(False)
            else:
                out.append(PYCMP[op](x[0], y[0]))
    if len(s) == 0:
        return ('bool', bool(out[0]))
    return ('arr', list(s), ['T' if v else 'F' for v in out])


def constants_intact(Pm):
    """the shared Boolean constants are what the library defines (seeded change C14-L: a three-valued comparison of
    shapeless operands masked Boolean.TRUE / Boolean.FALSE themselves, which every later tvl_and / tvl_or with a
    Python bool then used)"""
    B = Pm.Boolean
    bad = []
    for name, v, m in (('TRUE', True, False), ('FALSE', False, False), ('MASKED', None, True)):
        c_ = getattr(B, name)
        if bool(np.all(c_._mask_)) != m or np.shape(c_._mask_) != () or (v is not None and bool(c_._values_) != v) or c_.shape != ():
            bad.append(name)
    return bad


def run_case(c, Pm):
    res = run_case_(c, Pm)
    bad = constants_intact(Pm)
    if bad:
        res['impl'] = ('other', 'Boolean constants changed by this operation: %s' % bad)
        for name, v, m in (('TRUE', True, False), ('FALSE', False, False), ('MASKED', False, True)):   # put them back
            c_ = getattr(Pm.Boolean, name)
            c_._mask_, c_._values_ = m, (v if name != 'MASKED' else c_._values_)
            c_._cache_.clear()
    return res


def run_case_(c, Pm):
    """returns dict(impl=obs|('exc',name,site), ref=obs, coq=term or None, sig=...)"""
    kind = c['kind']
    res = {'coq': None}
    with warnings.catch_warnings():
        warnings.simplefilter('error')
        try:
            if kind == 'bin':
                a, b = build_bool(c['a'], Pm), build_bool(c['b'], Pm)
                ta, tb = tv_list(a._values_, a._mask_, a.shape), tv_list(b._values_, b._mask_, b.shape)
                coqop, fn, tab = BINOPS[c['op']]
                res['ref'] = ref_bin(tab, ta, c['a']['shape'], tb, c['b']['shape'])
                res['coq'] = '(CBin %s %s %s)' % (coqop, coq_bobj(a), coq_bobj(b))
                res['impl'] = observe(fn(a, b), Pm)
            elif kind == 'not':
                a = build_bool(c['a'], Pm)
                ta = tv_list(a._values_, a._mask_, a.shape)
                res['ref'] = ('arr', c['a']['shape'], [{'T': 'F', 'F': 'T', 'M': 'M'}[x] for x in ta])
                res['coq'] = '(CNot %s)' % coq_bobj(a)
                res['impl'] = observe(~a, Pm)
            elif kind == 'red':
                a = build_bool(c['a'], Pm)
                ta = tv_list(a._values_, a._mask_, a.shape)
                shape = c['a']['shape']
                w, fn = REDOPS[c['op']]
                axis = c['axis']
                if isinstance(axis, list):
                    axis = tuple(axis)
                keep, axes = keep_vector(len(shape), axis) if shape else ([], [])
                res['ref'] = ref_reduce(fn, ta, shape, axes)
                res['coq'] = '(CRed %s %s %s)' % (cnat(w), clist([cbool(k) for k in keep], 'bool'), coq_bobj(a))
                res['impl'] = observe(getattr(a, c['op'])(axis=axis), Pm)
            elif kind == 'polyeq':
                # Polynomials of different order: equal where the zero-padded coefficient vectors are (seeded C14-H)
                a, b = build_num(c['a'], Pm), build_num(c['b'], Pm)
                op = c['op']
                n = max(c['a']['item'][0], c['b']['item'][0])
                pad = lambda d: dict(d, cls='Vector', item=[n],        # noqa: E731
                                     vals=[[0] * (n - d['item'][0]) + list(row) for row in d['vals']], hist=None)
                da, db = pad(c['a']), pad(c['b'])
                plain = ref_cmp(op[-2:], da, db, _build_num(da, Pm), _build_num(db, Pm))
                if op.startswith('tvl_'):
                    ms = np.broadcast_shapes(tuple(da['shape']), tuple(db['shape']))
                    mm = (np.broadcast_to(np.broadcast_to(np.asarray(a._mask_), a.shape), ms)
                          | np.broadcast_to(np.broadcast_to(np.asarray(b._mask_), b.shape), ms)).ravel()
                    vals = plain[2] if plain[0] == 'arr' else ['T' if plain[1] else 'F']
                    res['ref'] = ('arr', list(ms), ['M' if m else v for v, m in zip(vals, mm)])
                    res['impl'] = observe(getattr(a, op)(b), Pm)
                else:
                    res['ref'] = plain
                    res['impl'] = observe(PYCMP[op](a, b), Pm)
                if res['impl'][0] == 'bool' and res['ref'][0] == 'arr' and not res['ref'][1]:
                    res['ref'] = ('bool', res['ref'][2][0] == 'T')
            else:
                a, b = build_num(c['a'], Pm), build_num(c['b'], Pm)
                op = c['op']
                b_call = b
                raw = c['b'].get('raw')
                if raw:
                    v = np.asarray(b._values_)
                    if raw == 'ma':
                        # a NumPy MaskedArray as the right operand: its mask counts like an object's (seeded C14-M)
                        mm_ = np.broadcast_to(np.asarray(b._mask_), b.shape)
                        b_call = np.ma.MaskedArray(v.copy(), mask=mm_.copy())
                    else:
                        b_call = v.tolist() if raw == 'list' else (v.copy() if raw == 'nd' else v.item())
                plain = ref_cmp(op, c['a'], c['b'], a, b)
                if plain is None:
                    res['ref'] = None
                    res['impl'] = observe(PYCMP[op](a, b_call), Pm)
                    if res['impl'][0] not in ('bool', 'arr'):
                        res['ref'] = ('bool', op == 'ne')
                    return res
                same_cls = c['a']['cls'] == c['b']['cls']
                if kind == 'cmp':
                    res['ref'] = plain
                    if same_cls:
                        if op == 'eq':
                            res['coq'] = '(CEq %s %s)' % (coq_nobj(a, c['a']), coq_nobj(b, c['b']))
                        elif op == 'ne':
                            res['coq'] = '(CNe %s %s)' % (coq_nobj(a, c['a']), coq_nobj(b, c['b']))
                        elif c['a']['cls'] == 'Scalar':
                            res['coq'] = '(COrd %s %s %s)' % (COQCMP[op], coq_nobj(a, c['a']), coq_nobj(b, c['b']))
                    res['impl'] = observe(PYCMP[op](a, b_call), Pm)
                elif kind == 'tvlcmp':
                    if plain[0] == 'err':
                        res['ref'] = plain
                    else:
                        s = plain[1] if plain[0] == 'arr' else []
                        vals = plain[2] if plain[0] == 'arr' else ['T' if plain[1] else 'F']
                        try:
                            ms = np.broadcast_shapes(tuple(c['a']['shape']), tuple(c['b']['shape']))
                            ma = np.broadcast_to(np.asarray(a._mask_), a.shape)
                            mb = np.broadcast_to(np.asarray(b._mask_), b.shape)
                            mm = (np.broadcast_to(ma, ms) | np.broadcast_to(mb, ms)).ravel()
                            if plain[0] == 'bool' and len(ms) > 0:
                                # incompatible operands: documented result is the plain answer
                                res['ref'] = None
                            else:
                                res['ref'] = ('arr', list(ms), ['M' if m else v for v, m in zip(vals, mm)])
                        except ValueError:
                            res['ref'] = None
                    if same_cls and (op in ('eq', 'ne') or c['a']['cls'] == 'Scalar') and res.get('ref'):
                        res['coq'] = '(CTvlCmp %s %s %s)' % (cnat(CMPS.index(op)), coq_nobj(a, c['a']), coq_nobj(b, c['b']))
                    res['impl'] = observe(getattr(a, 'tvl_' + op)(b_call), Pm)
                elif kind == 'truth':
                    if plain[0] == 'bool':
                        res['ref'] = plain
                    else:
                        vals = [v == 'T' for v in plain[2]]
                        res['ref'] = ('bool', all(vals) if op == 'eq' else any(vals))
                    if same_cls:
                        res['coq'] = '(CTruth %s %s %s)' % (cnat(0 if op == 'eq' else 1), coq_nobj(a, c['a']), coq_nobj(b, c['b']))
                    res['impl'] = ('bool', bool(PYCMP[op](a, b_call)))
        except Exception as e:       # noqa
            name, site = lib.exc_family(e)
            res['impl'] = ('exc', name, site)
            if 'ref' not in res:
                res['ref'] = None
    return res


def same(impl, ref):
    if ref is None:
        return True
    if ref[0] == 'err':
        return impl[0] == 'exc' and impl[1] in ('ValueError', 'TypeError')
    if impl[0] != ref[0]:
        return False
    if ref[0] == 'arr':
        return list(impl[1]) == list(ref[1]) and list(impl[2]) == list(ref[2])
    return impl[1] == ref[1]


def nontrivial(c):
    for k in ('a', 'b'):
        if k in c:
            m = c[k]['mask']
            if m is True or (isinstance(m, list) and any(m)):
                return True
    return False


def signature(c, res):
    sig = {'kind': c['kind'], 'op': c.get('op', 'not')}
    if res['impl'][0] == 'exc':
        sig['exc'] = res['impl'][1]
        sig['site'] = res['impl'][2]
    for k in ('a', 'b'):
        if k in c:
            sig['zero_size_' + k] = 0 in c[k]['shape']
    return sig


def regenerate_and_prove(ctx):
    """Stage R: translate tvl_and / tvl_or / Qube.or_ / Qube.and_ from the current source into
    coq/gen/Gen_logic.v (fail closed) and re-check the obligations of coq/obl/C14_logic.v on it."""
    import importlib
    import os
    import re
    import sys
    sys.path.insert(0, lib.VERIF)
    os.environ['VERIF_REPO'] = lib.REPO
    la = importlib.import_module('tools.regen.logic_ast')
    la.REPO = lib.REPO
    gen = lib.GEN
    extra = ('-R', gen, 'PMGen')
    names = ['C14_gen_kleene_and', 'C14_gen_kleene_or', 'C14_gen_model_and', 'C14_gen_model_or',
             'C14_gen_or2', 'C14_gen_and2']
    try:
        path = la.generate(os.path.join(gen, 'Gen_logic_%d.v' % os.getpid()))[0]
    except la.Untranslatable as e:
        for n in names:
            ctx.obligations.append((n, False, 'regeneration failed'))
        ctx.broken_tie('regeneration', 'logic_ast',
                       'tvl.py / Qube.or_ / Qube.and_ are outside the translated subset: %s' % e)
        return
    # one process may run next to another: generate under a private name, then move into place
    final = os.path.join(gen, 'Gen_logic.v')
    os.replace(path, final)
    rc, out, err, dt = lib.run_coqc(final, timeout=120, extra=extra)
    if rc != 0:
        for n in names:
            ctx.obligations.append((n, False, (err or out)[-1500:]))
        ctx.broken_tie('proof', 'gen/Gen_logic.v', (err or out)[-1500:])
        return
    obl = os.path.join(lib.COQ, 'obl', 'C14_logic.v')
    rc, out, err, dt = lib.run_coqc(obl, timeout=300, extra=extra)
    if rc == 0:
        for n in names:
            ctx.obligations.append((n, True, 'obl/C14_logic.v over regenerated Gen_logic.v'))
            ctx.axioms[n] = 'Closed under the global context' if 'Axioms:' not in out else out[-800:]
        ctx.log('regenerated logic: %d obligations re-proved in %.1fs' % (len(names), dt))
    else:
        msg = (err or out)[-1500:]
        m = re.search(r'line (\d+)', msg)
        for n in names:
            ctx.obligations.append((n, False, msg))
        ctx.broken_tie('proof', 'obl/C14_logic.v', msg)
        ctx.log('REGENERATED OBLIGATION BROKEN\n' + msg)


def run(ctx):
    Pm = P()
    ctx.rule = ('exhaustive arrays over {T,F,M} (length<=%d, 2-D up to 2x3 in thorough) for tvl/strict '
                'operators and reductions on every axis + seeded structured sample of Boolean/numeric '
                'operand pairs (broadcast shape pairs, 6 mask representations, units, item shapes); '
                'non-trivial = at least one masked operand element' % (4 if ctx.tier == 'quick' else 7))
    ctx.assumptions = ['numeric values in comparisons are small integers (as int or float); NaN ordering is outside the model',
                       'Python bool vs Boolean result representation is part of the compared observation']
    if ctx.ensure_library():
        ctx.prove(['theories/Props/C14.v'])
        regenerate_and_prove(ctx)
    cases = gen_cases(ctx.rng, ctx.tier)
    terms, idx = [], []
    bad = []
    for i, c in enumerate(cases):
        res = run_case(c, Pm)
        ctx.note_case(c if len(str(c)) < 600 else {'kind': c['kind'], 'op': c.get('op')}, nontrivial(c))
        ctx.count('kind:' + c['kind'])
        ctx.count('op:' + str(c.get('op', 'not')))
        if res['impl'][0] == 'exc':
            ctx.count('exc:' + res['impl'][1])
        ok = same(res['impl'], res.get('ref'))
        if res['impl'][0] == 'exc' and res['impl'][1] not in ('ValueError', 'TypeError', 'IndexError'):
            ok = False
        if res['impl'][0] == 'exc' and c['kind'] in ('cmp', 'truth') and c['op'] in ('eq', 'ne'):
            ok = False      # == and != never raise
        if not ok:
            bad.append((c, res))
        if res['coq'] is not None:
            impl = res['impl']
            terms.append('(%s, %s)' % (res['coq'], coq_obs(impl if impl[0] != 'exc' else ('err',))))
            idx.append(i)
    ctx.traces = len(terms)
    for c, res in bad:
        ctx.fail(signature(c, res), c, {'impl': res['impl'], 'reference': res.get('ref')})
    mism = ctx.coq_eval_shards('cases', HEADER, terms, lambda x: 'mismatches %s' % x, shard=400)
    if mism:
        badset = set(id(c) for c, _ in bad)
        unexplained = []
        for j in mism:
            c = cases[idx[j]]
            if id(c) in badset:
                ctx.concrete_found.add('model-vs-impl')
            else:
                unexplained.append(j)
        if unexplained:
            j = unexplained[0]
            c = cases[idx[j]]
            res = run_case(c, Pm)
            shown = ctx.coq_show(HEADER, 'run14 %s' % res['coq'])
            ctx.broken_tie('correspondence', 'model-vs-impl',
                           {'n_mismatch': len(unexplained), 'first_case': c, 'impl': res['impl'],
                            'model': shown})
    ctx.cov['correspondence_mismatches'] = len(mism or [])
    ctx.exhaustive = True
    return ctx.finish()


def replay(path):
    import json
    Pm = P()
    d = json.load(open(path))
    if 'case' not in d:
        print(json.dumps(d, indent=1)[:3000])
        return 1
    res = run_case(d['case'], Pm)
    print('case      :', d['case'])
    print('impl      :', res['impl'])
    print('reference :', res.get('ref'))
    ok = same(res['impl'], res.get('ref'))
    print('property holds on this case' if ok else 'property FAILS on this case')
    return 0 if ok else 1
