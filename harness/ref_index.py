"""Reference semantics of polymath indexing (property C09/C10), written from the
documentation in qube.py ("Notes about indexing") and independent of indexer.py.

An index is a list of entry records:
  {"k":"int","v":n,"m":bool}            Python int (m False) or shapeless Scalar
  {"k":"slice","a":..,"b":..,"c":..}    slice(a,b,c), None allowed
  {"k":"none"} {"k":"ell"}
  {"k":"bool","v":bool,"m":bool}        True / False / shapeless Boolean
  {"k":"iarr","shape":[..],"v":[..],"m":[..]|None}   int array (ndarray or Scalar)
  {"k":"barr","shape":[..],"v":[..],"m":[..]|None}   bool array (ndarray or Boolean)
  {"k":"vec","n":n,"shape":[..],"v":[..flat, last axis n..],"m":[..]|None} Pair/Vector
  {"k":"bad","what":"float|str|farr|fobj"}  an entry of no valid kind (always IndexError)

ref_getitem(shape, entries) -> ("err",) or (out_shape, src) where src is a list,
row-major over out_shape, of (flat source index or None, masked_by_index).
"""
import itertools


def _prod(s):
    p = 1
    for n in s:
        p *= n
    return p


def _bshape(shapes):
    out = []
    for s in shapes:
        s = list(s)
        n = max(len(out), len(s))
        a = [1] * (n - len(out)) + out
        b = [1] * (n - len(s)) + s
        r = []
        for x, y in zip(a, b):
            if x == y or y == 1:
                r.append(x)
            elif x == 1:
                r.append(y)
            else:
                return None
        out = r
    return out


def _bget(shape, flat, idx):
    """element of a row-major array `flat` of shape `shape` at broadcast index idx"""
    idx = idx[len(idx) - len(shape):]
    pos = 0
    for n, k in zip(shape, idx):
        pos = pos * n + (0 if n == 1 else k)
    return flat[pos]


def expand(entries):
    out = []
    for e in entries:
        if e['k'] == 'vec' and not e['shape']:
            # a shapeless Pair/Vector is a tuple of integers
            for j in range(e['n']):
                out.append({'k': 'int', 'v': e['v'][j],
                            'm': bool(e['m'][0]) if e['m'] is not None else False})
        elif e['k'] == 'vec':
            n = e['n']
            cnt = _prod(e['shape'])
            for j in range(n):
                out.append({'k': 'iarr', 'shape': e['shape'],
                            'v': [e['v'][i * n + j] for i in range(cnt)],
                            'm': e['m'] if j == 0 else None})
        else:
            out.append(e)
    return out


def ref_scalar(entries):
    """Shapeless objects: only True / False / masked Boolean (at most one of these),
    None, Ellipsis and the full slice are accepted. None adds a unit axis, False a
    zero-length axis, a masked Boolean masks the result; nothing else changes."""
    out_shape = []
    masked = False
    nbool = nell = 0
    for e in entries:
        k = e['k']
        if k == 'bool':
            nbool += 1
            if e['m']:
                masked = True
            elif not e['v']:
                out_shape.append(0)
        elif k == 'none':
            out_shape.append(1)
        elif k == 'ell':
            nell += 1
        elif k == 'slice' and e['a'] is None and e['b'] is None and e['c'] is None:
            pass
        else:
            return ('err',)
    if nbool > 1 or nell > 1:
        return ('err',)
    return (out_shape, [((None, True) if masked else (0, False))] * _prod(out_shape))


def ref_getitem(shape, entries):
    shape = list(shape)
    rank = len(shape)
    if rank == 0:
        return ref_scalar(entries)
    ents = expand(entries)
    if sum(1 for e in ents if e['k'] == 'ell') > 1:
        return ('err',)

    def consumes(e):
        if e['k'] in ('none', 'ell'):
            return 0
        if e['k'] == 'barr':
            return len(e['shape'])
        return 1
    used = sum(consumes(e) for e in ents)
    if used > rank:
        return ('err',)
    has_ell = any(e['k'] == 'ell' for e in ents)
    fill = rank - used
    if not has_ell:
        ents = ents + [{'k': 'ell'}]
    # plan: list of pieces; each piece produces out axes and a per-axis source
    pieces = []      # ('axes', [ (in_axis, [source positions]) ]) / ('new',) / ('fixed', in_axis, pos, masked) / ('arr', ...)
    arrs = []        # array entries: (in_axes, shape, getter)
    ax = 0
    first_arr_piece = None
    for e in ents:
        k = e['k']
        if k == 'ell':
            for _ in range(fill):
                pieces.append(('axis', ax, list(range(shape[ax]))))
                ax += 1
        elif k == 'none':
            pieces.append(('new',))
        elif k == 'slice':
            if e['c'] == 0:
                return ('err',)
            rng = list(range(shape[ax]))[slice(e['a'], e['b'], e['c'])]
            pieces.append(('axis', ax, rng))
            ax += 1
        elif k == 'bool':
            if e['m']:
                pieces.append(('maskedaxis', ax))      # length one, all masked
            elif e['v']:
                pieces.append(('axis', ax, list(range(shape[ax]))))
            else:
                pieces.append(('axis', ax, []))
            ax += 1
        elif k == 'int':
            n = shape[ax]
            v = e['v']
            bad = e['m'] or v >= n or v < -n
            pieces.append(('fixed', ax, None if bad else v % n, bad))
            ax += 1
        elif k == 'iarr':
            n = shape[ax]
            m = e['m']
            items = []
            for i, v in enumerate(e['v']):
                bad = (m[i] if m is not None else False) or v >= n or v < -n
                items.append((None if bad else v % n, bad))
            arrs.append(([ax], list(e['shape']), items))
            if first_arr_piece is None:
                first_arr_piece = len(pieces)
                pieces.append(('arr',))
            ax += 1
        elif k == 'barr':
            bs = list(e['shape'])
            if bs != shape[ax:ax + len(bs)]:
                return ('err',)
            m = e['m']
            items = []
            for i, pos in enumerate(itertools.product(*[range(n) for n in bs])):
                msk = m[i] if m is not None else False
                if e['v'][i] or msk:
                    items.append((list(pos), bool(msk)))
            arrs.append((list(range(ax, ax + len(bs))), [len(items)],
                         [(p if not b else None, b) for p, b in items]))
            if first_arr_piece is None:
                first_arr_piece = len(pieces)
                pieces.append(('arr',))
            ax += len(bs)
        else:
            return ('err',)
    arr_shape = []
    if arrs:
        arr_shape = _bshape([a[1] for a in arrs])
        if arr_shape is None:
            return ('err',)
    # output shape
    out_shape = []
    for p in pieces:
        if p[0] == 'axis':
            out_shape.append(len(p[2]))
        elif p[0] in ('new', 'maskedaxis'):
            out_shape.append(1)
        elif p[0] == 'arr':
            out_shape.extend(arr_shape)
    src = []
    for o in itertools.product(*[range(n) for n in out_shape]):
        pos = [None] * rank
        masked = False
        j = 0
        for p in pieces:
            if p[0] == 'axis':
                pos[p[1]] = p[2][o[j]]
                j += 1
            elif p[0] == 'new':
                j += 1
            elif p[0] == 'maskedaxis':
                masked = True
                j += 1
            elif p[0] == 'fixed':
                if p[3]:
                    masked = True
                else:
                    pos[p[1]] = p[2]
            elif p[0] == 'arr':
                ai = list(o[j:j + len(arr_shape)])
                j += len(arr_shape)
                for in_axes, ashape, items in arrs:
                    val, bad = _bget(ashape, items, ai)
                    if bad:
                        masked = True
                    elif not isinstance(val, list):
                        pos[in_axes[0]] = val
                    else:
                        for a, v in zip(in_axes, val):
                            pos[a] = v
        if masked:
            src.append((None, True))
        else:
            flat = 0
            for n, k in zip(shape, pos):
                flat = flat * n + k
            src.append((flat, False))
    return (out_shape, src)
