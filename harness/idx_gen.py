"""Generation of index tuples (C09/C10) and their construction on the implementation."""
import numpy as np


def _mask_of(e):
    """the mask of an index object: an array, or - when the entry says so and all bits agree - the single
    bool that means the same (the answer must not depend on the representation)"""
    m = np.array(e['m'], dtype=bool).reshape(e['shape'])
    if e.get('mscalar') and m.size and (m.all() or not m.any()):
        return bool(m.flat[0])
    return m


def to_impl(entries, P):
    """Build the Python index object from entry records; P = polymath module."""
    out = []
    for e in entries:
        k = e['k']
        if k == 'int':
            out.append(P.Scalar(e['v'], True) if e['m'] else (P.Scalar(e['v']) if e.get('obj') else e['v']))
        elif k == 'slice':
            out.append(slice(e['a'], e['b'], e['c']))
        elif k == 'none':
            out.append(None)
        elif k == 'ell':
            out.append(Ellipsis)
        elif k == 'bool':
            out.append(P.Boolean(e['v'], True) if e['m'] else (P.Boolean(e['v']) if e.get('obj') else e['v']))
        elif k == 'iarr':
            v = np.array(e['v'], dtype=int).reshape(e['shape'])
            if e['m'] is None:
                out.append(P.Scalar(v) if e.get('obj') else v)
            elif e.get('obj', True):
                out.append(P.Scalar(v, _mask_of(e)))
            else:       # the same masked index given as a NumPy MaskedArray (seeded change C09-M: its mask was dropped)
                out.append(np.ma.MaskedArray(v, mask=np.broadcast_to(np.asarray(_mask_of(e)), v.shape).copy()))
        elif k == 'barr':
            v = np.array(e['v'], dtype=bool).reshape(e['shape'])
            if e['m'] is None:
                out.append(P.Boolean(v) if e.get('obj') else v)
            elif e.get('obj', True):
                out.append(P.Boolean(v, _mask_of(e)))
            else:
                out.append(np.ma.MaskedArray(v, mask=np.broadcast_to(np.asarray(_mask_of(e)), v.shape).copy()))
        elif k == 'vec':
            v = np.array(e['v'], dtype=int).reshape(list(e['shape']) + [e['n']])
            cls = P.Pair if e['n'] == 2 else P.Vector
            if e['m'] is None:
                out.append(cls(v))
            else:
                out.append(cls(v, _mask_of(e)))
        elif k == 'bad' and e['what'] in HIST_FLOATS:
            out.append(_hist_float(P, e['what']))
        elif k == 'bad':
            w = e['what']
            out.append({'float': 1.5, 'str': 'a', 'farr': np.array([0.5, 1.0]),
                        'fobj': P.Scalar(1.0), 'fobjarr': P.Scalar(np.array([0., 1.])),
                        'fslice': slice(0.5, None, None)}[w])
        else:
            raise ValueError(k)
    for j, e2 in enumerate(entries):        # an index object may be read-only: reading through it must still work
        if e2.get('ro') and hasattr(out[j], 'as_readonly'):
            out[j] = out[j].as_readonly()
    if len(out) == 1 and not e.get('tuple1'):
        return out[0]
    return tuple(out)


# floating-point index objects that came out of an INTEGER index object by arithmetic with a Python number, after the
# integer object was asked for its data kind and used as an index once: they must be rejected like any float
# (seeded change C09-H: a cached data kind carried along by the number fast paths made them pass as integers)
HIST_FLOATS = ['fobj_div', 'fobj_mul', 'fobj_add', 'fobj_sub', 'fvec_mul', 'fvec_div', 'fobj0_add']


def _hist_float(P, what):
    if what.startswith('fvec'):
        i = P.Pair(np.array([[0, 1], [1, 0]]))
        probe = P.Scalar(np.arange(6).reshape(2, 3))
    elif what.startswith('fobj0'):
        i = P.Scalar(1)
        probe = P.Scalar(np.arange(4))
    else:
        i = P.Scalar(np.array([0, 1]))
        probe = P.Scalar(np.arange(4))
    i.is_int(), i.is_float(), i.dtype(), i.antimask, i.wod
    try:
        probe[i]
    except Exception:       # noqa
        pass
    op = what.split('_')[1]
    return {'div': lambda: i / 2, 'mul': lambda: i * 0.5, 'add': lambda: i + 0.5, 'sub': lambda: i - 0.5}[op]()


def index_snapshot(idx):
    """content of the index objects of an index (values, expanded mask): reading or assigning through an index
    object must not alter it, or its next use selects other elements (seeded change C09-C)"""
    items = idx if isinstance(idx, tuple) else (idx,)
    out = []
    for it in items:
        if hasattr(it, '_values_') and hasattr(it, '_mask_'):
            v = np.asarray(it._values_)
            m = np.broadcast_to(np.asarray(it._mask_), it.shape)
            out.append((type(it).__name__, v.shape, v.tobytes(), m.tobytes()))
        elif isinstance(it, np.ndarray):
            out.append(('ndarray', it.shape, it.tobytes()))
        else:
            out.append(None)
    return out


ARR_SHAPES = [(2,), (1,), (3,), (1, 2), (2, 1), (2, 2), (0,)]


def gen_entry(rng, kind, axis_len, shape_rest):
    if kind == 'int':
        r = rng.random()
        if r < 0.7 and axis_len > 0:
            v = rng.randrange(-axis_len, axis_len)
        else:
            v = rng.choice([axis_len, -axis_len - 1, axis_len + 2])
        return {'k': 'int', 'v': v, 'm': rng.random() < 0.15, 'obj': rng.random() < 0.3}
    if kind == 'slice':
        c = rng.choice([None, None, None, 1, 2, -1, -2])
        pick = lambda: rng.choice([None, None, 0, 1, 2, -1, -2, axis_len, axis_len + 1])
        return {'k': 'slice', 'a': pick(), 'b': pick(), 'c': c}
    if kind == 'none':
        return {'k': 'none'}
    if kind == 'ell':
        return {'k': 'ell'}
    if kind == 'bool':
        return {'k': 'bool', 'v': rng.random() < 0.6, 'm': rng.random() < 0.2, 'obj': rng.random() < 0.3}
    if kind == 'iarr':
        shp = list(rng.choice(ARR_SHAPES))
        n = int(np.prod(shp))
        vals = []
        for _ in range(n):
            if rng.random() < 0.85 and axis_len > 0:
                vals.append(rng.randrange(-axis_len, axis_len))
            else:
                vals.append(rng.choice([axis_len, -axis_len - 1, axis_len + 3]))
        m = None
        r = rng.random()
        if r < 0.35:
            m = [rng.random() < 0.4 for _ in range(n)]
        elif r < 0.42:
            m = [True] * n
        return {'k': 'iarr', 'shape': shp, 'v': vals, 'm': m, 'obj': rng.random() < 0.5, 'mscalar': rng.random() < 0.5,
                'ro': rng.random() < 0.2}
    if kind == 'barr':
        nd = 1 if (len(shape_rest) < 2 or rng.random() < 0.7) else 2
        shp = list(shape_rest[:nd])
        if rng.random() < 0.08:
            shp[0] += 1          # wrong length -> IndexError
        n = int(np.prod(shp))
        vals = [rng.random() < 0.5 for _ in range(n)]
        m = None
        r = rng.random()
        if r < 0.35:
            m = [rng.random() < 0.3 for _ in range(n)]
        elif r < 0.45:
            m = [True] * n
        elif r < 0.50:
            m = [False] * n
        return {'k': 'barr', 'shape': shp, 'v': vals, 'm': m, 'obj': rng.random() < 0.5, 'mscalar': rng.random() < 0.5}
    if kind == 'vec':
        nn = 2 if (len(shape_rest) < 3 or rng.random() < 0.7) else 3
        shp = list(rng.choice([(2,), (1,), (2, 2), ()]))
        cnt = int(np.prod(shp))
        vals = []
        for _ in range(cnt):
            for j in range(nn):
                L = shape_rest[j] if j < len(shape_rest) else 1
                if rng.random() < 0.9 and L > 0:
                    vals.append(rng.randrange(-L, L))
                else:
                    vals.append(L + 1)
        m = None
        r = rng.random()
        if r < 0.3:
            m = [rng.random() < 0.4 for _ in range(cnt)]
        elif r < 0.38:
            m = [True] * cnt
        return {'k': 'vec', 'n': nn, 'shape': shp, 'v': vals, 'm': m, 'mscalar': rng.random() < 0.5, 'ro': rng.random() < 0.2}
    raise ValueError(kind)


def gen_scalar_index(rng):
    """Index for a shapeless object: mostly the accepted kinds."""
    ents = []
    nbool = 0
    for _ in range(rng.randrange(0, 4)):
        k = rng.choice(['bool', 'none', 'none', 'ell', 'slice', 'int', 'iarr'])
        if k == 'bool' and nbool and rng.random() < 0.85:
            k = 'none'
        if k in ('int', 'iarr') and rng.random() < 0.7:
            k = 'none'
        if k == 'ell' and any(e['k'] == 'ell' for e in ents) and rng.random() < 0.85:
            k = 'none'
        if k == 'slice':
            e = {'k': 'slice', 'a': None, 'b': None if rng.random() < 0.85 else 1, 'c': None}
        else:
            e = gen_entry(rng, k, 1, [1])
        nbool += k == 'bool'
        ents.append(e)
    return ents


def gen_index(rng, shape, max_extra=2, kinds=None):
    """A structured, mostly valid index tuple for an object of leading shape `shape`."""
    rank = len(shape)
    if rank == 0:
        return gen_scalar_index(rng)
    kinds = kinds or ['int', 'slice', 'slice', 'none', 'ell', 'bool', 'iarr', 'iarr', 'barr', 'vec']
    nent = rng.randrange(0, rank + max_extra + 1)
    ents = []
    ax = 0
    has_ell = False
    for _ in range(nent):
        k = rng.choice(kinds)
        if k == 'ell' and has_ell and rng.random() < 0.9:
            k = 'slice'
        if ax >= rank and k not in ('none', 'ell') and rng.random() < 0.9:
            k = rng.choice(['none', 'ell']) if not has_ell else 'none'
        if k == 'vec' and rank - ax < 2:
            k = 'iarr'
        L = shape[ax] if ax < rank else 1
        e = gen_entry(rng, k, L, list(shape[ax:]) or [1])
        ents.append(e)
        if k == 'ell':
            has_ell = True
        elif k == 'barr':
            ax += len(e['shape'])
        elif k == 'vec':
            ax += e['n']
        elif k != 'none':
            ax += 1
    return ents


# index shapes in which the placement rules for array entries matter (several arrays, adjacent or separated by
# slices / None / Ellipsis / integers, in front, in the middle and at the end); 'A' = integer array entry,
# 'B' = boolean array entry (one axis), 'V' = Pair entry, 'i' = integer, ':' = slice, 'n' = None, 'e' = Ellipsis
FOCUS_TEMPLATES = ['A:A', 'AnA', 'AeA', 'i:A', 'A:i', ':AA', ':A', 'nA', '::A', 'AA:', 'B:A', 'A:B', ':B', ':V', 'V:A',
                   'iA:', ':iA', 'Ai', 'iA', 'eA', 'eAA', 'A::A', 'nA:A', 'A:A:', ':A:A', 'AiA', 'A:iA', 'i:i', 'Ani',
                   'AAA', 'A:AA', 'AA:A', 'eA:', ':Ae', 'BA', 'AB', 'nAA', 'AnnA', 'A:n', 'iAi', 'An', 'Ae']
_CONSUMES = {'A': 1, 'B': 1, 'V': 2, 'i': 1, ':': 1, 'n': 0, 'e': 0}


def gen_focus_index(rng, shape):
    """A multi-entry index built from a template: the array entries have mutually broadcastable shapes (one common
    shape or length one), and with high probability at least one of them carries a masked or out-of-range entry.
    Mostly valid; falls back to gen_index when no template fits the rank."""
    rank = len(shape)
    fits = [t for t in FOCUS_TEMPLATES if sum(_CONSUMES[c] for c in t) <= rank]
    if not fits:
        return gen_index(rng, shape)
    t = rng.choice(fits)
    common = list(rng.choice([(2,), (2,), (3,), (1,), (2, 2), (1, 2), (2, 1)]))
    force = rng.random() < 0.75          # some array entry masked / out of range
    ents = []
    ax = 0
    arrays = []
    for c in t:
        L = shape[ax] if ax < rank else 1
        rest = list(shape[ax:]) or [1]
        if c == 'A':
            e = gen_entry(rng, 'iarr', L, rest)
            shp = common if rng.random() < 0.7 else ([1] if rng.random() < 0.5 else common[-1:])
            n = int(np.prod(shp))
            vals = [(rng.randrange(-L, L) if (L > 0 and rng.random() < 0.9) else rng.choice([L, -L - 1])) for _ in range(n)]
            e.update({'shape': list(shp), 'v': vals, 'm': None})
            arrays.append(e)
        elif c == 'B':
            e = gen_entry(rng, 'barr', L, rest[:1])
            arrays.append(e)
        elif c == 'V':
            e = gen_entry(rng, 'vec', L, rest)
            if e['k'] == 'vec':
                e['n'] = 2
                shp = common if rng.random() < 0.6 else []
                cnt = int(np.prod(shp)) if shp else 1
                e['shape'] = list(shp)
                e['v'] = [rng.randrange(-max(rest[j], 1), max(rest[j], 1)) if rest[j] > 0 else 0
                          for _ in range(cnt) for j in range(2)]
                e['m'] = None
                arrays.append(e)
        elif c == 'i':
            e = gen_entry(rng, 'int', L, rest)
        elif c == ':':
            e = gen_entry(rng, 'slice', L, rest)
        elif c == 'n':
            e = {'k': 'none'}
        else:
            e = {'k': 'ell'}
        ents.append(e)
        ax += _CONSUMES[c]
    if force and arrays:
        e = rng.choice(arrays)
        n = int(np.prod(e['shape'])) if e['shape'] else 1
        if n:
            r = rng.random()
            if r < 0.6:
                m = [rng.random() < 0.4 for _ in range(n)]
                m[rng.randrange(n)] = True
                e['m'] = m
            elif r < 0.75:
                e['m'] = [True] * n
            elif e['k'] == 'iarr':
                e['v'][rng.randrange(n)] = rng.choice([7, -8])       # out of range for every axis of the pool
            else:
                e['m'] = [j == 0 for j in range(n)]
            e['mscalar'] = rng.random() < 0.5
            if e['k'] in ('iarr', 'barr') and e['m'] is not None:
                e['obj'] = True
    return ents


def gen_bad_index(rng, shape):
    """The malformed stream: a valid-looking index made invalid in one way."""
    ents = gen_index(rng, shape, kinds=['int', 'slice', 'none', 'iarr', 'barr', 'bool'])
    how = rng.choice(['bad', 'bad', 'two_ell', 'too_many', 'step0', 'fslice', 'barr_len', 'nobroadcast'])
    rank = len(shape)
    if how == 'bad':
        e = {'k': 'bad', 'what': rng.choice(['float', 'str', 'farr', 'fobj', 'fobjarr'] + HIST_FLOATS)}
        ents.insert(rng.randrange(len(ents) + 1), e)
    elif how == 'two_ell':
        ents = [e for e in ents if e['k'] != 'ell']
        for _ in range(2):
            ents.insert(rng.randrange(len(ents) + 1), {'k': 'ell'})
    elif how == 'too_many':
        ents = [e for e in ents if e['k'] != 'ell']
        ents += [gen_entry(rng, rng.choice(['int', 'slice']), 1, [1]) for _ in range(rank + 1)]
    elif how == 'step0':
        ents.insert(rng.randrange(len(ents) + 1), {'k': 'slice', 'a': None, 'b': None, 'c': 0})
    elif how == 'fslice':
        ents.insert(rng.randrange(len(ents) + 1), {'k': 'bad', 'what': 'fslice'})
    elif how == 'barr_len':
        L = (shape[0] if rank else 1) + 1
        ents = [{'k': 'barr', 'shape': [L], 'v': [True] * L, 'm': None, 'obj': rng.random() < 0.5}] + ents[1:]
    else:
        ents = [{'k': 'iarr', 'shape': [2], 'v': [0, 0], 'm': None, 'obj': rng.random() < 0.5},
                {'k': 'iarr', 'shape': [3], 'v': [0, 0, 0], 'm': None, 'obj': rng.random() < 0.5}] + ents[2:]
    return ents


def expanded_kinds(entries):
    """(kind, record) per entry after Pair/Vector entries are split, as the reference does."""
    from .ref_index import expand
    return expand(entries)


def features(shape, entries):
    """Structural facts about an index used in failure signatures (regions of the
    index space, not outcomes): which entry kinds occur, whether an integer-like entry
    meets a zero-length axis, whether only an integer is separated from the array
    entries, whether the index is of the 'shapeless' form."""
    shape = list(shape)
    rank = len(shape)
    ents = expanded_kinds(entries)

    def consumes(e):
        if e['k'] in ('none', 'ell'):
            return 0
        if e['k'] == 'barr':
            return len(e['shape'])
        return 1
    used = sum(consumes(e) for e in ents)
    fill = max(rank - used, 0)
    ax = 0
    zero_hit = False
    outloc = 0                 # number of result axes produced so far
    first_arr_loc = None
    seq = []                   # 'A' array, 'I' int, 'S' separator (anything producing/standing for axes)
    for e in ents:
        k = e['k']
        L = shape[ax] if ax < rank else None
        if k == 'ell':
            ax += fill
            outloc += fill
            seq.append('S')
        elif k == 'none':
            outloc += 1
            seq.append('S')
        elif k == 'slice':
            ax += 1
            outloc += 1
            seq.append('S')
        elif k == 'bool':
            if e['m'] and L == 0:
                zero_hit = True
            ax += 1
            outloc += 1
            seq.append('S')
        elif k == 'int':
            if L == 0:
                zero_hit = True
            ax += 1
            seq.append('I')
        elif k == 'iarr':
            if L == 0:
                zero_hit = True
            if first_arr_loc is None:
                first_arr_loc = outloc
            ax += 1
            seq.append('A')
        elif k == 'barr':
            if first_arr_loc is None:
                first_arr_loc = outloc
            ax += len(e['shape'])
            seq.append('A')
        else:
            seq.append('S')
    int_sep = False
    if 'A' in seq:
        a0, a1 = seq.index('A'), len(seq) - 1 - seq[::-1].index('A')
        arrays_adjacent = 'S' not in seq[a0:a1 + 1]
        ai = [i for i, c in enumerate(seq) if c in 'AI']
        group_separated = 'S' in seq[ai[0]:ai[-1] + 1]
        int_sep = bool(arrays_adjacent and group_separated and first_arr_loc)
    shapeless_form = rank > 0 and all(
        e['k'] in ('none', 'ell') or (e['k'] == 'bool' and e['v'] and not e['m'])
        or (e['k'] == 'slice' and e['a'] is None and e['b'] is None and e['c'] is None)
        for e in ents) and sum(e['k'] == 'bool' for e in ents) <= 1
    bad_slice = any((e['k'] == 'slice' and e['c'] == 0) or (e['k'] == 'bad' and e['what'] == 'fslice')
                    for e in entries)
    from .ref_index import ref_scalar
    return {'kinds': sorted(set(e['k'] for e in entries)), 'bad_slice': bad_slice,
            'scalar_index_ok': ref_scalar(entries) != ('err',),
            'n_arr': seq.count('A'),
            'zero_axis_hit': zero_hit,
            'int_separated_from_arrays': int_sep,
            'shapeless_form': shapeless_form,
            'masked_entry': any(bool(e.get('m')) and (e['m'] is True or any(e['m'])) for e in entries
                                if e['k'] in ('int', 'bool', 'iarr', 'barr', 'vec'))}


# ---------------------------------------------------------------------------
# objects (targets of indexing), shared by the C09 and C10 checks
# ---------------------------------------------------------------------------
CLASSES = [('Scalar', ()), ('Scalar', ()), ('Pair', (2,)), ('Vector', (3,)), ('Vector3', (3,)),
           ('Matrix', (3, 3)), ('Matrix', (2, 2)), ('Quaternion', (4,)), ('Boolean', ())]
LEAD_SHAPES = [(), (1,), (2,), (3,), (4,), (0,), (2, 3), (3, 2), (1, 3), (3, 1), (2, 0), (0, 3),
               (2, 2, 2), (3, 2, 2), (2, 1, 3), (3, 0, 2), (2, 2, 2, 2), (2, 3, 1, 2), (3, 4), (4, 4)]
DERIV_KEYS = [('t', ()), ('x', (2,)), ('u', ())]


def gen_mask(rng, shape, rep=None):
    n = int(np.prod(shape))
    rep = rep or rng.choice(['F', 'T', 'arr', 'arr'])
    if rep == 'F':
        return 'F', [False] * n
    if rep == 'T':
        return 'T', [True] * n
    if not shape:
        b = rng.random() < 0.5
        return ('T' if b else 'F'), [b]
    return 'arr', [rng.random() < 0.3 for _ in range(n)]


def gen_object(rng, shape, classes=None, base=0, nderiv=None, isint=None):
    """An identifier-tagged object record: value of element e, item component j is
    base + e*isize + j; derivative number k uses base + 10000*(k+1) + its own flat index."""
    cls, item = rng.choice(classes or CLASSES)
    mrep, mask = gen_mask(rng, shape)
    d = {'cls': cls, 'item': list(item), 'shape': list(shape), 'mrep': mrep, 'mask': mask,
         'base': base, 'int': (rng.random() < 0.4) if isint is None else isint, 'derivs': {}}
    if mrep == 'arr' and shape and shape[0] >= 1 and rng.random() < 0.25:
        # the mask array is not writable while the object is (a broadcast view given to the constructor, or an array
        # shared with a read-only object): seeded change C10-I reset the derivatives' masks on that path
        if rng.random() < 0.6:
            rest = int(np.prod(shape[1:]))
            row = [rng.random() < 0.4 for _ in range(rest)]
            d['mask'] = row * shape[0]
            d['mlayout'] = 'bview'
        else:
            d['mlayout'] = 'ro'
    if cls != 'Boolean':
        if nderiv is None:
            nderiv = rng.choice([0, 0, 1, 2])
        keys = rng.sample(DERIV_KEYS, nderiv)
        for key, denom in sorted(keys):
            mr, mk = gen_mask(rng, shape, rng.choice(['F', 'F', 'arr', 'same']) if shape else None) \
                if rng.random() < 2 else None
            d['derivs'][key] = {'denom': list(denom), 'mrep': mr, 'mask': mk}
            if shape and rng.random() < 0.2:
                d['derivs'][key].update({'bcast': True, 'mrep': 'F', 'mask': [False] * int(np.prod(shape))})
        for key in d['derivs']:
            if d['derivs'][key]['mrep'] == 'same':
                d['derivs'][key]['mrep'], d['derivs'][key]['mask'] = mrep, list(mask)
        if d['derivs']:
            d['int'] = False if cls != 'Scalar' else d['int']
            d['dfrac'] = rng.random() < 0.5
    return d


def _mask_obj(rep, flat, shape, layout=None):
    if rep == 'F':
        return False
    if rep == 'T':
        return True
    m = np.array(flat, dtype=bool).reshape(shape)
    if layout == 'bview' and len(shape) >= 1 and m.size and np.all(m == m[:1]):
        return np.broadcast_to(m[:1], shape)          # a read-only broadcast view, as constructors accept it
    if layout == 'ro':
        m.flags.writeable = False                     # an array shared with an object that was made read-only
    return m


def build_object(d, P):
    shape, item = tuple(d['shape']), tuple(d['item'])
    n, isz = int(np.prod(shape)), int(np.prod(item))
    cls = getattr(P, d['cls'])
    if d['cls'] == 'Boolean':
        vals = (np.arange(n) % 2 == (d['base'] % 2)).reshape(shape)
        return cls(vals if shape else bool(vals), _mask_obj(d['mrep'], d['mask'], shape))
    dt = int if (d['int'] and d['cls'] in ('Scalar', 'Pair', 'Vector')) else float
    vals = (d['base'] + np.arange(n * isz)).astype(dt).reshape(shape + item)
    obj = cls(vals if (shape + item) else vals.item(), _mask_obj(d['mrep'], d['mask'], shape, d.get('mlayout')))
    dcls = getattr(P, d.get('dcls') or d['cls'])       # class of the derivative objects (may differ from the parent's)
    for k, key in enumerate(sorted(d['derivs'])):
        dd = d['derivs'][key]
        denom = tuple(dd['denom'])
        dsz = int(np.prod(denom))
        dv = (d['base'] + 10000 * (DKEY_NUM[key] + 1) + np.arange(n * isz * dsz)).astype(float)
        if d.get('dfrac'):
            dv = dv + 0.25          # not representable in an integer target (seeded change C10-E)
        dv = dv.reshape(shape + item + denom)
        if dd.get('bcast') and shape and n:
            # a derivative given without leading axes: insert_deriv broadcasts it (read-only) to the object's shape
            one = dv[(0,) * len(shape)]
            dobj = dcls(one if one.shape else one.item(), False, drank=len(denom))
        else:
            dobj = dcls(dv if dv.shape else dv.item(), _mask_obj(dd['mrep'], dd['mask'], shape),
                        drank=len(denom))
        obj.insert_deriv(key, dobj)
    return obj


DKEY_NUM = {'t': 0, 'u': 1, 'x': 2}


def observe_plain(q):
    """(shape, expanded mask as list, per element list of item components)"""
    shape = tuple(q.shape)
    n = int(np.prod(shape))
    m = np.broadcast_to(np.asarray(q.mask), shape).ravel()
    v = np.broadcast_to(np.asarray(q.values), shape + tuple(q.item)) if n else np.zeros((0, 1))
    v = np.asarray(v).reshape((n, -1)) if n else np.zeros((0, 1))
    return (list(shape), [bool(x) for x in m], [[_num(x) for x in row] for row in v])


def _num(x):
    if isinstance(x, (bool, np.bool_)):
        return int(x)
    f = float(x)
    return int(f) if f == int(f) else f


def observe(q):
    return {'main': observe_plain(q), 'derivs': {k: observe_plain(d) for k, d in sorted(q.derivs.items())}}


# ---------------------------------------------------------------------------
# Coq printers (shared by both checks)
# ---------------------------------------------------------------------------
def coq_entries(entries):
    from .lib import cbool, cnat, cZ, clist, cshape, copt
    out = []
    for e in entries:
        k = e['k']
        if k == 'int':
            out.append('EInt %s %s' % (cZ(e['v']), cbool(e['m'])))
        elif k == 'slice':
            out.append('ESlice %s %s %s' % tuple(copt(cZ(x), 'Z') if x is not None else copt(None, 'Z')
                                                 for x in (e['a'], e['b'], e['c'])))
        elif k == 'none':
            out.append('ENone')
        elif k == 'ell':
            out.append('EEll')
        elif k == 'bool':
            out.append('EBool %s %s' % (cbool(e['v']), cbool(e['m'])))
        elif k == 'iarr':
            out.append('EIArr %s %s %s' % (cshape(e['shape']), clist([cZ(x) for x in e['v']], 'Z'),
                                           clist([cbool(x) for x in (e['m'] or [])], 'bool')))
        elif k == 'barr':
            out.append('EBArr %s %s %s' % (cshape(e['shape']), clist([cbool(x) for x in e['v']], 'bool'),
                                           clist([cbool(x) for x in (e['m'] or [])], 'bool')))
        elif k == 'vec':
            out.append('EVec %s %s %s %s' % (cnat(e['n']), cshape(e['shape']),
                                             clist([cZ(x) for x in e['v']], 'Z'),
                                             clist([cbool(x) for x in (e['m'] or [])], 'bool')))
        else:
            out.append('EBad')
    return clist(out, 'entry')


def cZq(x):
    """a value as an integer number of quarters (the models only move values around, so the unit is immaterial)"""
    from .lib import cZ
    q = float(x) * 4
    assert q == int(q), x
    return cZ(int(q))


def coq_plain(obs_plain, rep):
    """plain object from an observation (shape, mask, values) and its mask representation"""
    from .lib import cbool, clist, cshape
    cZ = cZq
    shape, mask, vals = obs_plain
    if rep in ('F', 'T'):
        m = 'LS %s' % cbool(rep == 'T')
    else:
        m = 'LA %s' % clist([cbool(x) for x in mask], 'bool')
    return '(mkplL %s %s (%s))' % (cshape(shape),
                                   clist([clist([cZ(x) for x in row], 'Z') for row in vals], '(list Z)'), m)


def coq_eobs(obs_plain):
    """observed plain object: masked elements carry no value"""
    from .lib import clist, cshape, copt
    cZ = cZq
    shape, mask, vals = obs_plain
    els = [copt(None, '(list Z)') if m else copt(clist([cZ(x) for x in row], 'Z')) for m, row in zip(mask, vals)]
    return '(%s, %s)' % (cshape(shape), clist(els, '(option (list Z))'))
