"""Generation of index tuples (C09/C10) and their construction on the implementation."""
import numpy as np


def to_impl(entries, P):
    """Build the Python index object from entry records; P = polymath module."""
    out = []
    for e in entries:
        k = e['k']
        if k == 'int':
            out.append(P.Scalar(e['v'], True) if e['m'] else (P.Scalar(e['v']) if e.get('obj') else e['v']))
        elif k == 'slice':
            out.append(slice(e['a'], e['b'], e['c']))
        elif k == 'none':
            out.append(None)
        elif k == 'ell':
            out.append(Ellipsis)
        elif k == 'bool':
            out.append(P.Boolean(e['v'], True) if e['m'] else (P.Boolean(e['v']) if e.get('obj') else e['v']))
        elif k == 'iarr':
            v = np.array(e['v'], dtype=int).reshape(e['shape'])
            if e['m'] is None:
                out.append(P.Scalar(v) if e.get('obj') else v)
            else:
                out.append(P.Scalar(v, np.array(e['m'], dtype=bool).reshape(e['shape'])))
        elif k == 'barr':
            v = np.array(e['v'], dtype=bool).reshape(e['shape'])
            if e['m'] is None:
                out.append(P.Boolean(v) if e.get('obj') else v)
            else:
                out.append(P.Boolean(v, np.array(e['m'], dtype=bool).reshape(e['shape'])))
        elif k == 'vec':
            v = np.array(e['v'], dtype=int).reshape(list(e['shape']) + [e['n']])
            cls = P.Pair if e['n'] == 2 else P.Vector
            if e['m'] is None:
                out.append(cls(v))
            else:
                out.append(cls(v, np.array(e['m'], dtype=bool).reshape(e['shape'])))
        else:
            raise ValueError(k)
    if len(out) == 1 and not e.get('tuple1'):
        return out[0]
    return tuple(out)


ARR_SHAPES = [(2,), (1,), (3,), (1, 2), (2, 1), (2, 2), (0,)]


def gen_entry(rng, kind, axis_len, shape_rest):
    if kind == 'int':
        r = rng.random()
        if r < 0.7 and axis_len > 0:
            v = rng.randrange(-axis_len, axis_len)
        else:
            v = rng.choice([axis_len, -axis_len - 1, axis_len + 2])
        return {'k': 'int', 'v': v, 'm': rng.random() < 0.15, 'obj': rng.random() < 0.3}
    if kind == 'slice':
        c = rng.choice([None, None, None, 1, 2, -1, -2])
        pick = lambda: rng.choice([None, None, 0, 1, 2, -1, -2, axis_len, axis_len + 1])
        return {'k': 'slice', 'a': pick(), 'b': pick(), 'c': c}
    if kind == 'none':
        return {'k': 'none'}
    if kind == 'ell':
        return {'k': 'ell'}
    if kind == 'bool':
        return {'k': 'bool', 'v': rng.random() < 0.6, 'm': rng.random() < 0.2, 'obj': rng.random() < 0.3}
    if kind == 'iarr':
        shp = list(rng.choice(ARR_SHAPES))
        n = int(np.prod(shp))
        vals = []
        for _ in range(n):
            if rng.random() < 0.85 and axis_len > 0:
                vals.append(rng.randrange(-axis_len, axis_len))
            else:
                vals.append(rng.choice([axis_len, -axis_len - 1, axis_len + 3]))
        m = None
        r = rng.random()
        if r < 0.35:
            m = [rng.random() < 0.4 for _ in range(n)]
        elif r < 0.42:
            m = [True] * n
        return {'k': 'iarr', 'shape': shp, 'v': vals, 'm': m, 'obj': rng.random() < 0.5}
    if kind == 'barr':
        nd = 1 if (len(shape_rest) < 2 or rng.random() < 0.7) else 2
        shp = list(shape_rest[:nd])
        if rng.random() < 0.08:
            shp[0] += 1          # wrong length -> IndexError
        n = int(np.prod(shp))
        vals = [rng.random() < 0.5 for _ in range(n)]
        m = None
        if rng.random() < 0.35:
            m = [rng.random() < 0.3 for _ in range(n)]
        return {'k': 'barr', 'shape': shp, 'v': vals, 'm': m, 'obj': rng.random() < 0.5}
    if kind == 'vec':
        nn = 2 if (len(shape_rest) < 3 or rng.random() < 0.7) else 3
        shp = list(rng.choice([(2,), (1,), (2, 2), ()]))
        cnt = int(np.prod(shp))
        vals = []
        for _ in range(cnt):
            for j in range(nn):
                L = shape_rest[j] if j < len(shape_rest) else 1
                if rng.random() < 0.9 and L > 0:
                    vals.append(rng.randrange(-L, L))
                else:
                    vals.append(L + 1)
        m = None
        if rng.random() < 0.3:
            m = [rng.random() < 0.4 for _ in range(cnt)]
        return {'k': 'vec', 'n': nn, 'shape': shp, 'v': vals, 'm': m}
    raise ValueError(kind)


def gen_index(rng, shape, max_extra=2, kinds=None):
    """A structured, mostly valid index tuple for an object of leading shape `shape`."""
    rank = len(shape)
    kinds = kinds or ['int', 'slice', 'slice', 'none', 'ell', 'bool', 'iarr', 'iarr', 'barr', 'vec']
    nent = rng.randrange(0, rank + max_extra + 1)
    ents = []
    ax = 0
    has_ell = False
    for _ in range(nent):
        k = rng.choice(kinds)
        if k == 'ell' and has_ell and rng.random() < 0.9:
            k = 'slice'
        if ax >= rank and k not in ('none', 'ell') and rng.random() < 0.9:
            k = rng.choice(['none', 'ell']) if not has_ell else 'none'
        if k == 'vec' and rank - ax < 2:
            k = 'iarr'
        L = shape[ax] if ax < rank else 1
        e = gen_entry(rng, k, L, list(shape[ax:]) or [1])
        ents.append(e)
        if k == 'ell':
            has_ell = True
        elif k == 'barr':
            ax += len(e['shape'])
        elif k == 'vec':
            ax += e['n']
        elif k != 'none':
            ax += 1
    return ents
