"""Shared machinery for the per-property checks (see DESIGN.md section 2).

One check = regenerate / prove / correspond / search / findings / evidence.
Everything a check needs lives under /verif; scratch goes to /verif/_build.
"""
import hashlib
import json
import os
import random
import re
import subprocess
import sys
import time
import traceback
from concurrent.futures import ThreadPoolExecutor

VERIF = os.path.dirname(os.path.dirname(os.path.abspath(__file__)))
REPO = os.environ.get('VERIF_REPO', '/repo')
COQ = os.path.join(VERIF, 'coq')
LOCKDIR = os.path.join(VERIF, '_build')          # file locks (shared by every run)
ALT = os.path.realpath(REPO) != '/repo'          # a trial against a scratch worktree (tools/try_seed.py)
if ALT:     # trials never touch the evidence, scratch or regenerated files of the real check
    BUILD = os.path.join(LOCKDIR, 'alt', re.sub(r'\W+', '_', os.path.realpath(REPO)).strip('_'))
    EVID = os.path.join(BUILD, 'evidence')
    GEN = os.path.join(BUILD, 'gen')
else:
    BUILD = LOCKDIR
    EVID = os.path.join(VERIF, 'evidence')
    GEN = os.path.join(COQ, 'gen')
NPROC = int(os.environ.get('VERIF_JOBS', '16'))
COQFLAGS = ['-R', os.path.join(COQ, 'theories'), 'PM']

FORBIDDEN = re.compile(
    r'\b(Admitted|admit|Axiom|Axioms|Parameter|Parameters|Conjecture|Conjectures|'
    r'Unset\s+Guard|bypass_check|Admit\s+Obligations|Unset\s+Positivity|'
    r'Unset\s+Universe|type-in-type|impredicative-set|native_compute)\b')


def setup_impl_path():
    """Make `import polymath` resolve to /repo's current working tree."""
    if sys.path[0] != REPO:
        sys.path.insert(0, REPO)
    os.environ.setdefault('PYTHONHASHSEED', '0')


# ----------------------------------------------------------------------------
# Coq term printers
# ----------------------------------------------------------------------------
def cbool(b):
    return 'true' if b else 'false'


def cnat(n):
    n = int(n)
    assert 0 <= n < 5000, n
    return '%d%%nat' % n


def cZ(n):
    n = int(n)
    return '(%d)%%Z' % n


def clist(items, ty=None):
    items = list(items)
    if not items and ty:
        return '(@nil %s)' % ty
    return '[' + '; '.join(items) + ']'


def copt(x, ty=None):
    if x is None:
        return '(@None %s)' % ty if ty else 'None'
    return '(Some %s)' % x


def cshape(s):
    return clist([cnat(n) for n in s], 'nat')


def cfloat(x):
    """PrimFloat literal, bit exact (hex)."""
    import math
    x = float(x)
    if math.isnan(x):
        return 'nan'
    if math.isinf(x):
        return 'infinity' if x > 0 else 'neg_infinity'
    h = x.hex()
    if h.startswith('-'):
        return '(-%s)%%float' % h[1:]
    return '(%s)%%float' % h


def cstr(s):
    return '"' + s.replace('"', '""') + '"%string'


def canon(obj):
    return json.dumps(obj, sort_keys=True, default=str)


def case_hash(obj):
    return hashlib.sha1(canon(obj).encode()).hexdigest()[:16]


# ----------------------------------------------------------------------------
# running coqc
# ----------------------------------------------------------------------------
def run_coqc(path, timeout=600, extra=()):
    t0 = time.time()
    try:
        p = subprocess.run(['coqc'] + COQFLAGS + list(extra) + [path],
                           cwd=os.path.dirname(path), stdout=subprocess.PIPE,
                           stderr=subprocess.PIPE, timeout=timeout, text=True)
        return p.returncode, p.stdout, p.stderr, time.time() - t0
    except subprocess.TimeoutExpired as e:
        return 124, (e.stdout or ''), 'TIMEOUT after %ds' % timeout, time.time() - t0


def part_files(prop):
    out = []
    for name in ('00-shared', prop):
        path = os.path.join(COQ, 'parts', name + '.files')
        if os.path.exists(path):
            for line in open(path):
                line = line.strip()
                if line and not line.startswith('#'):
                    out.append(line)
    return out


def make_library(timeout=3000, prop=None):
    """Build the hand-written library (full .vo) from coq/parts/*.files: everything when
    prop is None (setup), else the shared part and that property's part only, so that one
    property's check never depends on another property's files.
    No-op when up to date. Serialised by a file lock: several checks may run at once."""
    import fcntl
    os.makedirs(BUILD, exist_ok=True)
    with open(os.path.join(LOCKDIR, '.coq.lock'), 'w') as lk:
        fcntl.flock(lk, fcntl.LOCK_EX)
        subprocess.run([sys.executable, os.path.join(VERIF, 'tools', 'gen_coqproject.py')],
                       check=True, stdout=subprocess.DEVNULL)
        subprocess.run(['coq_makefile', '-f', '_CoqProject', '-o', 'Makefile'],
                       cwd=COQ, check=True, stdout=subprocess.DEVNULL, stderr=subprocess.DEVNULL)
        targets = []
        if prop is not None:
            targets = [f[:-2] + '.vo' for f in part_files(prop)]
        p = subprocess.run(['make', '-j%d' % NPROC] + targets, cwd=COQ, stdout=subprocess.PIPE,
                           stderr=subprocess.STDOUT, timeout=timeout, text=True)
        return p.returncode, p.stdout


def grep_forbidden(paths):
    bad = []
    for path in paths:
        txt = open(path).read()
        # strip comments (non-nested is enough for our files)
        txt2 = re.sub(r'\(\*.*?\*\)', '', txt, flags=re.S)
        for m in FORBIDDEN.finditer(txt2):
            bad.append('%s: %s' % (path, m.group(0)))
    return bad


def all_v_files():
    out = []
    for root, _, files in os.walk(COQ):
        for f in files:
            if f.endswith('.v'):
                out.append(os.path.join(root, f))
    return sorted(out)


_LIST_RE = re.compile(r'=\s*\[([^\]]*)\]\s*:\s*list nat', re.S)
_NIL_RE = re.compile(r'=\s*(\[\s*\]|nil)\s*:\s*list nat', re.S)


def parse_nat_lists(out):
    """All `= [a; b] : list nat` answers in coqc output, in order."""
    res = []
    for m in re.finditer(r'=\s*(\[[^\]]*\]|nil)\s*:\s*list nat', out, re.S):
        body = m.group(1)
        res.append([int(x) for x in re.findall(r'\d+', body)])
    return res


# ----------------------------------------------------------------------------
# known findings
# ----------------------------------------------------------------------------
def load_findings():
    paths = [os.path.join(VERIF, 'known_findings.jsonl')]
    extra = os.environ.get('VERIF_EXTRA_FINDINGS')      # development aid only
    if extra:
        paths.append(extra)
    out = []
    for path in paths:
        if os.path.exists(path):
            for line in open(path):
                line = line.strip()
                if line and not line.startswith('#'):
                    out.append(json.loads(line))
    return out


def _match_one(cond, val):
    if isinstance(cond, dict):
        if 'in' in cond:
            return val in cond['in']
        if 'ge' in cond:
            return val is not None and val >= cond['ge']
        if 'le' in cond:
            return val is not None and val <= cond['le']
        if 'contains' in cond:
            return val is not None and cond['contains'] in val
        return False
    return val == cond


def finding_for(prop, sig, findings):
    """The `known` entry whose matcher covers failure signature `sig`."""
    for f in findings:
        if f.get('status') != 'known' or f.get('property') != prop:
            continue
        m = f.get('match', {})
        if m and all(_match_one(c, sig.get(k)) for k, c in m.items()):
            return f
    return None


# ----------------------------------------------------------------------------
# the check context
# ----------------------------------------------------------------------------
class Ctx(object):
    def __init__(self, prop, tier='quick', seed=0):
        self.prop = prop
        self.tier = tier
        self.seed = seed
        self.rng = random.Random('%s/%d' % (prop, seed))
        self.t0 = time.time()
        self.dir = os.path.join(BUILD, prop)
        os.makedirs(self.dir, exist_ok=True)
        os.makedirs(os.path.join(BUILD, 'replay'), exist_ok=True)
        os.makedirs(EVID, exist_ok=True)
        for old in os.listdir(os.path.join(BUILD, 'replay')):     # replays of earlier runs
            if old.startswith(prop + '_'):
                os.remove(os.path.join(BUILD, 'replay', old))
        self.findings = load_findings()
        self.violations = []        # (replay path, suffix)
        self.known_hits = {}        # finding id -> count
        self.obligations = []       # (name, ok, detail)
        self.axioms = {}            # theorem -> text
        self.evaluations = 0
        self.nontrivial = set()
        self.samples = []
        self.traces = 0
        self.cov = {}
        self.dist = {}
        self.broken = []            # broken ties with no concrete input (yet)
        self.concrete_found = set() # tie names for which a concrete input was found
        self.assumptions = []
        self.trusted = []
        self.trusted_extra = []      # translators used by this run (regen_obligations)
        self.rule = ''
        self.exhaustive = False
        self.log_lines = []

    # -- bookkeeping ----------------------------------------------------
    def log(self, *a):
        s = ' '.join(str(x) for x in a)
        self.log_lines.append(s)
        print('[%s %6.1fs] %s' % (self.prop, time.time() - self.t0, s), flush=True)

    def count(self, key, n=1):
        self.dist[key] = self.dist.get(key, 0) + n

    def note_case(self, case, nontrivial):
        self.evaluations += 1
        if nontrivial:
            self.nontrivial.add(case_hash(case))
        if len(self.samples) < 6 and (nontrivial or self.evaluations < 3):
            self.samples.append(case)

    # -- stage P ----------------------------------------------------------
    def ensure_library(self):
        rc, out = make_library(prop=self.prop)
        if rc != 0:
            self.log('library build FAILED')
            self.log(out[-3000:])
            self.obligations.append(('library-build', False, out[-2000:]))
            self.broken.append(('proof', 'library-build', out[-2000:]))
            return False
        mine = [os.path.join(COQ, f) for f in part_files(self.prop)]
        props = os.path.join(COQ, 'theories', 'Props', self.prop + '.v')
        if os.path.exists(props):
            mine.append(props)
        bad = grep_forbidden(mine)
        if bad:
            self.obligations.append(('no-forbidden-constructs', False, '\n'.join(bad)))
            self.broken.append(('proof', 'forbidden-constructs', '\n'.join(bad)))
            return False
        return True

    def prove(self, relpaths, timeout=900):
        """Compile property files (each holds only Theorem ... exact ... Qed +
        Print Assumptions). Every Theorem is one obligation."""
        ok_all = True
        for rel in relpaths:
            path = os.path.join(COQ, rel)
            src = open(path).read()
            names = re.findall(r'^\s*(?:Theorem|Example)\s+(\w+)', src, re.M)
            rc, out, err, dt = run_coqc(path, timeout=timeout)
            if rc == 0:
                # Print Assumptions blocks
                blocks = re.split(r'(?=Closed under the global context|Axioms:)', out)
                prints = [b.strip() for b in blocks if b.strip()]
                pa = re.findall(r'Print Assumptions\s+(\w+)', src)
                for i, nm in enumerate(pa):
                    if i < len(prints):
                        self.axioms[nm] = prints[i][:1500]
                for nm in names:
                    self.obligations.append((nm, True, rel))
                self.log('proved %s: %d theorems in %.1fs' % (rel, len(names), dt))
                if self.tier == 'thorough' and rel.startswith('theories/Props/'):
                    self.start_coqchk(rel)
            else:
                ok_all = False
                msg = (err or out)[-2000:]
                for nm in names:
                    self.obligations.append((nm, False, msg))
                self.broken.append(('proof', rel, msg))
                self.log('PROOF BROKEN %s\n%s' % (rel, msg))
        return ok_all

    # -- stage R+P for tables regenerated by the AST analyses (effects: C08 C17 C18 C19; purity: C07) -----
    def effects_obligations(self):
        """Event paths of the self-mutating methods (tools/regen/effects_ast.py) + coq/obl/Eff_<prop>.v"""
        return self.regen_obligations('tools.regen.effects_ast', 'Gen_effects.v', 'Eff_%s.v' % self.prop, 'Eff_diag.v',
                                      'eff_')

    def purity_obligations(self):
        """Array stores that may alias operand storage (tools/regen/purity_ast.py) + coq/obl/Pur_<prop>.v"""
        return self.regen_obligations('tools.regen.purity_ast', 'Gen_purity.v', 'Pur_%s.v' % self.prop, 'Pur_diag.v',
                                      'pur_')

    def shape_obligations(self):
        """Axis arithmetic of the relabeling methods as total functions (tools/regen/shape_ast.py) + coq/obl/Shp_<prop>.v"""
        return self.regen_obligations('tools.regen.shape_ast', 'Gen_shape.v', 'Shp_%s.v' % self.prop, 'Shp_diag.v',
                                      'shp_')

    def loops_obligations(self):
        """Small imperative shape functions as state-monad programs (tools/regen/loops_ast.py) + coq/obl/Lp_<prop>.v"""
        return self.regen_obligations('tools.regen.loops_ast', 'Gen_loops.v', 'Lp_%s.v' % self.prop,
                                      'Lp_diag_%s.v' % self.prop, 'lp_')

    def guards_obligations(self):
        """guard helpers of the in-place operators as boolean / shape functions (tools/regen/guards_ast.py) + coq/obl/Grd_<prop>.v"""
        return self.regen_obligations('tools.regen.guards_ast', 'Gen_guards.v', 'Grd_%s.v' % self.prop,
                                      'Grd_diag_C19.v' if self.prop == 'C19' else 'Grd_diag.v', 'grd_')

    def logic_obligations(self):
        """Qube.or_ / Qube.and_ (and tvl_and / tvl_or) as Gallina terms (tools/regen/logic_ast.py) + coq/obl/Lgc_<prop>.v"""
        return self.regen_obligations('tools.regen.logic_ast', 'Gen_logic.v', 'Lgc_%s.v' % self.prop, 'Lgc_diag.v', 'lgc_')

    def regen_obligations(self, module, genfile, oblfile, diagfile, prefix):
        """Regenerate a table from the CURRENT source with a fail-closed AST analysis and re-prove this
        property's obligation file on it.  A failure is recorded as a broken tie whose detail names what
        fails the analysis; the concrete search of the check goes on."""
        import shutil
        import importlib
        t0 = time.time()
        gdir = os.path.join(GEN, prefix + self.prop)
        os.makedirs(gdir, exist_ok=True)
        for f in os.listdir(gdir):
            os.remove(os.path.join(gdir, f))
        if VERIF not in sys.path:
            sys.path.insert(0, VERIF)
        ea = importlib.import_module(module)
        self.trusted_extra.append('translator %s (fail-closed; accepted subset and reading conventions in its header); '
                                  'its output %s is re-generated from the current source and coq/obl/%s re-proved on it in this run'
                                  % (module.replace('.', '/') + '.py', genfile, oblfile))
        ea.REPO = REPO
        ea.PROP = self.prop          # a translator may emit only what this property's obligations use
        tag = 'regenerate-' + genfile[4:-2]
        try:
            res = ea.generate(os.path.join(gdir, genfile))
        except ea.Untranslatable as e:
            self.obligations.append((tag, False, str(e)))
            self.broken_tie('regeneration', module.replace('.', '/') + '.py', str(e))
            self.log('REGENERATION FAILED (%s): %s' % (module, e))
            return False
        path = res[0]
        extra = ('-R', gdir, 'PMGen')
        rc, out, err, dt = run_coqc(path, timeout=300, extra=extra)
        if rc != 0:
            self.obligations.append((tag, False, (err or out)[-1500:]))
            self.broken_tie('regeneration', 'gen/' + genfile, (err or out)[-1500:])
            return False
        self.obligations.append((tag, True, str(res[1:3])[:200]))
        obl = os.path.join(gdir, oblfile)
        shutil.copy(os.path.join(COQ, 'obl', oblfile), obl)
        src = open(obl).read()
        names = re.findall(r'^\s*Theorem\s+(\w+)', src, re.M)
        rc, out, err, dt = run_coqc(obl, timeout=600, extra=extra)
        if rc == 0:
            blocks = [b.strip() for b in re.split(r'(?=Closed under the global context|Axioms:)', out) if b.strip()]
            for i, nm in enumerate(re.findall(r'Print Assumptions\s+(\w+)', src)):
                if i < len(blocks):
                    self.axioms[nm] = blocks[i][:1500]
            for nm in names:
                self.obligations.append((nm, True, 'coq/obl/' + oblfile))
            self.cov['regenerated:' + genfile] = str(res[1]) if len(res) > 1 else ''
            self.log('regenerated %s (%s); %d obligations of %s re-proved in %.1fs'
                     % (genfile, ', '.join(str(x) for x in res[1:3] if isinstance(x, int)), len(names), oblfile,
                        time.time() - t0))
            return True
        msg = (err or out)[-1200:]
        failing = re.search(r'File "[^"]*", line (\d+)', msg)
        which = None
        if failing:
            upto = src.split('\n')[:int(failing.group(1))]
            th = [m for m in re.findall(r'^\s*Theorem\s+(\w+)', '\n'.join(upto), re.M)]
            which = th[-1] if th else None
        diag = os.path.join(gdir, diagfile)
        shutil.copy(os.path.join(COQ, 'obl', diagfile), diag)
        rc2, out2, err2, _ = run_coqc(diag, timeout=300, extra=extra)
        for nm in names:
            self.obligations.append((nm, False, msg))
        self.broken_tie('proof', 'coq/obl/%s: %s' % (oblfile, which or 'obligation'),
                        {'coq': msg, 'what_fails_the_analysis': (out2 if rc2 == 0 else err2)[-3000:]})
        self.log('REGENERATED OBLIGATION BROKEN %s (%s)\n%s' % (oblfile, which, (out2 if rc2 == 0 else err2)[-1500:]))
        return False

    # -- stage K ------------------------------------------------------------
    def coq_eval_shards(self, name, header, terms, wrap, shard=300, timeout=900):
        """Evaluate `wrap(list_of_terms)` (must yield `list nat` of mismatching
        local positions) inside Coq over shards; returns global mismatch indices,
        or None when a shard failed to compile/evaluate (a broken tie)."""
        files = []
        for k in range(0, len(terms), shard):
            chunk = terms[k:k + shard]
            path = os.path.join(self.dir, '%s_%04d.v' % (name, k // shard))
            with open(path, 'w') as f:
                f.write(header + '\n')
                f.write('Definition cases := %s.\n' % clist(chunk))
                f.write('Eval vm_compute in (%s).\n' % wrap('cases'))
            files.append((k, path))
        mism = []
        failed = []

        def job(kp):
            k, path = kp
            rc, out, err, dt = run_coqc(path, timeout=timeout)
            return k, path, rc, out, err

        with ThreadPoolExecutor(max_workers=NPROC) as ex:
            for k, path, rc, out, err in ex.map(job, files):
                if rc != 0:
                    failed.append((path, (err or out)[-1500:]))
                    continue
                lists = parse_nat_lists(out)
                if len(lists) != 1:
                    failed.append((path, 'unparsable output: ' + out[-500:]))
                    continue
                mism.extend(k + j for j in lists[0])
        # leave no large scratch behind
        for _, path in files:
            base = path[:-2]
            for ext in ('.vo', '.vok', '.vos', '.glob'):
                try:
                    os.remove(base + ext)
                except OSError:
                    pass
            aux = os.path.join(os.path.dirname(path), '.' + os.path.basename(base) + '.aux')
            try:
                os.remove(aux)
            except OSError:
                pass
        if failed:
            self.broken.append(('correspondence', name, failed[0][0] + '\n' + failed[0][1]))
            self.log('CORRESPONDENCE SHARD FAILED %s: %s' % failed[0])
            return None
        return sorted(mism)

    def coq_show(self, header, expr, timeout=120):
        """Raw text of `Eval vm_compute in expr` (for replay files)."""
        path = os.path.join(self.dir, 'show_%s.v' % case_hash(expr))
        with open(path, 'w') as f:
            f.write(header + '\nEval vm_compute in (%s).\n' % expr)
        rc, out, err, dt = run_coqc(path, timeout=timeout)
        for ext in ('.vo', '.vok', '.vos', '.glob'):
            try:
                os.remove(path[:-2] + ext)
            except OSError:
                pass
        return (out if rc == 0 else err)[-3000:]

    # -- failures -------------------------------------------------------------
    def fail(self, sig, case, detail, tie=None):
        """A concrete input on which the property fails on the implementation.
        `sig` is the structured signature matched against known findings."""
        kf = finding_for(self.prop, sig, self.findings)
        if tie:
            self.concrete_found.add(tie)
        if kf is not None:
            self.known_hits.setdefault(kf['id'], [kf, 0])[1] += 1
            return 'known'
        h = case_hash([sig, case])
        path = os.path.join(BUILD, 'replay', '%s_%s.json' % (self.prop, h))
        if not any(v[0] == path for v in self.violations):
            with open(path, 'w') as f:
                json.dump({'property': self.prop, 'tier': self.tier, 'seed': self.seed,
                           'signature': sig, 'case': case, 'detail': detail,
                           'replay_cmd': './check %s --replay %s' % (self.prop, path)},
                          f, indent=1, default=str)
            self.violations.append((path, ''))
        return 'violation'

    def broken_tie(self, kind, name, detail):
        self.broken.append((kind, name, detail))

    # -- finish ---------------------------------------------------------------
    def start_coqchk(self, rel):
        """thorough tier: the independent checker re-checks the compiled property file and everything it depends on
        (coqchk -o also lists the axioms of every loaded library); runs beside the rest of the check"""
        import threading
        mod = 'PM.' + rel[len('theories/'):-2].replace('/', '.')
        box = {'mod': mod}
        flags = list(COQFLAGS)

        def job():
            t0 = time.time()
            try:
                # the same load paths the file was compiled with (C12's property file imports the regenerated
                # PMGen.Gen_units; with -R theories PM alone coqchk cannot load it)
                p = subprocess.run(['coqchk', '-silent', '-o'] + flags + [mod], cwd=COQ,
                                   stdout=subprocess.PIPE, stderr=subprocess.STDOUT, text=True, timeout=2400)
                box['rc'], box['out'] = p.returncode, p.stdout
            except subprocess.TimeoutExpired:
                box['rc'], box['out'] = None, 'coqchk did not finish within 2400 s'
            except Exception as e:      # noqa
                box['rc'], box['out'] = None, 'coqchk could not be run: %s' % e
            box['dt'] = time.time() - t0
        th = threading.Thread(target=job, daemon=True)
        th.start()
        self._coqchk = getattr(self, '_coqchk', []) + [(box, th)]

    def join_coqchk(self):
        for box, th in getattr(self, '_coqchk', []):
            th.join()
            out = box.get('out') or ''
            k = out.find('CONTEXT SUMMARY')
            summary = out[k:].strip()[:1500] if k >= 0 else out[-1500:]
            name = 'coqchk:' + box['mod']
            if box.get('rc') == 0:
                self.obligations.append((name, True, summary))
                self.cov['coqchk'] = {'module': box['mod'], 'seconds': round(box.get('dt', 0), 1), 'summary': summary}
                self.log('coqchk -o %s: ok in %.0fs' % (box['mod'], box.get('dt', 0)))
            elif box.get('rc') is None:
                # not a verdict on the proofs: recorded, not counted as an obligation
                self.cov['coqchk'] = {'module': box['mod'], 'not_completed': summary}
                self.log('coqchk -o %s: %s' % (box['mod'], summary))
            else:
                self.obligations.append((name, False, summary))
                self.broken.append(('proof', name, summary))
                self.log('COQCHK FAILED %s\n%s' % (box['mod'], summary))
        self._coqchk = []

    def finish(self, level='proof'):
        self.join_coqchk()
        # broken ties / proofs for which no concrete failing input was found
        for kind, name, detail in self.broken:
            # reported even when a concrete failing input was also found (never silently dropped)
            h = case_hash([kind, name])
            path = os.path.join(BUILD, 'replay', '%s_broken_%s.json' % (self.prop, h))
            with open(path, 'w') as f:
                json.dump({'property': self.prop, 'tier': self.tier, 'seed': self.seed,
                           'broken': kind, 'name': name, 'detail': detail,
                           'note': 'the %s named here no longer checks; the search '
                                   'found no concrete input on which the property '
                                   'fails' % kind}, f, indent=1)
            self.violations.append((path, ' no-failing-input-found'))
        n_obl = len(self.obligations)
        n_ok = sum(1 for o in self.obligations if o[1])
        cov = {
            'obligations': n_obl, 'discharged': n_ok,
            'checker_cmd': 'coqc -R coq/theories PM <Props file> (full .vo; library by '
                           'coq_makefile+make); cases by Eval vm_compute',
            'trusted_base': (self.trusted or DEFAULT_TRUSTED) + self.trusted_extra,
            'theorems': [o[0] for o in self.obligations if o[1]],
            'undischarged': [o[0] for o in self.obligations if not o[1]],
            'axioms': self.axioms,
            'evaluations': self.evaluations,
            'distinct_nontrivial': len(self.nontrivial),
            'traces_validated_against_impl': self.traces,
            'rule': self.rule,
            'samples': self.samples[:6],
            'exhaustive': self.exhaustive,
            'input_distribution': self.dist,
            'known_findings_hit': {k: v[1] for k, v in self.known_hits.items()},
        }
        cov.update(self.cov)
        ev = {
            'property_id': self.prop, 'tier': self.tier, 'seed': self.seed,
            'level': level, 'coverage': cov, 'assumptions': self.assumptions,
            'wall_s': round(time.time() - self.t0, 2),
            'violations': len(self.violations),
        }
        with open(os.path.join(EVID, '%s.json' % self.prop), 'w') as f:
            json.dump(ev, f, indent=1, default=str)
        for fid, (kf, n) in sorted(self.known_hits.items()):
            print('KNOWN-FINDING: property=%s %s [%s, %d cases]' %
                  (self.prop, kf['what'], fid, n))
        for path, suffix in self.violations:
            print('VIOLATION property=%s replay=%s%s' % (self.prop, path, suffix))
        print('%s: %d/%d obligations, %d evaluations (%d non-trivial), %d violations, %.1fs'
              % (self.prop, n_ok, n_obl, self.evaluations, len(self.nontrivial),
                 len(self.violations), time.time() - self.t0))
        return 1 if self.violations else 0


DEFAULT_TRUSTED = [
    'Coq 8.16.1 kernel incl. vm_compute (no native_compute); coqc full .vo builds',
    'hand-written Gallina model tied to /repo by the correspondence check (Eval vm_compute '
    'of the model vs the implementation run on the same generated cases)',
    'Python harness: case generators, obs extraction, Coq term printer, in-Coq comparator',
    'NumPy/Python semantics are modelled, not verified',
]


def exc_family(e):
    """Canonical exception family + raise site for signatures."""
    name = type(e).__name__
    tb = traceback.extract_tb(e.__traceback__)
    site = ''
    for fr in reversed(tb):
        if '/polymath/' in fr.filename:
            site = '%s:%s' % (os.path.basename(fr.filename), fr.name)
            break
    return name, site
