"""C04 - unmasked results equal the NumPy reference; only leading axes broadcast.

Stages: prove Props/C04.v; generate cases (operator x ordered operand-class pair x
kinds x leading-shape pairs x item shapes x denominators); run the implementation;
compare with
 (a) a direct oracle: the rules of the property evaluated with plain NumPy on the
     expanded value arrays (leading shapes broadcast explicitly, item axes aligned by
     the operation), rejections, class/kind rules, reflected == direct form;
 (b) the Coq model C04Model.v evaluated by vm_compute on the same cases
     (dispatch ladders + pointwise value semantics, oracle kernels through a table
     filled from NumPy's scalar kernels)."""
import itertools
import json
import math
import operator
import warnings

import numpy as np

from . import lib, hist
from .lib import cbool, cnat, cZ, clist, cshape, copt

HEADER = ('From Coq Require Import List ZArith Bool.\n'
          'From PM Require Import Base Mask C04Model.\nImport ListNotations.\n')


def P():
    lib.setup_impl_path()
    import polymath
    return polymath


# ---------------------------------------------------------------------------
# class table (the documented constants; checked against the classes in run())
# ---------------------------------------------------------------------------
CLS = {
    'Scalar':     dict(nrank=0, numer=(),     f=True,  i=True,  b=False, units=True,  derivs=True),
    'Boolean':    dict(nrank=0, numer=(),     f=False, i=False, b=True,  units=False, derivs=False),
    'Vector':     dict(nrank=1, numer=None,   f=True,  i=True,  b=False, units=True,  derivs=True),
    'Vector3':    dict(nrank=1, numer=(3,),   f=True,  i=False, b=False, units=True,  derivs=True),
    'Pair':       dict(nrank=1, numer=(2,),   f=True,  i=True,  b=False, units=True,  derivs=True),
    'Matrix':     dict(nrank=2, numer=None,   f=True,  i=False, b=False, units=True,  derivs=True),
    'Matrix3':    dict(nrank=2, numer=(3, 3), f=True,  i=False, b=False, units=False, derivs=True),
    'Quaternion': dict(nrank=1, numer=(4,),   f=True,  i=False, b=False, units=False, derivs=True),
}
QCLASSES = list(CLS)
NUMERS = {'Scalar': [()], 'Boolean': [()], 'Vector': [(3,), (2,), (1,), (4,)], 'Vector3': [(3,)],
          'Pair': [(2,)], 'Matrix': [(2, 2), (3, 3), (2, 3), (3, 2), (1, 1), (3, 1), (1, 3)],
          'Matrix3': [(3, 3)], 'Quaternion': [(4,)]}
NONQ = ['pyint', 'pyfloat', 'pybool', 'npint', 'npfloat', 'nd', 'ma', 'list']
BINOPS = ['add', 'sub', 'mul', 'truediv', 'floordiv', 'mod', 'pow']
PYOP = {'add': operator.add, 'sub': operator.sub, 'mul': operator.mul, 'truediv': operator.truediv,
        'floordiv': operator.floordiv, 'mod': operator.mod, 'pow': operator.pow}
UNOPS = ['neg', 'abs']
FUNS = ['sin', 'cos', 'tan', 'arcsin', 'arccos', 'arctan', 'sqrt', 'log', 'exp']
UEXP = {None: None, 'KM': (1, 0, 0), 'SEC': (0, 1, 0), 'RAD': (0, 0, 1)}
DT = {'int': np.int64, 'float': np.float64, 'bool': np.bool_}


def coerce(cls, kind):
    """Qube._suitable_dtype: the kind an object of class `cls` holds for data of `kind`."""
    c = CLS[cls]
    order = {'float': ('f', 'i', 'b'), 'int': ('i', 'f', 'b'), 'bool': ('b', 'i', 'f')}[kind]
    for k in order:
        if c[k]:
            return {'f': 'float', 'i': 'int', 'b': 'bool'}[k]


def promote(k1, k2):
    if 'float' in (k1, k2):
        return 'float'
    if 'int' in (k1, k2):
        return 'int'
    return 'bool'


# ---------------------------------------------------------------------------
# operand descriptors -> real objects
# ---------------------------------------------------------------------------
def full_shape(d):
    if d['form'] == 'qube':
        return tuple(d['lead']) + tuple(d['numer']) + tuple(d['denom'])
    return tuple(d.get('shape', ()))


def raw_array(d):
    return np.array(d['vals'], dtype=DT[d['kind']]).reshape(full_shape(d))


def build(d, Pm):
    obj = _build(d, Pm)
    h = d.get('hist')
    if h and d['form'] == 'qube':         # the operand is reached through a history (harness/hist.py)
        mode = h[0] if h[0] in hist.modes_for(obj) else 'setitem'
        obj = hist.reach(Pm, obj, mode, h[1])
    return obj


def _build(d, Pm):
    form = d['form']
    arr = raw_array(d)
    if form == 'qube':
        lead = tuple(d['lead'])
        m = d['mask']
        mask = m if isinstance(m, bool) else np.array(m, bool).reshape(lead)
        cls = getattr(Pm, d['cls'])
        val = arr
        if arr.shape == ():
            val = arr.item()
            if not isinstance(mask, bool):
                mask = bool(mask)
        units = getattr(Pm.Units, d['unit']) if d.get('unit') else None
        if d['cls'] == 'Boolean':
            return cls(val, mask)
        obj = cls(val, mask, units=units, drank=len(d['denom']))
        if d.get('tderiv') and CLS[d['cls']]['derivs'] and obj.is_float() and not d['denom']:
            dv = np.asarray(arr, dtype=float) * 0.5 + 1.
            obj.insert_deriv('t', cls(dv if dv.shape else dv.item()))
        return obj
    if form in ('pyint', 'pyfloat', 'pybool'):
        return arr.item()
    if form in ('npint', 'npfloat'):
        return arr[()]
    if form == 'nd':
        return arr
    if form == 'ma':
        return np.ma.MaskedArray(arr, np.array(d['mbits'], bool).reshape(arr.shape))
    if form == 'list':
        return arr.tolist()
    raise ValueError(form)


# ---------------------------------------------------------------------------
# reference: normalised operands (plain NumPy) and the rules of the property
# ---------------------------------------------------------------------------
class N(object):
    """a polymath-like operand for the reference: class name, kind, shapes, value
    array of shape lead+numer+denom, mask over lead, unit exponents"""
    def __init__(self, cls, kind, lead, numer, denom, A, M, unit, orig_form='qube'):
        self.cls, self.kind = cls, kind
        self.lead, self.numer, self.denom = tuple(lead), tuple(numer), tuple(denom)
        self.A = np.asarray(A).astype(DT[kind]).reshape(self.lead + self.numer + self.denom)
        self.M = np.broadcast_to(np.asarray(M, bool), self.lead)
        self.unit = unit
        self.orig_form = orig_form

    @property
    def nrank(self):
        return len(self.numer)

    @property
    def drank(self):
        return len(self.denom)

    @property
    def item(self):
        return self.numer + self.denom


class Reject(Exception):
    pass


def norm_qube(d):
    """the object the constructor documents for these data"""
    cls = d['cls']
    kind = coerce(cls, d['kind'])
    A = raw_array(d)
    if kind != d['kind']:
        A = A.astype(DT[kind])
    m = d['mask']
    n = N(cls, kind, d['lead'], d['numer'], d['denom'], A, m if isinstance(m, bool) else
          np.array(m, bool).reshape(tuple(d['lead'])), UEXP[d.get('unit')])
    return n


def bool_to_int(n):
    """Boolean -> int Scalar first"""
    if n.cls == 'Boolean':
        return N('Scalar', 'int', n.lead, (), (), n.A.astype(np.int64), n.M, None, n.orig_form)
    return n


def nonq_array(d):
    A = raw_array(d)
    if d['form'] == 'ma':
        M = np.array(d['mbits'], bool).reshape(A.shape)
    else:
        M = np.zeros(A.shape, bool)
    return A, M


def as_class_of(d, other):
    """direct form of a non-polymath operand for + and -: an object of the other
    operand's class with its numerator rank and denominator rank"""
    A, M = nonq_array(d)
    rank = other.nrank + other.drank
    if A.ndim < rank:
        raise Reject('array rank below item rank')
    nl = A.ndim - rank
    lead, numer, denom = A.shape[:nl], A.shape[nl:nl + other.nrank], A.shape[nl + other.nrank:]
    fixed = CLS[other.cls]['numer']
    if fixed is not None and tuple(numer) != fixed:
        raise Reject('numerator not admitted by class')
    if rank:
        M = M.reshape(lead + (int(np.prod(A.shape[nl:])),)).any(axis=-1)
    kind = coerce(other.cls, d['kind'])
    return N(other.cls, kind, lead, numer, denom, A.astype(DT[kind]), M, None, d['form'])


def as_scalar_of(d):
    """direct form of a non-polymath operand for * / // % **: a Scalar whose leading
    shape is the array shape"""
    A, M = nonq_array(d)
    kind = coerce('Scalar', d['kind'])
    return N('Scalar', kind, A.shape, (), (), A.astype(DT[kind]), M, None, d['form'])


def bshape(la, lb):
    try:
        return tuple(np.broadcast_shapes(tuple(la), tuple(lb)))
    except ValueError:
        raise Reject('leading shapes do not broadcast')


def lead_bcast(n, L):
    """values of n with the LEADING shape broadcast to L (item axes untouched)"""
    pad = (1,) * (len(L) - len(n.lead))
    return np.broadcast_to(n.A.reshape(pad + n.lead + n.item), L + n.item)


def mask_bcast(n, L):
    pad = (1,) * (len(L) - len(n.lead))
    return np.broadcast_to(n.M.reshape(pad + n.lead), L)


def units_match(u, v):
    return u is None or v is None or u == v


class Res(object):
    def __init__(self, cls, kind, lead, numer, denom, V, defined=None, ulps=0, mask=None, note=''):
        self.cls, self.kind = cls, kind
        self.lead, self.numer, self.denom = tuple(lead), tuple(numer), tuple(denom)
        self.V = V                      # None: values not specified by this property
        self.defined = defined          # bool array over the full shape (or None = all)
        self.ulps = ulps
        self.mask = mask                # reference mask over lead (used for reflected==direct only)
        self.note = note


def np_kernel(op, X, Y):
    with warnings.catch_warnings():
        warnings.simplefilter('ignore')
        if op == 'add':
            return X + Y
        if op == 'sub':
            return X - Y
        if op == 'mul':
            return X * Y
        if op == 'truediv':
            return X / Y
        if op == 'floordiv':
            return X // Y
        if op == 'mod':
            return X % Y
        if op == 'pow':
            return X ** Y
    raise ValueError(op)


def align_scale(x, s, L):
    """X (any items) and S (no numerator), at most one denominator: arrays that
    combine element-wise into shape L + numer_x + denom"""
    XA = lead_bcast(x, L)
    SA = lead_bcast(s, L)
    if s.denom:
        XA = XA.reshape(L + x.numer + (1,) * len(s.denom))
        SA = SA.reshape(L + (1,) * len(x.numer) + s.denom)
    else:
        SA = SA.reshape(L + (1,) * len(x.item))
    return XA, SA


def hamilton(a, b):
    out = np.empty(np.broadcast_shapes(a.shape, b.shape))
    a, b = np.broadcast_arrays(a, b)
    out[..., 0] = a[..., 0] * b[..., 0] - a[..., 1] * b[..., 1] - a[..., 2] * b[..., 2] - a[..., 3] * b[..., 3]
    out[..., 1] = a[..., 0] * b[..., 1] + a[..., 1] * b[..., 0] + a[..., 2] * b[..., 3] - a[..., 3] * b[..., 2]
    out[..., 2] = a[..., 0] * b[..., 2] - a[..., 1] * b[..., 3] + a[..., 2] * b[..., 0] + a[..., 3] * b[..., 1]
    out[..., 3] = a[..., 0] * b[..., 3] + a[..., 1] * b[..., 2] - a[..., 2] * b[..., 1] + a[..., 3] * b[..., 0]
    return out


def check_units_ok(cls, unit):
    if unit is not None and unit != (0, 0, 0) and not CLS[cls]['units']:
        raise Reject('class does not admit units')


def rule_addsub(op, a, b, a_conv, b_conv):
    if not units_match(a.unit, b.unit):
        raise Reject('units')
    if a.numer != b.numer:
        raise Reject('numerators')
    if a.denom != b.denom:
        raise Reject('denominators')
    L = bshape(a.lead, b.lead)
    kind = coerce(a.cls, promote(a.kind, b.kind))
    V = np_kernel(op, lead_bcast(a, L), lead_bcast(b, L)).astype(DT[kind])
    cls = a.cls if (a.cls == b.cls or a_conv or b_conv) else None
    if a_conv:
        cls = b.cls
    check_units_ok(a.cls, a.unit or b.unit)
    return Res(cls, kind, L, a.numer, a.denom, V, mask=mask_bcast(a, L) | mask_bcast(b, L))


def rule_scale(op, x, s, x_is_left):
    """x (any class) combined with a numerator-less s; op applied as (x op s) when
    x_is_left else (s op x); result has the class of x"""
    if x.denom and s.denom:
        raise Reject('two denominators')
    L = bshape(x.lead, s.lead)
    XA, SA = align_scale(x, s, L)
    denom = x.denom or s.denom
    if op == 'truediv':
        kind = coerce(x.cls, 'float')
    else:
        kind = coerce(x.cls, promote(x.kind, s.kind))
    V = np_kernel(op, XA, SA) if x_is_left else np_kernel(op, SA, XA)
    defined = None
    if op in ('truediv', 'floordiv', 'mod'):
        div = SA if x_is_left else XA
        defined = np.broadcast_to(div != 0, V.shape)
    with warnings.catch_warnings():
        warnings.simplefilter('ignore')
        V = V.astype(DT[kind])
    if op == 'mul':
        u = None if (x.unit is None and s.unit is None) else tuple(
            p + q for p, q in zip(x.unit or (0, 0, 0), s.unit or (0, 0, 0)))
    else:
        u = None if (x.unit is None and s.unit is None) else tuple(
            p - q for p, q in zip(x.unit or (0, 0, 0), s.unit or (0, 0, 0)))
    check_units_ok(x.cls, u)
    return Res(x.cls, kind, L, x.numer, denom, V, defined, mask=mask_bcast(x, L) | mask_bcast(s, L))


def rule_matmul(a, b):
    if a.denom and b.denom:
        raise Reject('two denominators')
    if a.numer[-1] != b.numer[0]:
        raise Reject('contracted axes differ')
    L = bshape(a.lead, b.lead)
    AA, BA = lead_bcast(a, L), lead_bcast(b, L)
    nl = len(L)
    # A: L + (p,q) + da ; B: L + (q,...) + db ; contraction over q
    la = 'ab' + ('x' if a.denom else '')
    lb = 'b' + ('c' if b.nrank == 2 else '') + ('y' if b.denom else '')
    lo = 'a' + ('c' if b.nrank == 2 else '') + ('x' if a.denom else '') + ('y' if b.denom else '')
    V = np.einsum('...%s,...%s->...%s' % (la, lb, lo), AA.astype(float), BA.astype(float))
    numer = a.numer[:-1] + b.numer[1:]
    denom = a.denom + b.denom
    cls = None
    for c in (b.cls, a.cls):
        if CLS[c]['nrank'] == len(numer) and (CLS[c]['numer'] is None or CLS[c]['numer'] == numer):
            cls = c
            break
    kind = coerce(cls, promote(a.kind, b.kind)) if cls else promote(a.kind, b.kind)
    if cls is None:
        cls = 'Qube?'          # no documented class holds this item; class not specified
    return Res(cls, kind, L, numer, denom, V.astype(DT[kind]),
               mask=mask_bcast(a, L) | mask_bcast(b, L))


def rule_mul(a, b, a_orig_q, b_orig_q, b_raw=None):
    # Hamilton product: Quaternion on the left times a Quaternion or a 3-vector
    if b.cls == 'Quaternion' and a_orig_q and a.cls == 'Vector' and a.numer == (3,):
        return None     # Quaternion.__rmul__ takes precedence over its base class: C16
    if a.cls == 'Quaternion' and b_orig_q and (b.cls == 'Quaternion' or b.numer == (3,)):
        if a.denom and b.denom:
            raise Reject('two denominators')
        if b.cls != 'Quaternion' and b.denom:
            return None     # Quaternion.from_parts with a denominator: C16
        L = bshape(a.lead, b.lead)
        V = None
        if not a.denom and not b.denom:
            BA = lead_bcast(b, L).astype(float)
            if b.cls != 'Quaternion':
                BA = np.concatenate([np.zeros(L + (1,)), BA], axis=-1)
            V = hamilton(lead_bcast(a, L).astype(float), BA)
        return Res('Quaternion', 'float', L, (4,), a.denom + b.denom, V,
                   mask=mask_bcast(a, L) | mask_bcast(b, L))
    if a.cls == 'Matrix3' and b.nrank == 0 and a.denom:
        return None     # derivative of a rotation times a scalar: not specified here
    if a.denom and b.denom:
        raise Reject('two denominators')
    if b.nrank == 0:
        if a.cls == 'Matrix3':
            # documented: a rotation leaves a scalar unchanged, the Scalar itself is returned
            if b_raw is not None:
                b = b_raw       # the very operand: a Boolean stays a Boolean
            return Res(b.cls, b.kind, b.lead, (), b.denom, b.A, mask=b.M, note='matrix3*scalar')
        return rule_scale('mul', a, b, True)
    if a.nrank == 0:
        return rule_scale('mul', b, a, False)
    if a.nrank == 2 and b.nrank in (1, 2):
        return rule_matmul(a, b)
    raise Reject('no product of these item shapes')


def rule_scalar_over(a, b):
    """a numerator-less object (or number) divided by an object with items: the product
    of the scalar with the reciprocal (inverse matrix, inverse rotation, reciprocal
    quaternion). Values belong to C16; class and shapes are stated here."""
    if b.denom:
        if b.nrank == 1 and b.drank == 1:
            return None         # treated as a matrix inversion: C16
        if b.nrank == 2:
            return None
        raise Reject('no reciprocal')
    if b.cls == 'Matrix3':
        # the inverse rotation leaves a scalar unchanged
        return Res(a.cls, a.kind, a.lead, (), a.denom, a.A, mask=a.M)
    if b.nrank == 2:
        if b.numer[0] != b.numer[1]:
            raise Reject('not square')
        if a.denom:
            return None
        return Res(b.cls, 'float', bshape(a.lead, b.lead), b.numer, (), None)
    if b.cls == 'Quaternion':
        if a.denom:
            return None
        check_units_ok('Quaternion', a.unit)
        return Res('Quaternion', 'float', bshape(a.lead, b.lead), (4,), (), None)
    raise Reject('no reciprocal')


def rule_truediv(a, b, a_orig_q, b_orig_q):
    if a.cls == 'Quaternion' and b_orig_q and (b.cls == 'Quaternion' or b.numer == (3,)):
        return None     # quaternion reciprocal: C16
    if b.nrank == 0:
        if b.denom:
            raise Reject('right denominator')
        return rule_scale('truediv', a, b, True)
    if a.nrank == 0:
        return rule_scalar_over(a, b)
    if b.denom:
        raise Reject('right denominator')
    if a.nrank == 2 and b.nrank == 2 and not a.denom:
        return None     # product with the inverse matrix: C16 (LAPACK)
    raise Reject('no quotient of these item shapes')


def rule_floormod(op, a, b):
    if a.nrank == 2:
        raise Reject('matrix')
    if b.denom:
        raise Reject('right denominator')
    if b.nrank == 0:
        return rule_scale(op, a, b, True)
    raise Reject('divisor with items')


def rule_pow(a, b, b_is_number):
    if a.nrank == 0:
        if a.denom:
            raise Reject('denominator')
        if b.nrank or b.denom:
            raise Reject('exponent with items')
        if b.unit not in (None, (0, 0, 0)):
            raise Reject('exponent with units')
        L = bshape(a.lead, b.lead)
        if a.unit not in (None, (0, 0, 0)) and b.lead != ():
            raise Reject('united base, several powers')
        XA, YA = lead_bcast(a, L), lead_bcast(b, L)
        kind = 'int' if (a.kind == 'int' and b.kind == 'int' and not (b.A < 0).any()) else 'float'
        with warnings.catch_warnings():
            warnings.simplefilter('ignore')
            V = np.power(XA.astype(DT[kind]), YA.astype(DT[kind]))
            defined = np.isfinite(V.astype(float))
        return Res('Scalar', kind, L, (), (), V, defined, ulps=2,
                   mask=mask_bcast(a, L) | mask_bcast(b, L))
    # other classes: one integer power by repeated products
    if b.lead != () or b.nrank or b.denom:
        raise Reject('exponent must be one number')
    e = b.A.item()
    if e != int(e) or not -15 <= e <= 15:
        raise Reject('exponent out of range')
    e = int(e)
    if bool(b.M.item()):
        return None
    if e == 1:
        return Res(a.cls, a.kind, a.lead, a.numer, a.denom, a.A, mask=a.M)
    if a.nrank == 1 and a.drank == 1 and e < 0:
        return None     # treated as a matrix inversion: C16
    if a.nrank == 2:
        if a.denom:
            return None
        if a.numer[0] != a.numer[1]:
            raise Reject('not square')
        if e < 0:
            return None     # inverse: C16
        V = np.broadcast_to(np.eye(a.numer[0]), a.lead + a.numer).copy()
        for _ in range(e):
            V = np.einsum('...ab,...bc->...ac', V, a.A.astype(float))
        return Res(a.cls, 'float', a.lead, a.numer, (), V, mask=a.M)
    if a.cls == 'Quaternion':
        if e <= 0 or a.denom:
            return None
        V = a.A.astype(float)
        for _ in range(e - 1):
            V = hamilton(V, a.A.astype(float))
        return Res('Quaternion', 'float', a.lead, (4,), (), V, mask=a.M)
    raise Reject('no power of a vector')


def reference(c):
    """('err',) | Res | None (not specified by this property)"""
    op = c['op']
    try:
        if op in BINOPS:
            da, db = c['a'], c['b']
            a_q, b_q = da['form'] == 'qube', db['form'] == 'qube'
            a = bool_to_int(norm_qube(da)) if a_q else None
            b = bool_to_int(norm_qube(db)) if b_q else None
            if op in ('add', 'sub'):
                if not a_q:
                    a = as_class_of(da, b)
                if not b_q:
                    b = as_class_of(db, a)
                return rule_addsub(op, a, b, not a_q, not b_q)
            if not a_q:
                if op == 'pow':
                    raise Reject('no reflected power')
                a = as_scalar_of(da)
            if not b_q:
                b = as_scalar_of(db)
            if op == 'mul':
                return rule_mul(a, b, a_q, b_q, norm_qube(db) if b_q else None)
            if op == 'truediv':
                r = rule_truediv(a, b, a_q, b_q)
                if r is not None and not a_q and da['form'] in ('pyint', 'pyfloat', 'pybool', 'npint', 'npfloat'):
                    r.ulps = 2          # computed as reciprocal times number
                return r
            if op in ('floordiv', 'mod'):
                return rule_floormod(op, a, b)
            if op == 'pow':
                return rule_pow(a, b, not b_q)
        a = bool_to_int(norm_qube(c['a'])) if c['a']['cls'] == 'Boolean' and op in UNOPS else norm_qube(c['a'])
        if op == 'neg':
            return Res(a.cls, a.kind, a.lead, a.numer, a.denom, -a.A, mask=a.M)
        if op == 'abs':
            if a.nrank == 0:
                return Res(a.cls, a.kind, a.lead, a.numer, a.denom, np.abs(a.A), mask=a.M)
            if a.nrank == 1:
                return None     # norm: C16
            raise Reject('abs of a matrix')
        if op in FUNS:
            if a.denom:
                raise Reject('denominator')
            if op in ('sin', 'cos', 'tan', 'exp') and a.unit not in (None, (0, 0, 0), (0, 0, 1)):
                raise Reject('units')
            if op in ('arcsin', 'arccos', 'arctan', 'log') and a.unit not in (None, (0, 0, 0)):
                if op != 'log':
                    raise Reject('units')
            if op == 'sqrt' and a.unit is not None and any(x % 2 for x in a.unit):
                raise Reject('units')
            X = a.A
            with warnings.catch_warnings():
                warnings.simplefilter('ignore')
                V = getattr(np, op)(X)
            if op in ('arcsin', 'arccos'):
                defined = (X >= -1) & (X <= 1)
            elif op == 'sqrt':
                defined = X >= 0
            elif op == 'log':
                defined = X > 0
            else:
                defined = np.isfinite(V)
            return Res('Scalar', 'float', a.lead, (), (), V, defined, mask=a.M)
        if op == 'arctan2':
            a = norm_qube(c['a'])
            db = c['b']
            b = bool_to_int(norm_qube(db)) if db['form'] == 'qube' else as_scalar_of(db)
            if b.nrank:
                raise Reject('items')
            if a.denom or b.denom:
                raise Reject('denominator')
            if not units_match(a.unit, b.unit):
                raise Reject('units')
            L = bshape(a.lead, b.lead)
            V = np.arctan2(lead_bcast(a, L), lead_bcast(b, L))
            return Res('Scalar', 'float', L, (), (), V, mask=mask_bcast(a, L) | mask_bcast(b, L))
    except Reject:
        return ('err',)
    raise ValueError(op)


# ---------------------------------------------------------------------------
# implementation run + observation
# ---------------------------------------------------------------------------
def kind_of(vals):
    if isinstance(vals, np.ndarray):
        k = vals.dtype.kind
        return {'f': 'float', 'i': 'int', 'u': 'int', 'b': 'bool'}.get(k, 'other:' + k)
    if isinstance(vals, (bool, np.bool_)):
        return 'bool'
    if isinstance(vals, (int, np.integer)):
        return 'int'
    if isinstance(vals, (float, np.floating)):
        return 'float'
    return 'other:' + type(vals).__name__


def observe(r, Pm):
    if isinstance(r, Pm.Qube):
        shape = tuple(r._shape_)
        item = tuple(r._numer_) + tuple(r._denom_)
        V = np.asarray(r._values_)
        ok_shape = V.shape == shape + item
        try:
            V = np.broadcast_to(V, shape + item)
            M = np.broadcast_to(np.asarray(r._mask_, bool), shape)
        except ValueError:
            return {'t': 'malformed', 'repr': repr(r)[:200]}
        D = {}
        for k, d in r._derivs_.items():
            try:
                D[k] = (np.broadcast_to(np.asarray(d._values_), shape + tuple(d._numer_) + tuple(d._denom_)),
                        np.broadcast_to(np.asarray(d._mask_, bool), shape))
            except ValueError:
                D[k] = None
        return {'t': 'obj', 'cls': type(r).__name__, 'kind': kind_of(r._values_), 'lead': shape,
                'numer': tuple(r._numer_), 'denom': tuple(r._denom_), 'V': V, 'M': M,
                'wf': ok_shape, 'dtype': str(V.dtype), 'D': D}
    return {'t': 'other', 'repr': type(r).__name__ + ':' + repr(r)[:120]}


def apply_op(op, a, b):
    if op in PYOP:
        return PYOP[op](a, b)
    if op == 'neg':
        return -a
    if op == 'abs':
        return abs(a)
    if op == 'arctan2':
        return a.arctan2(b)
    return getattr(a, op)()


def run_impl(c, Pm, operands=None):
    with warnings.catch_warnings():
        warnings.simplefilter('ignore')
        try:
            if operands is None:
                a = build(c['a'], Pm)
                b = build(c['b'], Pm) if 'b' in c else None
            else:
                a, b = operands
            return observe(apply_op(c['op'], a, b), Pm)
        except Exception as e:      # noqa
            name, site = lib.exc_family(e)
            return {'t': 'exc', 'name': name, 'site': site, 'msg': str(e)[:160]}


IPYOP = {'add': operator.iadd, 'sub': operator.isub, 'mul': operator.imul, 'truediv': operator.itruediv,
         'floordiv': operator.ifloordiv, 'mod': operator.imod}


def run_inplace(c, Pm):
    """the in-place form x op= y on a writable copy of the left operand"""
    with warnings.catch_warnings():
        warnings.simplefilter('ignore')
        try:
            a = build(c['a'], Pm).copy()
            b = build(c['b'], Pm)
            return observe(IPYOP[c['op']](a, b), Pm)
        except Exception as e:      # noqa
            name, site = lib.exc_family(e)
            return {'t': 'exc', 'name': name, 'site': site, 'msg': str(e)[:160]}


def direct_operands(c, Pm):
    """the direct form of a mixed case: the non-polymath operand converted explicitly
    to the class the operation documents (class of the other operand for + and -,
    Scalar otherwise); None if the case has no mixed operand"""
    if 'b' not in c:
        return None
    da, db = c['a'], c['b']
    if da['form'] == 'qube' and db['form'] == 'qube':
        return None
    out = []
    for d, other in ((da, db), (db, da)):
        if d['form'] == 'qube':
            out.append(build(d, Pm))
            continue
        raw = build(d, Pm)
        if c['op'] in ('add', 'sub'):
            o = build(other, Pm)
            if other['cls'] == 'Boolean':
                out.append(Pm.Scalar(raw))
            else:
                out.append(type(o)(raw, drank=len(other['denom'])))
        else:
            out.append(Pm.Scalar(raw))
    return out


def ulp_close(x, y, ulps):
    x = np.asarray(x, float)
    y = np.asarray(y, float)
    if ulps == 0:
        return x.tobytes() == y.tobytes() if x.shape == y.shape else False
    with np.errstate(all='ignore'):
        return bool(np.all((x == y) | (np.abs(x - y) <= ulps * np.spacing(np.maximum(np.abs(x), np.abs(y))))))


def bits_equal(x, y):
    """element-wise bit equality of two arrays of the same kind"""
    if x.dtype.kind == 'f' or y.dtype.kind == 'f':
        return np.asarray(x, np.float64).view(np.int64) == np.asarray(y, np.float64).view(np.int64)
    return np.asarray(x) == np.asarray(y)


def compare(impl, ref):
    """list of disagreement tags between the implementation outcome and the reference"""
    if ref is None:
        if impl['t'] == 'exc' and impl['name'] not in ('ValueError', 'TypeError'):
            return ['unclean-exception']
        if impl['t'] in ('other', 'malformed'):
            return ['not-an-object']
        return []
    if isinstance(ref, tuple):
        if impl['t'] != 'exc':
            return ['accepted-but-incompatible']
        if impl['name'] not in ('ValueError', 'TypeError'):
            return ['rejected-with-wrong-exception']
        return []
    if impl['t'] == 'exc':
        return ['rejected-but-compatible']
    if impl['t'] != 'obj':
        return ['not-an-object']
    bad = []
    if not impl['wf']:
        bad.append('values-shape-not-shape+item')
    if ref.cls is not None and not ref.cls.endswith('?') and impl['cls'] != ref.cls:
        bad.append('class')
    if impl['kind'] != ref.kind:
        bad.append('kind')
    if impl['lead'] != ref.lead:
        bad.append('leading-shape')
    if impl['numer'] != ref.numer or impl['denom'] != ref.denom:
        bad.append('item-shape')
    if bad or ref.V is None:
        return bad
    V = np.asarray(ref.V)
    full = ref.lead + ref.numer + ref.denom
    sel = ~np.broadcast_to(impl['M'].reshape(ref.lead + (1,) * (len(full) - len(ref.lead))), full)
    if ref.defined is not None:
        sel = sel & np.broadcast_to(ref.defined, full)
    if ref.kind == 'float':
        sel = sel & np.isfinite(np.asarray(V, float))
    iv = impl['V'][sel]
    rv = np.broadcast_to(V, full)[sel]
    if ref.ulps == 0:
        if not bool(np.all(bits_equal(iv, rv))):
            bad.append('values')
    elif not ulp_close(iv, rv, ref.ulps):
        bad.append('values')
    return bad


def same_answer(x, y, ulps):
    """reflected/mixed form vs direct form (both implementation runs)"""
    if x['t'] != 'obj' or y['t'] != 'obj':
        return True         # not both accepted
    for k in ('cls', 'kind', 'lead', 'numer', 'denom'):
        if x[k] != y[k]:
            return False
    if not np.array_equal(x['M'], y['M']):
        return False
    full = x['lead'] + x['numer'] + x['denom']
    sel = ~np.broadcast_to(x['M'].reshape(x['lead'] + (1,) * (len(full) - len(x['lead']))), full)
    xv, yv = x['V'][sel], y['V'][sel]
    if ulps == 0:
        return bool(np.all(bits_equal(xv, yv)))
    return ulp_close(xv, yv, ulps)


def same_derivs(x, y):
    """the derivatives of the reflected / mixed form are those of the direct form (keys; values where the result and
    the derivative are unmasked)"""
    if x['t'] != 'obj' or y['t'] != 'obj':
        return True
    if sorted(x['D']) != sorted(y['D']):
        return False
    for k in x['D']:
        a, b = x['D'][k], y['D'][k]
        if a is None or b is None or a[0].shape != b[0].shape:
            return False
        hide = np.broadcast_to((x['M'] | a[1] | b[1]).reshape(x['lead'] + (1,) * (a[0].ndim - len(x['lead']))), a[0].shape)
        if not np.allclose(np.where(hide, 0., a[0]), np.where(hide, 0., b[0]), rtol=1e-12, atol=0., equal_nan=True):
            return False
    return True


# ---------------------------------------------------------------------------
# case generation
# ---------------------------------------------------------------------------
def all_shapes(maxrank, lengths=(0, 1, 2, 3)):
    out = []
    for r in range(maxrank + 1):
        out.extend(itertools.product(lengths, repeat=r))
    return out


SHAPES2 = all_shapes(2)
SHAPES3 = all_shapes(3)
COMMON_PAIRS = [((), ()), ((3,), ()), ((), (3,)), ((3,), (3,)), ((2, 3), (3,)), ((3,), (2, 3)),
                ((3, 1), (1, 3)), ((2, 1), (2, 3)), ((1,), (3,)), ((2,), (3,)), ((2, 3), (2,)),
                ((3, 3), (3,)), ((0,), ()), ((2, 0), (1,)), ((3,), (3, 3)), ((2, 1, 3), (3, 1)),
                ((2,), (2,)), ((4,), (4,)), ((3, 2), (3, 1)), ((1, 3), (3, 3))]


def rvals(rng, n, kind, lo=-3, hi=4):
    if kind == 'bool':
        return [rng.randint(0, 1) for _ in range(n)]
    return [rng.randint(lo, hi) for _ in range(n)]


def gen_mask(rng, lead, mode):
    n = int(np.prod(lead))
    if mode == 'F' or n == 0:
        return False
    if mode == 'T':
        return True
    bits = [rng.random() < 0.3 for _ in range(n)]
    if lead == ():
        return bool(bits[0])
    return bits


def gen_qube(rng, cls, lead, kind=None, numer=None, denom=(), mask='F', unit=None, lo=-3, hi=4):
    if numer is None:
        numer = rng.choice(NUMERS[cls]) if rng.random() < 0.35 else NUMERS[cls][0]
    if kind is None:
        kind = 'bool' if cls == 'Boolean' else rng.choice(['int', 'float'])
    if cls == 'Boolean':
        kind, denom, unit = 'bool', (), None
    n = int(np.prod(tuple(lead) + tuple(numer) + tuple(denom)))
    return {'form': 'qube', 'cls': cls, 'kind': kind, 'lead': list(lead), 'numer': list(numer),
            'denom': list(denom), 'vals': rvals(rng, n, kind, lo, hi), 'mask': gen_mask(rng, tuple(lead), mask),
            'unit': unit}


def gen_nonq(rng, form, shape, kind=None, lo=-3, hi=4):
    if form in ('pyint', 'npint'):
        return {'form': form, 'kind': 'int', 'shape': [], 'vals': rvals(rng, 1, 'int', lo, hi)}
    if form in ('pyfloat', 'npfloat'):
        return {'form': form, 'kind': 'float', 'shape': [], 'vals': rvals(rng, 1, 'float', lo, hi)}
    if form == 'pybool':
        return {'form': form, 'kind': 'bool', 'shape': [], 'vals': rvals(rng, 1, 'bool')}
    if kind is None:
        kind = rng.choice(['int', 'float', 'int', 'float', 'bool'])
    shape = tuple(shape)
    if form == 'list':
        # a nested list has rank >= 1 and cannot express axes after a zero-length one;
        # NumPy reads an empty list as float
        if shape == ():
            shape = (1,)
        if 0 in shape:
            shape = shape[:shape.index(0) + 1]
            kind = 'float'
    n = int(np.prod(shape))
    d = {'form': form, 'kind': kind, 'shape': list(shape), 'vals': rvals(rng, n, kind, lo, hi)}
    if form == 'ma':
        d['mbits'] = [rng.random() < 0.3 for _ in range(n)]
    return d


def pick_variant(rng, op, fa, fb, la, lb):
    """one case for the ordered operand-form pair (fa, fb) with leading shapes la, lb;
    items, kinds, denominators, units, masks drawn from the admitted pools with a bias to
    compatible combinations"""
    qa, qb = fa in CLS, fb in CLS
    lo, hi = (-3, 4)
    if op == 'pow':
        hi = 3
    mask_a = rng.choice(['F', 'F', 'F', 'A', 'T'] if rng.random() < 0.4 else ['F'])
    mask_b = rng.choice(['F', 'F', 'F', 'A', 'T'] if rng.random() < 0.4 else ['F'])
    unit_a = unit_b = None
    if op in ('add', 'sub', 'mul', 'truediv') and rng.random() < 0.12:
        unit_a = rng.choice([None, 'KM', 'SEC'])
        unit_b = rng.choice([None, 'KM', 'SEC'])
    den_a = den_b = ()
    r = rng.random()
    if r < 0.10:
        den_a = rng.choice([(2,), (3,)])
        if op in ('add', 'sub') and rng.random() < 0.7:
            den_b = den_a
    elif r < 0.20:
        den_b = rng.choice([(2,), (3,)])
        if op in ('add', 'sub') and rng.random() < 0.7:
            den_a = den_b
    elif r < 0.24:
        den_a = rng.choice([(2,), (3,)])
        den_b = rng.choice([(2,), (3,)])
    elif r < 0.30 and op in ('add', 'sub'):
        # same denominator rank, different shapes, one of them of length one: a denominator axis
        # is an item axis and must not broadcast (seeded change C04-B)
        den_a, den_b = rng.choice([((1,), (3,)), ((3,), (1,)), ((1,), (2,)), ((2,), (1,)), ((1,), (1,))])
    if op in ('add', 'sub') and rng.random() < 0.12:     # exactly one denominator
        den_a, den_b = rng.choice([((2,), ()), ((), (2,)), ((3,), ()), ((), (3,)), ((1,), ()), ((), (1,))])
    a = b = None
    if qa:
        if not CLS[fa]['units']:
            unit_a = None
        a = gen_qube(rng, fa, la, denom=den_a, mask=mask_a, unit=unit_a, lo=lo, hi=hi)
    if qb:
        if not CLS[fb]['units']:
            unit_b = None
        numer = None
        if qa and op in ('add', 'sub') and CLS[fb]['numer'] is None and CLS[fb]['nrank'] == len(a['numer']) \
                and rng.random() < 0.8:
            numer = tuple(a['numer'])
        if qa and op in ('mul', 'pow') and CLS[fa]['nrank'] == 2 and CLS[fb]['numer'] is None \
                and rng.random() < 0.8:
            q = a['numer'][1]
            numer = (q,) if CLS[fb]['nrank'] == 1 else (q, rng.choice([1, 2, 3]))
        elo, ehi = lo, hi
        if op == 'pow':
            elo, ehi = -2, 3
        kind = None
        if op == 'pow' and CLS[fb]['nrank'] == 0 and fb != 'Boolean':
            kind = rng.choice(['int', 'int', 'float'])
            mask_b = 'F'
        b = gen_qube(rng, fb, lb, kind=kind, numer=numer, denom=den_b if fb != 'Boolean' else (),
                     mask=mask_b, unit=unit_b, lo=elo, hi=ehi)
        if qa and not CLS[fa]['units']:
            pass
    if not qa:
        shape = tuple(la)
        if op in ('add', 'sub') and rng.random() < 0.85:
            shape = shape + tuple(b['numer']) + (tuple(b['denom']) if rng.random() < 0.8 else (1,) * len(b['denom']))
        a = gen_nonq(rng, fa, shape, lo=lo, hi=hi)
    if not qb:
        shape = tuple(lb)
        if op in ('add', 'sub') and rng.random() < 0.85:
            shape = shape + tuple(a['numer']) + (tuple(a['denom']) if rng.random() < 0.8 else (1,) * len(a['denom']))
        elo, ehi = (-2, 3) if op == 'pow' else (lo, hi)
        b = gen_nonq(rng, fb, shape, lo=elo, hi=ehi)
    return {'op': op, 'a': a, 'b': b}


def form_pairs():
    forms = QCLASSES + NONQ
    return [(fa, fb) for fa in forms for fb in forms if fa in CLS or fb in CLS]


def gen_unary(rng, n):
    out = []
    for _ in range(n):
        op = rng.choice(UNOPS + FUNS + ['arctan2'])
        lead = rng.choice(SHAPES2 + [(2, 1, 3), (3, 2, 2)])
        if op in UNOPS:
            cls = rng.choice(QCLASSES)
            den = rng.choice([(), (), (), (2,), (3,)])
            out.append({'op': op, 'a': gen_qube(rng, cls, lead, denom=den,
                                                 mask=rng.choice(['F', 'F', 'A', 'T']))})
        else:
            den = rng.choice([(), (), (), (), (), (2,)])
            unit = rng.choice([None] * 6 + ['KM', 'RAD'])
            a = gen_qube(rng, 'Scalar', lead, denom=den, mask=rng.choice(['F', 'F', 'A']), unit=unit,
                         lo=-2, hi=3)
            c = {'op': op, 'a': a}
            if op == 'arctan2':
                lb = rng.choice(SHAPES2)
                fb = rng.choice(['Scalar', 'Scalar', 'Scalar', 'pyint', 'pyfloat', 'nd', 'Boolean', 'Vector3'])
                if fb in CLS:
                    c['b'] = gen_qube(rng, fb, lb, mask=rng.choice(['F', 'F', 'A']),
                                      denom=rng.choice([(), (), (), (2,)]) if fb != 'Boolean' else ())
                else:
                    c['b'] = gen_nonq(rng, fb, lb)
            out.append(c)
    return out


def gen_bshape(rng, n):
    out = []
    pool = SHAPES3
    for _ in range(n):
        k = rng.choice([0, 1, 2, 2, 2, 3, 3, 4])
        shapes = []
        base = rng.choice(pool)
        for _ in range(k):
            r = rng.random()
            if r < 0.55:        # related to the base shape: compatible more often than not
                cut = rng.randint(0, len(base))
                shapes.append([rng.choice([x, x, 1]) for x in base[cut:]])
            else:
                shapes.append(list(rng.choice(pool)))
        out.append({'op': rng.choice(['bshape', 'bshape', 'broadcast']), 'shapes': shapes,
                    'as_objects': rng.random() < 0.5, 'cls': rng.choice(['Scalar', 'Vector3', 'Pair'])})
    return out


def gen_cases(rng, tier):
    cases = gen_bshape(rng, 400 if tier == 'quick' else 20000)
    pairs = form_pairs()
    # core: every operator x every ordered form pair, a compatible-looking and a random shape pair
    for op in BINOPS:
        for fa, fb in pairs:
            la, lb = rng.choice(COMMON_PAIRS)
            if fa in NONQ[:5]:
                la = ()
            if fb in NONQ[:5]:
                lb = ()
            cases.append(pick_variant(rng, op, fa, fb, la, lb))
    # in-place core: the right operand broadcasts INTO the leading shape of the left one, so that x op= y is
    # admissible; every operator with an in-place form x every left class x every right form
    for op in sorted(IPYOP):
        for fa, fb in pairs:
            if fa not in CLS:
                continue
            for _ in range(1 if tier == 'quick' else 4):
                la = rng.choice([(2,), (3,), (2, 3), (1, 2)])
                lb = rng.choice([la, la, (), la[-1:]])
                if fb in NONQ[:5]:
                    lb = ()
                c = pick_variant(rng, op, fa, fb, la, lb)
                if c['b'].get('form') == 'ma' and 'mbits' in c['b'] and not any(c['b']['mbits']) and c['b']['mbits']:
                    c['b']['mbits'][-1] = True
                cases.append(c)
    if tier == 'quick':
        nrand = 2600
        for _ in range(nrand):
            op = rng.choice(BINOPS)
            fa, fb = rng.choice(pairs)
            if rng.random() < 0.5:
                la, lb = rng.choice(COMMON_PAIRS)
            else:
                la, lb = rng.choice(SHAPES3), rng.choice(SHAPES3)
            if fa in NONQ[:5]:
                la = ()
            if fb in NONQ[:5]:
                lb = ()
            cases.append(pick_variant(rng, op, fa, fb, la, lb))
        cases.extend(gen_unary(rng, 500))
    else:
        # every leading-shape pair of rank <= 2 (lengths 0-3) for every operator x form pair
        for op in BINOPS:
            for fa, fb in pairs:
                sa = [()] if fa in NONQ[:5] else SHAPES2
                sb = [()] if fb in NONQ[:5] else SHAPES2
                for la in sa:
                    for lb in sb:
                        cases.append(pick_variant(rng, op, fa, fb, la, lb))
        # rank 3: covering sample
        for _ in range(40000):
            op = rng.choice(BINOPS)
            fa, fb = rng.choice(pairs)
            la, lb = rng.choice(SHAPES3), rng.choice(SHAPES3)
            if rng.random() < 0.5:      # make them broadcastable more often
                lb = tuple(rng.choice([x, 1]) for x in la[rng.randint(0, len(la)):])
            if fa in NONQ[:5]:
                la = ()
            if fb in NONQ[:5]:
                lb = ()
            cases.append(pick_variant(rng, op, fa, fb, la, lb))
        cases.extend(gen_unary(rng, 6000))
    # history core: every operator with a float Scalar operand obtained as (x0 with a derivative and warm cache) + number,
    # on either side, plain distinct values (the derivative-free twin of such an operand is what %, // consult)
    for op in BINOPS:
        if op == 'pow':
            continue
        for side in ('a', 'b'):
            for lead in ((4,), (2, 2), ()):
                n = int(np.prod(lead))
                c = {'op': op, 'a': {'form': 'qube', 'cls': 'Scalar', 'kind': 'float', 'lead': list(lead), 'numer': [],
                                     'denom': [], 'vals': [13, 17, 19, 23][:n], 'mask': False, 'unit': None},
                     'b': {'form': 'qube', 'cls': 'Scalar', 'kind': 'float', 'lead': list(lead), 'numer': [],
                           'denom': [], 'vals': [3, 5, 7, 11][:n], 'mask': False, 'unit': None}}
                c[side]['hist'] = ['derived', 0]
                cases.append(c)
                c2 = {'op': op, 'a': dict(c['a']), 'b': dict(c['b'])}
                c2[side]['hist'] = ['inplace_num', 0]
                cases.append(c2)
    # a fraction of the polymath operands is REACHED THROUGH A HISTORY (harness/hist.py); the reference is still
    # computed from the description (seeded change C04-D: x + number keeping the cached wod of x)
    HM = ['derived', 'derived', 'derived', 'inplace_num', 'inplace_num', 'sibling', 'sibling', 'setitem', 'iadd', 'isub', 'imul', 'itruediv', 'iand', 'ior']
    for c in cases:
        for k in ('a', 'b'):
            if k in c and c[k].get('form') == 'qube' and 'hist' not in c[k] and rng.random() < 0.3:
                mode = rng.choice(HM)
                # 'derived' leaves an extra derivative on the operand: only where that cannot change what the
                # operation accepts (Scalar op Scalar / number, not an exponent)
                others = [c[j] for j in ('a', 'b') if j in c and j != k]
                plain = c[k].get('cls') == 'Scalar' and c['op'] != 'pow' and \
                    all(o.get('cls', 'Scalar') == 'Scalar' for o in others)
                if mode in ('derived', 'inplace_num') and not plain:
                    mode = 'setitem'
                c[k] = dict(c[k], hist=[mode, rng.randrange(24)])
    return cases


# ---------------------------------------------------------------------------
# Coq terms
# ---------------------------------------------------------------------------
COQCLS = {'Scalar': 'CScalar', 'Boolean': 'CBoolean', 'Vector': 'CVector', 'Vector3': 'CVector3',
          'Pair': 'CPair', 'Matrix': 'CMatrix', 'Matrix3': 'CMatrix3', 'Quaternion': 'CQuaternion',
          'Qube': 'CQube'}
COQKIND = {'bool': 'KBool', 'int': 'KInt', 'float': 'KFloat'}
COQFORM = {'qube': 'FQ', 'pyint': 'FNum', 'pyfloat': 'FNum', 'pybool': 'FNum', 'npint': 'FNum',
           'npfloat': 'FNum', 'nd': 'FArr', 'ma': 'FMa', 'list': 'FList'}
COQOP = {'add': 'OAdd', 'sub': 'OSub', 'mul': 'OMul', 'truediv': 'ODiv', 'floordiv': 'OFloor',
         'mod': 'OMod', 'pow': 'OPow'}
COQUN = {'neg': 'UNeg', 'abs': 'UAbs'}


def cunit(u):
    e = UEXP[u]
    if e is None:
        return copt(None, '(Z*Z*Z)')
    return copt('(%s, %s, %s)' % tuple(cZ(x) for x in e))


def coq_operand(d):
    """operand as the implementation holds it after construction (kind coerced by class)"""
    if d['form'] == 'qube':
        kind = coerce(d['cls'], d['kind'])
        return '(mkopL %s %s %s %s %s %s %s %s)' % (
            'FQ', COQCLS[d['cls']], COQKIND[kind], cshape(d['lead']), cshape(d['numer']),
            cshape(d['denom']), clist([cZ(v) for v in d['vals']], 'Z'), cunit(d.get('unit')))
    return '(mkopL %s CScalar %s %s %s %s %s %s)' % (
        COQFORM[d['form']], COQKIND[d['kind']], cshape(d['shape']), cshape(()), cshape(()),
        clist([cZ(v) for v in d['vals']], 'Z'), cunit(None))


def cval(x):
    """a result value as an exact rational (num, den); den = 0 encodes non-finite"""
    if isinstance(x, (bool, np.bool_)):
        return '(%s, 1%%Z)' % cZ(int(x))
    if isinstance(x, (int, np.integer)):
        return '(%s, 1%%Z)' % cZ(int(x))
    x = float(x)
    if math.isnan(x):
        return '(0%Z, 0%Z)'
    if math.isinf(x):
        return '(%s, 0%%Z)' % cZ(1 if x > 0 else -1)
    n, dd = x.as_integer_ratio()
    return '(%s, %s)' % (cZ(n), cZ(dd))


def kernel_table(c):
    """NumPy's scalar kernel on every pair of operand values, for the oracle kernels"""
    op = c['op']
    if op not in ('truediv', 'pow') and op not in FUNS and op != 'arctan2':
        return '(@nil (Z*Z*(Z*Z)))'
    xs = sorted(set(c['a']['vals']))
    ent = []
    with warnings.catch_warnings():
        warnings.simplefilter('ignore')
        if op in FUNS:
            for x in xs:
                v = getattr(np, op)(np.array([x], dtype=DT[coerce('Scalar', c['a']['kind'])]))[0]
                ent.append('(%s, 0%%Z, %s)' % (cZ(x), cval(v)))
        else:
            ys = sorted(set(c['b']['vals']))
            for x in xs:
                for y in ys:
                    if op == 'truediv':
                        v = np.array([x], np.int64) / np.array([y], np.int64)
                    elif op == 'pow':
                        v = np.power(np.array([x], np.float64), np.array([y], np.float64))
                    else:
                        v = np.arctan2(np.array([x], np.float64), np.array([y], np.float64))
                    ent.append('(%s, %s, %s)' % (cZ(x), cZ(y), cval(v[0])))
    return clist(ent, '(Z*Z*(Z*Z))')


def coq_bshape(c, res):
    if c['op'] != 'bshape':
        return None
    t = '(CBs %s)' % clist([cshape(s) for s in c['shapes']], 'shape')
    impl = res['impl']
    if impl['t'] == 'exc':
        return '(%s, (OErr ValueErr))' % t
    return '(%s, (OSh %s))' % (t, cshape(impl['shape']))


def coq_excluded(c, ref):
    """cases the model does not speak about: operations this property leaves to C16
    (reference None), and the regions of the recorded findings whose repair is proposed
    (the model states the repaired behaviour there)"""
    if ref is None:
        return True
    if c['a']['form'] == 'ma':
        return True
    b = c.get('b')
    nr = lambda d: len(d['numer']) if d['form'] == 'qube' else 0
    if b and c['op'] == 'truediv' and b['form'] == 'qube' and nr(b) > 0 and nr(c['a']) == 0:
        return True
    return False


def coq_case(c):
    op = c['op']
    if op in BINOPS:
        return '(CBin %s %s %s %s)' % (COQOP[op], coq_operand(c['a']), coq_operand(c['b']), kernel_table(c))
    if op in UNOPS:
        return '(CUn %s %s %s)' % (COQUN[op], coq_operand(c['a']), kernel_table(c))
    if op in FUNS:
        return '(CUn (UFun %s) %s %s)' % (cnat(FUNS.index(op)), coq_operand(c['a']), kernel_table(c))
    return None


def coq_obs(impl, ref):
    """what the implementation returned, on the projection of this property: outcome
    family, class, kind, shapes, values at elements that are unmasked (and defined)"""
    if impl['t'] == 'exc':
        return '(OErr %s)' % ('TypeErr' if impl['name'] == 'TypeError' else 'ValueErr')
    if impl['t'] != 'obj':
        return None
    full = impl['lead'] + impl['numer'] + impl['denom']
    sel = ~np.broadcast_to(impl['M'].reshape(impl['lead'] + (1,) * (len(full) - len(impl['lead']))), full)
    exact = True
    if isinstance(ref, Res):
        if ref.defined is not None and tuple(ref.lead + ref.numer + ref.denom) == full:
            sel = sel & np.broadcast_to(ref.defined, full)
        if ref.ulps or ref.V is None:
            exact = False
    else:
        exact = False
    vals = []
    flatV = impl['V'].ravel() if impl['V'].size else []
    flatS = sel.ravel() if sel.size else []
    for v, s in zip(flatV, flatS):
        if s and exact and (impl['kind'] != 'float' or math.isfinite(float(v))):
            vals.append('(Some %s)' % cval(v))
        else:
            vals.append('None')
    cls = COQCLS.get(impl['cls'])
    if cls is None or impl['kind'] not in COQKIND:
        return None
    return '(OOk %s %s %s %s %s %s)' % (cls, COQKIND[impl['kind']], cshape(impl['lead']),
                                       cshape(impl['numer']), cshape(impl['denom']),
                                       clist(vals, '(option (Z*Z))'))


# ---------------------------------------------------------------------------
# one case
# ---------------------------------------------------------------------------
def run_bshape(c, Pm):
    """Qube.broadcasted_shape / Qube.broadcast against NumPy's broadcasting of the
    leading shapes (items appended untouched)"""
    shapes = [tuple(s) for s in c['shapes']]
    item = CLS[c['cls']]['numer']
    objs = []
    for k, s in enumerate(shapes):
        A = (np.arange(int(np.prod(s + item))) + 7 * k).reshape(s + item).astype(float)
        objs.append(getattr(Pm, c['cls'])(A if A.shape else A.item()))
    try:
        L = tuple(np.broadcast_shapes(*shapes))
    except ValueError:
        L = None
    res = {'ref': ('err',) if L is None else ('shape', L), 'direct': None, 'bad': []}
    try:
        with warnings.catch_warnings():
            warnings.simplefilter('ignore')
            if c['op'] == 'bshape':
                got = Pm.Qube.broadcasted_shape(*(objs if c['as_objects'] else shapes))
                res['impl'] = {'t': 'shape', 'shape': tuple(got)}
                if L is None:
                    res['bad'].append('accepted-but-incompatible')
                elif tuple(got) != L:
                    res['bad'].append('leading-shape')
            else:
                out = Pm.Qube.broadcast(*objs)
                res['impl'] = {'t': 'shape', 'shape': tuple(out[0].shape) if out else ()}
                if L is None:
                    res['bad'].append('accepted-but-incompatible')
                else:
                    for o, src, s in zip(out, objs, shapes):
                        pad = (1,) * (len(L) - len(s))
                        want = np.broadcast_to(np.asarray(src._values_).reshape(pad + s + item), L + item)
                        if tuple(o.shape) != L or tuple(o.numer) != item:
                            res['bad'].append('leading-shape')
                            break
                        if not np.array_equal(np.asarray(o._values_), want):
                            res['bad'].append('values')
                            break
    except Exception as e:      # noqa
        name, site = lib.exc_family(e)
        res['impl'] = {'t': 'exc', 'name': name, 'site': site, 'msg': str(e)[:160]}
        if L is not None:
            res['bad'].append('rejected-but-compatible')
        elif name not in ('ValueError', 'TypeError'):
            res['bad'].append('rejected-with-wrong-exception')
    return res


def run_case(c, Pm):
    if c['op'] in ('bshape', 'broadcast'):
        return run_bshape(c, Pm)
    res = {'ref': reference(c), 'impl': run_impl(c, Pm)}
    res['bad'] = compare(res['impl'], res['ref'])
    # reflected / mixed form vs direct form
    res['direct'] = None
    if c['op'] in BINOPS and (c['a']['form'] != 'qube' or c['b']['form'] != 'qube'):
        try:
            with warnings.catch_warnings():
                warnings.simplefilter('ignore')
                ops = direct_operands(c, Pm)
        except Exception:       # noqa  the explicit conversion itself is rejected
            ops = None
        if ops is not None:
            res['direct'] = run_impl(c, Pm, operands=ops)
            ulps = res['ref'].ulps if isinstance(res['ref'], Res) else 4
            if not same_answer(res['impl'], res['direct'], ulps):
                res['bad'].append('reflected-differs-from-direct')
            elif res['impl']['t'] == 'obj' and c['op'] in ('add', 'sub', 'mul', 'truediv'):
                # the same pair of runs with a derivative on the polymath operand (seeded change C04-I: a shortcut
                # of the reflected subtraction kept the derivative's sign)
                import copy as _copy
                c2 = _copy.deepcopy(c)
                for side in ('a', 'b'):
                    if c2[side]['form'] == 'qube':
                        c2[side]['tderiv'] = True
                try:
                    with warnings.catch_warnings():
                        warnings.simplefilter('ignore')
                        ops2 = direct_operands(c2, Pm)
                    r1, r2 = run_impl(c2, Pm), run_impl(c2, Pm, operands=ops2)
                    if not same_derivs(r1, r2):
                        res['bad'].append('reflected-derivative-differs-from-direct')
                except Exception:       # noqa
                    pass
    # in-place form: whenever x op y has the class, kind and shape of x and x op= y is accepted, both give the
    # same answer (mask included) - for every operand form (number, ndarray, MaskedArray, list, object)
    if c['op'] in IPYOP and c['a']['form'] == 'qube' and res['impl']['t'] == 'obj':
        r = res['impl']
        if (r['cls'] == c['a']['cls'] and r['lead'] == tuple(c['a']['lead']) and r['kind'] == norm_qube(c['a']).kind
                and r['numer'] == tuple(c['a']['numer']) and r['denom'] == tuple(c['a']['denom'])):
            res['inplace'] = run_inplace(c, Pm)
            ulps = res['ref'].ulps if isinstance(res['ref'], Res) else 4
            if c['op'] == 'truediv' and c['b']['form'] not in ('pyint', 'pyfloat', 'pybool', 'npint', 'npfloat'):
                ulps = max(ulps, 2)     # x /= y is documented as x *= y.reciprocal(): two roundings instead of one
            if res['inplace']['t'] == 'obj' and not same_answer(res['inplace'], r, ulps):
                res['bad'].append('inplace-differs-from-binary')
    return res


def operand_constructed_ok(d, Pm):
    """class/dtype coercion on construction: the built object holds what the class rules say"""
    if d['form'] != 'qube':
        return True
    o = build(d, Pm)
    n = norm_qube(d)
    if kind_of(o._values_) != n.kind or tuple(o._shape_) != n.lead or tuple(o._numer_) != n.numer \
            or tuple(o._denom_) != n.denom:
        return False
    return bool(np.all(bits_equal(np.broadcast_to(np.asarray(o._values_), n.A.shape), n.A)))


def signature(c, res):
    impl = res['impl']
    if c['op'] in ('bshape', 'broadcast'):
        sig = {'op': c['op'], 'why': res['bad'][0] if res['bad'] else '', 'n_shapes': len(c['shapes'])}
        if impl['t'] == 'exc':
            sig['exc'] = impl['name']
            sig['site'] = impl['site']
        return sig
    sig = {'op': c['op'], 'why': res['bad'][0] if res['bad'] else '',
           'form_a': c['a']['form'], 'cls_a': c['a'].get('cls'),
           'form_b': c.get('b', {}).get('form'), 'cls_b': c.get('b', {}).get('cls'),
           'denom_a': bool(c['a'].get('denom')), 'denom_b': bool(c.get('b', {}).get('denom')),
           'itemsize1_b': int(np.prod(c.get('b', {}).get('numer', [0]) or [1])) == 1}
    b = c.get('b')
    sig['a_is_qube'] = c['a']['form'] == 'qube'
    sig['result_all_masked'] = bool(impl['t'] == 'obj' and impl['M'].size and impl['M'].all())
    sig['b_zero_number'] = bool(b and b['form'] in NONQ[:5] and b['vals'][0] == 0)
    nr = lambda d: len(d['numer']) if d['form'] == 'qube' else 0
    sig['scalar_over_items'] = bool(b and c['op'] == 'truediv' and b['form'] == 'qube' and nr(b) > 0
                                    and nr(c['a']) == 0)
    if impl['t'] == 'exc':
        sig['exc'] = impl['name']
        sig['site'] = impl['site']
    return sig


def nontrivial(c, res):
    if c['op'] in ('bshape', 'broadcast'):
        return len(c['shapes']) >= 2
    return isinstance(res['ref'], Res) and (res['ref'].lead != () or res['ref'].numer != ())


def slim(c):
    if 'a' not in c:
        return c
    return c if len(str(c)) < 900 else {'op': c['op'], 'a': {k: v for k, v in c['a'].items() if k != 'vals'},
                                         'b': {k: v for k, v in c.get('b', {}).items() if k not in ('vals', 'mbits')}}


def printable(x):
    if isinstance(x, Res):
        return {'cls': x.cls, 'kind': x.kind, 'lead': x.lead, 'numer': x.numer, 'denom': x.denom,
                'values': None if x.V is None else np.asarray(x.V).tolist(),
                'defined': None if x.defined is None else np.asarray(x.defined).tolist(), 'ulps': x.ulps}
    if isinstance(x, dict):
        return {k: (v.tolist() if isinstance(v, np.ndarray) else v) for k, v in x.items()}
    return x


def load_corpus():
    """minimised past failures and hand-picked cells, run first in every tier"""
    import glob
    import os
    out = []
    for path in sorted(glob.glob(os.path.join(lib.VERIF, 'corpus', 'C04', '*.json'))):
        out.append(json.load(open(path)))
    return out


def run(ctx):
    Pm = P()
    ctx.rule = ('operator (+ - * / // % **) x every ordered pair of operand forms (8 polymath classes, Python/NumPy '
                'numbers, ndarray, MaskedArray, nested list; at least one polymath object) x kinds x leading-shape '
                'pairs x admitted item shapes x denominators (), (2,), (3,) x units x masks; unary - abs and the Scalar '
                'math functions. thorough: every leading-shape pair of rank <= 2 with lengths 0-3 for every '
                '(operator, form pair), other dimensions drawn per cell, plus a 40000-case rank-3 sample; quick: one '
                'case per (operator, form pair) + seeded sample. non-trivial = accepted with a leading or item shape')
    ctx.assumptions = ['operand values are small integers (held as bool/int/float): + - * // % and products are exact; '
                       'true division, negative powers and libm functions are oracle kernels (NumPy scalar kernel table)',
                       'values are compared only at elements unmasked in the result and where the operation is defined',
                       'results computed through a reciprocal (number / X, powers) are compared within 2 ulp',
                       'matrix inverse, quaternion reciprocal and vector norm are left to C16; in-place operators to C07/C08']
    # the class table used by reference and model is the one the classes declare
    for name, t in CLS.items():
        k = getattr(Pm, name)
        got = dict(nrank=k.NRANK, numer=k.NUMER, f=k.FLOATS_OK, i=k.INTS_OK, b=k.BOOLS_OK, units=k.UNITS_OK,
                   derivs=k.DERIVS_OK)
        if got != t:
            ctx.fail({'op': 'class-table', 'why': 'class-constants', 'cls_a': name}, {'cls': name},
                     {'declared': got, 'expected': t})
    if ctx.ensure_library():
        ctx.prove(['theories/Props/C04.v'])
        ctx.loops_obligations()        # regenerated from the current source: see coq/obl/Lp_C04.v
    cases = load_corpus() + gen_cases(ctx.rng, ctx.tier)
    ctx.log('%d cases' % len(cases))
    stride = 1 if ctx.tier == 'quick' else 2
    terms, idx, bad = [], [], []
    for i, c in enumerate(cases):
        res = run_case(c, Pm)
        ctx.note_case(slim(c), nontrivial(c, res))
        ctx.count('op:' + c['op'])
        ctx.count('outcome:' + ('unspecified' if res['ref'] is None else
                                'reject' if res['ref'] == ('err',) else 'result'))
        if res['impl']['t'] == 'exc':
            ctx.count('exc:' + res['impl']['name'])
        if res.get('direct') is not None:
            ctx.count('mixed:' + ('both-accepted' if res['impl']['t'] == 'obj' and res['direct']['t'] == 'obj'
                                  else 'not-both'))
        if i % 50 == 0:
            for k in ('a', 'b'):
                if k in c and not operand_constructed_ok(c[k], Pm):
                    res['bad'].append('construction')
        if res['bad']:
            bad.append(i)
            ctx.fail(signature(c, res), c, {'disagreements': res['bad'], 'impl': printable(res['impl']),
                                            'reference': printable(res['ref']),
                                            'direct_form': printable(res['direct'])}, tie='model-vs-impl')
        if c['op'] in ('bshape', 'broadcast'):
            tm = coq_bshape(c, res)
            if tm is not None:
                terms.append(tm)
                idx.append(i)
            continue
        if i % stride == 0:
            t = None if coq_excluded(c, res['ref']) else coq_case(c)
            o = coq_obs(res['impl'], res['ref'])
            if t is not None and o is not None:
                terms.append('(%s, %s)' % (t, o))
                idx.append(i)
    ctx.traces = len(terms)
    ctx.log('%d direct-oracle failures; %d cases to Coq' % (len(bad), len(terms)))
    mism = ctx.coq_eval_shards('cases', HEADER, terms, lambda x: 'mismatches %s' % x, shard=250)
    if mism:
        badset = set(bad)
        unexplained = [j for j in mism if idx[j] not in badset]
        ctx.cov['correspondence_mismatches_explained'] = len(mism) - len(unexplained)
        if unexplained:
            j = unexplained[0]
            c = cases[idx[j]]
            res = run_case(c, Pm)
            shown = ctx.coq_show(HEADER, 'run04 %s' % coq_case(c))
            ctx.broken_tie('correspondence', 'model-vs-impl',
                           {'n_mismatch': len(unexplained), 'first_case': c,
                            'impl': printable(res['impl']), 'model': shown})
    ctx.cov['correspondence_mismatches'] = len(mism or [])
    ctx.exhaustive = ctx.tier == 'thorough'
    return ctx.finish()


def replay(path):
    Pm = P()
    d = json.load(open(path))
    if 'case' not in d:
        print(json.dumps(d, indent=1)[:3000])
        return 1
    c = d['case']
    res = run_case(c, Pm)
    print('case      :', c)
    print('impl      :', printable(res['impl']))
    print('reference :', printable(res['ref']))
    if res['direct'] is not None:
        print('direct    :', printable(res['direct']))
    print('disagree  :', res['bad'])
    print('property holds on this case' if not res['bad'] else 'property FAILS on this case')
    return 0 if not res['bad'] else 1
