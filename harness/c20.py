"""C20 - polynomial arithmetic, evaluation, differentiation and roots.

Stages
  R  tools/regen/tracer_c20.py (own process: it patches polymath for tracing) runs the CURRENT
     Polynomial.__add__ __sub__ __neg__ __mul__ __pow__ deriv eval on symbolic coefficients for
     every order pair 0..5 and writes coq/gen/Gen_kern_poly_*.v + coq/gen/obl/C20_*.v; every
     emitted term, evaluated at the seed point, must reproduce the unpatched implementation.
  P  coqc: Props/C20.v (hand-written unbounded theorems over the list model) and every
     generated obligation file (ring), in parallel.
  K  the hand-written list model (Z instance) evaluated by vm_compute on integer-coefficient
     cases vs the coefficients the implementation returned (exact in floats); the model of the
     root post-processing (PrimFloat instance) on the eigenvalues LAPACK really returned
     (recorded by wrapping numpy.linalg.eigvals in this process) vs what roots() returned.
  S  direct oracle: numpy.polyval / polyadd / polysub / polymul / polyder / roots per leading
     element, mask propagation, derivative rules + finite differences, eval leaves its argument
     bit-for-bit untouched, eval of sum/product/power = combination of evals, roots laws.
"""
import itertools
import json
import math
import os
import subprocess
import sys
import time
import warnings
from concurrent.futures import ThreadPoolExecutor
from fractions import Fraction

import numpy as np

from . import lib, hist

GEN = lib.GEN
OBL = os.path.join(GEN, 'obl')
GENFLAGS = ['-R', GEN, 'PMGen']
MREPS = ['F', 'T', 'aF', 'aT', 'mix', 'bview']
BPAIRS = [((), ()), ((), (3,)), ((3,), ()), ((3,), (3,)), ((2, 3), (3,)), ((3, 1), (1, 3)),
          ((2, 1), (2, 3)), ((1,), (3,)), ((2, 3), (2, 3)), ((2, 1, 2), (3, 1)), ((4,), (1,))]
SHAPES = [(), (1,), (3,), (2, 3), (3, 1), (2, 1, 2)]
VALS = [-2.0, -1.5, -1.0, -0.75, -0.5, -0.25, 0.25, 0.5, 0.75, 1.0, 1.25, 1.5, 2.0, 3.0,
        0.3, -0.7, 1.1, -1.3]
XVALS = [-2.0, -1.0, -0.5, 0.0, 0.5, 1.0, 1.5, 2.0, 3.0, 0.3, -1.3, -0.0]
RROOTS = [-2.0, -1.0, -0.5, 0.0, 0.5, 1.0, 2.0, 3.0]
CPAIRS = [(0.0, 1.0), (1.0, 1.0), (-1.0, 2.0), (0.5, 0.5)]
MAXORD = 5


def P():
    lib.setup_impl_path()
    import polymath
    return polymath


# ---------------------------------------------------------------------------
# operands
# ---------------------------------------------------------------------------
def make_mask(rng, shape, rep):
    if rep == 'F':
        return False
    if rep == 'T':
        return True
    if shape == ():
        return rep == 'aT' or (rep in ('mix', 'bview') and rng.random() < 0.5)
    n = int(np.prod(shape))
    if rep == 'aF':
        return [False] * n
    if rep == 'aT':
        return [True] * n
    if rep == 'bview':
        last = [rng.random() < 0.5 for _ in range(shape[-1])]
        return [last[i % shape[-1]] for i in range(n)]
    return [rng.random() < 0.35 for _ in range(n)]


PATTERNS = ['int', 'int', 'float', 'float', 'lead0', 'zero', 'roots', 'roots']


def coef_elem(rng, order, pat):
    """one coefficient list of length order+1 (decreasing powers)"""
    n = order + 1
    if pat == 'zero':
        return [0.0] * n
    if pat == 'int':
        c = [float(rng.randint(-3, 3)) for _ in range(n)]
        if c[0] == 0:
            c[0] = float(rng.choice([1, 2, -1, -2]))
        return c
    if pat == 'float':
        return [rng.choice(VALS) for _ in range(n)]
    if pat == 'lead0':
        k = rng.randint(1, order) if order >= 1 else 0
        rest = coef_elem(rng, order - k, rng.choice(['int', 'float', 'roots']))
        return [0.0] * k + rest
    if pat == 'roots':
        if order == 0:
            return [float(rng.choice([1, 2, -1]))]
        deg = order if rng.random() < 0.8 else rng.randint(1, order)
        roots = []
        while len(roots) < deg:
            left = deg - len(roots)
            kind = rng.random()
            if left >= 2 and kind < 0.3:
                a, b = rng.choice(CPAIRS)
                roots += [complex(a, b), complex(a, -b)]
            elif left >= 2 and kind < 0.55 and roots and rng.random() < 0.8:
                r = rng.choice([z for z in roots])       # repeat an existing root
                if r.imag != 0:
                    if left >= 2:
                        roots += [r, r.conjugate()]
                else:
                    roots.append(r)
            else:
                roots.append(complex(rng.choice(RROOTS), 0.0))
        c = np.real(np.poly(roots)) * rng.choice([1.0, 2.0, -1.0, 0.5])
        c = [float(v) + 0.0 for v in c]
        return [0.0] * (n - len(c)) + c
    raise KeyError(pat)


def gen_poly(rng, shape, order, rep=None, pats=None, deriv=False, deriv2=False):
    rep = rep or rng.choice(MREPS)
    n = int(np.prod(shape))
    pats = pats or PATTERNS
    coef = [coef_elem(rng, order, rng.choice(pats)) for _ in range(n)]
    d = {'shape': list(shape), 'order': order, 'coef': coef,
         'mask': make_mask(rng, shape, rep), 'mrep': rep}
    if deriv:
        d['dcoef'] = [[float(rng.randint(-2, 2)) for _ in range(order + 1)] for _ in range(n)]
        if deriv2:
            # a second derivative whose denominator has two axes (seeded change C20-I: deriv() lined the exponents up
            # with the first denominator axis)
            den = rng.choice([(2, 2), (2, 3), (3, 3)])
            d['dden'] = list(den)
            d['dcoef2'] = [[[float(rng.randint(-2, 2)) for _ in range(den[0] * den[1])] for _ in range(order + 1)] for _ in range(n)]
    return d


def gen_x(rng, shape, rep=None, deriv=None):
    rep = rep or rng.choice(MREPS)
    n = int(np.prod(shape))
    d = {'shape': list(shape), 'vals': [rng.choice(XVALS) for _ in range(n)],
         'mask': make_mask(rng, shape, rep), 'mrep': rep}
    if deriv:
        d['dvals'] = [rng.choice([1.0, -1.0, 0.5, 2.0, 0.0]) for _ in range(n)]
        d['dkey'] = deriv
        d['plusnum'] = rng.random() < 0.5
    return d


def the_mask(d):
    shape = tuple(d['shape'])
    m = d['mask']
    if isinstance(m, bool):
        return m
    mask = np.array(m, bool).reshape(shape)
    if d.get('mrep') == 'bview' and len(shape) >= 1:
        row = mask[(0,) * (len(shape) - 1)]
        if np.all(mask == row):
            mask = np.broadcast_to(row, shape)
    return mask


def build_poly(d, Pm):
    shape = tuple(d['shape'])
    arr = np.array(d['coef'], dtype=float).reshape(shape + (d['order'] + 1,))
    derivs = {}
    if d.get('dcoef') is not None:
        derivs['t'] = Pm.Polynomial(np.array(d['dcoef'], dtype=float).reshape(shape + (d['order'] + 1,)))
    if d.get('dcoef2') is not None and not d.get('as_scalar'):
        derivs['m'] = Pm.Polynomial(np.array(d['dcoef2'], dtype=float).reshape(shape + (d['order'] + 1,) + tuple(d['dden'])),
                                    drank=2)
    if d.get('as_scalar'):
        # an order-0 operand given as a Scalar (with its derivative): converted by as_polynomial (seeded change C20-G)
        sd = {}
        if d.get('dcoef') is not None:
            dv = np.array(d['dcoef'], dtype=float).reshape(shape + (1,))[..., 0]
            sd['t'] = Pm.Scalar(dv if shape else float(dv))
        v = arr[..., 0]
        return Pm.Scalar(v if shape else float(v), the_mask(d), derivs=sd)
    return Pm.Polynomial(arr, the_mask(d), derivs=derivs)


def build_x(d, Pm):
    shape = tuple(d['shape'])
    arr = np.array(d['vals'], dtype=float).reshape(shape)
    derivs = {}
    if d.get('dvals') is not None:
        derivs[d['dkey']] = Pm.Scalar(np.array(d['dvals'], dtype=float).reshape(shape))
    x = Pm.Scalar(arr, the_mask(d), derivs=derivs)
    if d.get('plusnum') and derivs and np.array_equal((arr - 2.0) + 2.0, arr):
        # the evaluation point is the result of the number fast path on a point whose derivative-free twin is cached
        # (seeded change C20-E: Polynomial.eval builds the powers of x with x.wod)
        x0 = x - 2.0
        hist.warm(x0)
        x = x0 + 2.0
    return x


def coef_of(d, key='coef'):
    return np.array(d[key], dtype=float).reshape(tuple(d['shape']) + (d['order'] + 1,))


def mask_of(d):
    shape = tuple(d['shape'])
    m = d['mask']
    return np.broadcast_to(np.array(m, bool).reshape(shape) if not isinstance(m, bool) else np.array(m), shape)


def lpad(c, n):
    c = np.atleast_1d(np.asarray(c, dtype=float))
    if len(c) > n:
        extra = c[:len(c) - n]
        assert not np.any(extra), (c, n)
        return c[len(c) - n:]
    return np.concatenate([np.zeros(n - len(c)), c])


# ---------------------------------------------------------------------------
# observation and comparison
# ---------------------------------------------------------------------------
def observe(q):
    return {'cls': type(q).__name__, 'shape': list(q.shape), 'numer': list(q.numer), 'denom': list(q.denom),
            'vals': np.asarray(q.values, dtype=float), 'mask': np.broadcast_to(np.asarray(q.mask), q.shape),
            'dkeys': sorted(q.derivs.keys())}


def compare(obs, vals, mask, scale=None, rtol=1e-11, want_cls=None, what='', deriv=False):
    """None when the observation agrees with the reference, else a short reason.
    scale: array like vals, the magnitude against which rounding is measured.
    deriv: the object is a derivative; `mask` is the parent's expected mask: the derivative is
    compared (and must be unmasked) exactly where the parent is unmasked."""
    if deriv and list(obs['shape']) == list(mask.shape):
        obs = dict(obs, mask=obs['mask'] | mask)
    if list(obs['shape']) != list(mask.shape):
        return '%sshape mismatch: %s, expected %s' % (what, obs['shape'], list(mask.shape))
    if want_cls and obs['cls'] != want_cls:
        return '%sclass mismatch: %s, expected %s' % (what, obs['cls'], want_cls)
    if obs['vals'].shape != vals.shape:
        return '%svalue array shape %s, expected %s' % (what, obs['vals'].shape, vals.shape)
    if not np.array_equal(obs['mask'], mask):
        return '%smask mismatch: %s, expected %s' % (what, obs['mask'].astype(int).tolist(), mask.astype(int).tolist())
    keep = np.broadcast_to(~mask.reshape(mask.shape + (1,) * (vals.ndim - mask.ndim)), vals.shape)
    a, b = obs['vals'][keep], vals[keep]
    if a.size and not np.all(np.isfinite(a)):
        return '%snon-finite unmasked value' % what
    sc = np.maximum(np.abs(a), np.abs(b)) if scale is None else np.maximum(np.asarray(scale, float)[keep], np.abs(b))
    bad = np.abs(a - b) > 1e-300 + rtol * sc
    if np.any(bad):
        i = int(np.argmax(bad))
        return '%svalue mismatch: got %r, expected %r (unmasked entry %d)' % (what, float(a[i]), float(b[i]), i)
    return None


def snapshot(q):
    """everything the caller can see of an object, bit for bit"""
    out = [type(q).__name__, tuple(q.shape), np.asarray(q._values_).tobytes(), str(np.asarray(q._values_).dtype),
           np.asarray(q._mask_).tobytes(), np.shape(q._mask_), bool(q.readonly), sorted(q.derivs.keys())]
    for k in sorted(q.derivs.keys()):
        out.append(snapshot(q.derivs[k]))
    return out


# ---------------------------------------------------------------------------
# references (NumPy, per leading element)
# ---------------------------------------------------------------------------
def bidx(idx, shape, s):
    """index into an operand of leading `shape` for result index idx of broadcast shape s"""
    off = len(s) - len(shape)
    return tuple(0 if shape[k] == 1 else idx[k + off] for k in range(len(shape)))


def ref_eval(Pc, sp, X, sx, dP=None, dX=None):
    """values, |scale|, derivative (or None) of p(x) on the broadcast shape"""
    s = np.broadcast_shapes(sp, sx)
    vals, scale = np.zeros(s), np.zeros(s)
    der = np.zeros(s) if (dP is not None or dX is not None) else None
    dscale = np.zeros(s)
    for idx in np.ndindex(s):
        c = Pc[bidx(idx, sp, s)]
        x = X[bidx(idx, sx, s)]
        vals[idx] = np.polyval(c, x)
        scale[idx] = np.polyval(np.abs(c), abs(x))
        if der is not None:
            d = 0.0
            ds = 0.0
            if dP is not None:
                dc = dP[bidx(idx, sp, s)]
                d += np.polyval(dc, x)
                ds += np.polyval(np.abs(dc), abs(x))
            if dX is not None:
                dx = dX[bidx(idx, sx, s)]
                d += np.polyval(np.polyder(c), x) * dx if len(c) > 1 else 0.0
                ds += (np.polyval(np.abs(np.polyder(c)), abs(x)) * abs(dx)) if len(c) > 1 else 0.0
            der[idx] = d
            dscale[idx] = ds
    return vals, scale, der, dscale


def ring_ref(op, c, d, n):
    """reference coefficient list of the result for one leading element"""
    if op == 'add':
        L = max(len(c), len(d))
        return lpad(np.polyadd(c, d), L)
    if op == 'sub':
        L = max(len(c), len(d))
        return lpad(np.polysub(c, d), L)
    if op == 'rsub':
        L = max(len(c), len(d))
        return lpad(np.polysub(d, c), L)
    if op == 'mul':
        return lpad(np.polymul(c, d), len(c) + len(d) - 1)
    if op == 'neg':
        return -np.asarray(c)
    if op == 'pow':
        r = np.array([1.0])
        for _ in range(n):
            r = np.polymul(r, c)
        return lpad(r, n * (len(c) - 1) + 1)
    if op == 'deriv':
        return lpad(np.polyder(c), max(len(c) - 1, 1))
    raise KeyError(op)


def ring_dref(op, c, d, dc, dd, n):
    """reference derivative coefficients (product / sum rules) for one element"""
    z = lambda a: np.zeros(len(a))
    dc = z(c) if dc is None else dc
    if op in ('add', 'sub', 'rsub', 'mul'):
        dd = z(d) if dd is None else dd
    if op in ('add', 'sub', 'rsub'):
        return ring_ref(op, dc, dd, n)
    if op == 'mul':
        L = len(c) + len(d) - 1
        return lpad(np.polymul(dc, d), L) + lpad(np.polymul(c, dd), L)
    if op == 'neg':
        return -dc
    if op == 'deriv':
        return ring_ref('deriv', dc, None, n)
    if op == 'pow':
        L = n * (len(c) - 1) + 1
        if n == 0:
            return np.zeros(1)
        return lpad(n * np.polymul(ring_ref('pow', c, None, n - 1), dc), L)
    raise KeyError(op)


def frac_poly(c):
    return [Fraction(float(v)) for v in c]


def ptrim(c):
    c = list(c)
    while c and c[0] == 0:
        c.pop(0)
    return c


def pdivmod(a, b):
    a, b = ptrim(a), ptrim(b)
    q = []
    while len(a) >= len(b) and a:
        f = a[0] / b[0]
        q.append(f)
        a = [x - f * y for x, y in zip(a, b + [0] * (len(a) - len(b)))][1:]
    return q, ptrim(a)


def pgcd(a, b):
    a, b = ptrim(a), ptrim(b)
    while b:
        _, r = pdivmod(a, b)
        a, b = b, r
    return a


def pder(c):
    n = len(c) - 1
    return [v * (n - i) for i, v in enumerate(c[:-1])]


def real_roots_truth(c):
    """(sorted distinct real roots, repeated_real_root?) of the polynomial with float
    coefficients c, exactly as far as classification goes: the square-free part is computed
    in exact rational arithmetic, so its roots are simple and numpy.roots separates them."""
    f = ptrim(frac_poly(c))
    if len(f) <= 1:
        return [], False, False, False
    g = pgcd(f, pder(f))
    sf, rem = pdivmod(f, g)
    assert not rem
    lead = sf[0]
    sfl = [float(v / lead) for v in sf]
    z = np.roots(sfl)
    real = sorted(float(w.real) for w in z if abs(w.imag) <= 1e-9 * max(1.0, abs(w)))
    # anything doubtful?  (a simple root of the square-free part with a tiny imaginary part)
    doubtful = any(1e-9 * max(1.0, abs(w)) < abs(w.imag) <= 1e-5 * max(1.0, abs(w)) for w in z)
    rep = False
    if len(g) > 1:
        gl = [float(v / g[0]) for v in g]
        for r in real:
            if abs(np.polyval(gl, r)) <= 1e-7 * max(1.0, np.polyval(np.abs(gl), abs(r))):
                rep = True
    return real, rep, doubtful, len(g) > 1


# ---------------------------------------------------------------------------
# case generation
# ---------------------------------------------------------------------------
RING_OPS = ['add', 'sub', 'mul']


def gen_cases(rng, tier, focus=()):
    cases = []
    scale = 3 if tier == 'quick' else 16

    def boost(fam):
        return 4 if fam in focus else 1

    # ring operations: every order pair, every binary operation
    for (o1, o2) in itertools.product(range(MAXORD + 1), repeat=2):
        for op in RING_OPS:
            for _ in range(2 * scale * boost(op)):
                sa, sb = rng.choice(BPAIRS)
                dk = rng.choice(['none', 'none', 'p', 'q', 'both'])
                cases.append({'fam': 'ring', 'op': op,
                              'p': gen_poly(rng, sa, o1, deriv=dk in ('p', 'both')),
                              'q': gen_poly(rng, sb, o2, deriv=dk in ('q', 'both')),
                              'xs': [rng.choice(XVALS) for _ in range(2)]})
    for o1 in range(MAXORD + 1):
        for _ in range(4 * scale * boost('neg')):
            cases.append({'fam': 'ring', 'op': 'neg', 'p': gen_poly(rng, rng.choice(SHAPES), o1, deriv=rng.random() < 0.4),
                          'xs': [rng.choice(XVALS) for _ in range(2)]})
        for _ in range(4 * scale * boost('deriv')):
            d2 = rng.random() < 0.4
            cases.append({'fam': 'ring', 'op': 'deriv', 'p': gen_poly(rng, rng.choice(SHAPES), o1, deriv=d2 or rng.random() < 0.4, deriv2=d2),
                          'xs': [rng.choice(XVALS) for _ in range(2)]})
        for n in range(5):
            for _ in range(2 * scale * boost('pow')):
                cases.append({'fam': 'ring', 'op': 'pow', 'n': n,
                              'p': gen_poly(rng, rng.choice(SHAPES), o1, deriv=rng.random() < 0.3),
                              'xs': [rng.choice(XVALS) for _ in range(2)]})
        # a Scalar that carries a derivative as the other operand (an order-0 polynomial in effect)
        for op in ('add', 'sub', 'mul'):
            for shp in ((), (3,), ()):
                for _ in range(1 * scale):
                    sa = rng.choice([s_ for s_ in SHAPES if s_ == () or not shp or tuple(s_)[-1:] == (3,)] or [()])
                    q = gen_poly(rng, shp, 0, deriv=True)
                    q['as_scalar'] = True
                    cases.append({'fam': 'ring', 'op': op, 'p': gen_poly(rng, sa, o1, deriv=rng.random() < 0.5), 'q': q,
                                  'xs': [rng.choice(XVALS) for _ in range(2)]})
        # a number / a Scalar as the other operand, reflected operators
        for op in ('add', 'sub', 'rsub', 'mul'):
            for _ in range(1 * scale):
                cases.append({'fam': 'ring', 'op': op, 'p': gen_poly(rng, rng.choice(SHAPES), o1),
                              'q': {'number': rng.choice(VALS)}, 'reflected': rng.random() < 0.5,
                              'xs': [rng.choice(XVALS) for _ in range(2)]})
    # evaluation
    for o1 in range(MAXORD + 1):
        for _ in range(14 * scale * boost('eval')):
            sa, sb = rng.choice(BPAIRS)
            dk = rng.choice(['none', 'none', 'p', 'x', 'both', 'xu'])
            cases.append({'fam': 'eval', 'p': gen_poly(rng, sa, o1, deriv=dk in ('p', 'both')),
                          'x': gen_x(rng, sb, deriv={'x': 't', 'both': 't', 'xu': 'u'}.get(dk)),
                          'recursive': rng.random() < 0.85,
                          'xkind': rng.choice(['scalar', 'scalar', 'scalar', 'number', 'array']) if dk in ('none', 'p') else 'scalar'})
    # roots
    for o1 in range(1, MAXORD + 1):
        for _ in range(14 * scale * boost('roots')):
            cases.append({'fam': 'roots', 'p': gen_poly(rng, rng.choice(SHAPES), o1, deriv=rng.random() < 0.25)})
        # small exhaustive core: single polynomials built from every multiset of 3 small roots
    core = [-1.0, 0.0, 1.0, 2.0]
    for o1 in (2, 3, 4) if tier == 'quick' else (2, 3, 4, 5):
        for rs in itertools.combinations_with_replacement(core, o1):
            c = [float(v) + 0.0 for v in np.poly(rs)]
            cases.append({'fam': 'roots', 'p': {'shape': [], 'order': o1, 'coef': [c], 'mask': False, 'mrep': 'F'}})
    # order alignment, equality, linear inversion, rejected calls
    for _ in range(40 * scale * boost('misc')):
        o1, o2 = rng.randint(0, MAXORD), rng.randint(0, MAXORD)
        op = rng.choice(['eq', 'ne', 'set_order', 'at_least_order', 'invert_line', 'roots0', 'pow_bad',
                         'iadd', 'isub', 'imul', 'truediv'])
        sa, sb = rng.choice(BPAIRS)
        c = {'fam': 'misc', 'op': op, 'k': rng.randint(0, MAXORD + 1)}
        if op in ('eq', 'ne'):
            p = gen_poly(rng, sa, o1, rep='F', pats=['int'])
            if rng.random() < 0.5 and o2 >= o1:
                q = dict(p, order=o2, coef=[[0.0] * (o2 - o1) + cc for cc in p['coef']])
            else:
                q = gen_poly(rng, sb, o2, rep='F', pats=['int', 'lead0'])
            c.update(p=p, q=q)
        elif op in ('iadd', 'isub'):
            lo, hi = min(o1, o2), max(o1, o2)
            # in-place operators: the operand must broadcast to the shape of self
            sa2, sb2 = rng.choice([(a, b) for a, b in BPAIRS if np.broadcast_shapes(a, b) == a])
            c.update(p=gen_poly(rng, sa2, hi), q=gen_poly(rng, sb2, lo))
        elif op in ('imul', 'truediv'):
            if op == 'imul':
                sa2, sb2 = rng.choice([(a, b) for a, b in BPAIRS if np.broadcast_shapes(a, b) == a])
            else:
                sa2, sb2 = rng.choice(BPAIRS)
            c.update(p=gen_poly(rng, sa2, o1), q=gen_poly(rng, sb2, 0, pats=['int', 'float', 'zero']))
        elif op == 'invert_line':
            c.update(p=gen_poly(rng, sa, rng.choice([1, 1, 1, 0, 2]), pats=['int', 'float', 'lead0', 'zero'],
                                deriv=rng.random() < 0.3))
        elif op == 'roots0':
            c.update(p=gen_poly(rng, sa, 0))
        elif op == 'pow_bad':
            c.update(p=gen_poly(rng, sa, o1), n=rng.choice([-1, -2, 0.5, 1.5]))
        else:
            c.update(p=gen_poly(rng, sa, o1, deriv=rng.random() < 0.4))
        cases.append(c)
    return cases


# ---------------------------------------------------------------------------
# running one case
# ---------------------------------------------------------------------------
EMPTY_PAIRS = [((0,), (1,)), ((1,), (0,)), ((2, 0), (1, 1)), ((0, 3), (1,)), ((0,), ()), ((), (0,)), ((0,), (0,)),
               ((1, 0), (3, 1)), ((2, 0), (0,))]


def empty_checks(Pm):
    """empty arrays of polynomials are legal operands: + - * and eval follow NumPy's broadcasting of the leading shapes
    and give an empty result of the right order (seeded change C20-O: the product of a (0,) and a (1,) array raised)
    -> list of (case, problem or None)"""
    out = []
    for sa, sb in EMPTY_PAIRS:
        for oa, ob in ((1, 2), (2, 0), (3, 3)):
            for op in ('add', 'sub', 'mul', 'eval'):
                case = {'kind': 'empty', 'op': op, 'shapes': [list(sa), list(sb)], 'orders': [oa, ob]}
                prob = None
                try:
                    p = Pm.Polynomial(np.ones(sa + (oa + 1,)))
                    want = np.broadcast_shapes(sa, sb)
                    if op == 'eval':
                        r = p.eval(Pm.Scalar(np.ones(sb)))
                        got, item = tuple(r.shape), None
                    else:
                        q = Pm.Polynomial(np.ones(sb + (ob + 1,)))
                        r = {'add': lambda: p + q, 'sub': lambda: p - q, 'mul': lambda: p * q}[op]()
                        got, item = tuple(r.shape), r.values.shape[-1] - 1
                        worder = oa + ob if op == 'mul' else max(oa, ob)
                        if item != worder:
                            prob = 'order %d, expected %d' % (item, worder)
                    if got != want:
                        prob = 'shape %s, expected %s' % (got, want)
                except Exception as e:      # noqa
                    prob = 'raised %s: %s' % (type(e).__name__, str(e)[:80])
                out.append((case, prob))
    return out


def run_case(c, Pm, rec=None):
    """(problem or None, detail dict, nontrivial?)"""
    with warnings.catch_warnings():
        warnings.simplefilter('error')
        try:
            return {'ring': run_ring, 'eval': run_eval, 'roots': run_roots, 'misc': run_misc}[c['fam']](c, Pm, rec)
        except Exception as e:       # noqa
            name, site = lib.exc_family(e)
            import traceback
            return ('exception %s at %s: %s' % (name, site, str(e)[:200]),
                    {'exc': name, 'site': site, 'tb': traceback.format_exc()[-800:]}, True)


def poly_operand_arrays(d):
    return coef_of(d), tuple(d['shape']), mask_of(d), (coef_of(d, 'dcoef') if d.get('dcoef') is not None else None)


def run_ring(c, Pm, rec=None):
    op = c['op']
    n = c.get('n', 0)
    p = build_poly(c['p'], Pm)
    Pc, sp, mp, dP = poly_operand_arrays(c['p'])
    snap_p = snapshot(p)
    q = Qc = dQ = None
    sq, mq = (), np.array(False)
    number = None
    if 'q' in c:
        if 'number' in c['q']:
            number = c['q']['number']
            Qc = np.array([number])
        else:
            q = build_poly(c['q'], Pm)
            Qc, sq, mq, dQ = poly_operand_arrays(c['q'])
            snap_q = snapshot(q)
    s = np.broadcast_shapes(sp, sq)
    if number is not None:
        refl = c.get('reflected')
        if op == 'add':
            r = (number + p) if refl else (p + number)
        elif op == 'sub':
            r = p - number
        elif op == 'rsub':
            r = number - p
        else:
            r = (number * p) if refl else (p * number)
    elif op == 'add':
        r = p + q
    elif op == 'sub':
        r = p - q
    elif op == 'mul':
        r = p * q
    elif op == 'neg':
        r = -p
    elif op == 'pow':
        r = p ** n
    elif op == 'deriv':
        r = p.deriv()
    else:
        raise KeyError(op)
    # reference, per leading element
    absop = {'sub': 'add', 'rsub': 'add'}.get(op, op)
    want_d = dP is not None or dQ is not None
    refs, scs, drefs, dscs = [], [], [], []
    for idx in np.ndindex(s):
        ce = Pc[bidx(idx, sp, s)]
        de = None if Qc is None else (Qc if Qc.ndim == 1 else Qc[bidx(idx, sq, s)])
        ade = None if de is None else np.abs(de)
        refs.append(ring_ref(op, ce, de, n))
        scs.append(np.abs(ring_ref(absop, np.abs(ce), ade, n)))
        if want_d:
            dce = None if dP is None else dP[bidx(idx, sp, s)]
            dde = None if dQ is None else dQ[bidx(idx, sq, s)]
            drefs.append(ring_dref(op, ce, de, dce, dde, n))
            dscs.append(np.abs(ring_dref(absop, np.abs(ce), ade, None if dce is None else np.abs(dce),
                                         None if dde is None else np.abs(dde), n)))
    L = len(refs[0]) if refs else 0
    ref = np.array(refs).reshape(s + (L,))
    sc = np.array(scs).reshape(s + (L,))
    dref = np.array(drefs).reshape(s + (L,)) if want_d else None
    dsc = np.array(dscs).reshape(s + (L,)) if want_d else None
    mask = np.broadcast_to(mp, s) | np.broadcast_to(mq, s)
    det = {'impl': str(r)[:400], 'ref_coef': ref.tolist(), 'ref_mask': mask.tolist()}
    obs = observe(r)
    prob = compare(obs, ref, mask, sc, want_cls='Polynomial')
    if prob is None and want_d and not (op == 'pow' and n == 0):
        if 't' not in r.derivs:
            prob = 'derivative d_dt missing from the result'
        else:
            dobs = observe(r.derivs['t'])
            prob = compare(dobs, dref, mask, dsc, what='d_dt: ', deriv=True)
    if prob is None and not want_d and [k for k in obs['dkeys'] if k != 'm']:
        prob = 'unexpected derivative keys %s' % obs['dkeys']
    if prob is None and op == 'deriv' and c['p'].get('dcoef2') is not None:
        # d/dm of p' is the derivative of dp/dm, denominator element by denominator element
        if 'm' not in r.derivs:
            prob = 'derivative d_dm missing from the result'
        else:
            den = tuple(c['p']['dden'])
            D = np.array(c['p']['dcoef2'], dtype=float).reshape(tuple(c['p']['shape']) + (c['p']['order'] + 1,) + den)
            o_ = c['p']['order']
            want = (D[..., :-1, :, :] * np.arange(o_, 0, -1)[:, None, None]) if o_ > 0 else np.zeros(D.shape)
            got = np.asarray(r.derivs['m'].values, dtype=float)
            keep = ~np.broadcast_to(np.asarray(mp), tuple(c['p']['shape']))
            if got.shape != want.shape:
                prob = 'd_dm of deriv(): array shape %s, expected %s' % (got.shape, want.shape)
            elif not np.allclose(got[keep], want[keep], rtol=1e-12, atol=0):
                prob = 'd_dm of deriv() differs from the derivative of dp/dm'
    if prob is None and q is not None and number is None and op in ('add', 'sub', 'mul') and hasattr(q, 'eval'):
        # the in-place form gives the same polynomial, and what it returns is a Polynomial all the way down
        # (seeded change C20-J: += / -= returned self, with derivatives inherited from the right operand left as Vectors)
        import operator
        try:
            r2 = p.copy()
            r2 = {'add': operator.iadd, 'sub': operator.isub, 'mul': operator.imul}[op](r2, q)
        except (ValueError, TypeError):
            r2 = None               # an in-place operand may not enlarge the target
        if r2 is not None:
            obs2 = observe(r2)
            if obs2['cls'] != 'Polynomial' or list(obs2['shape']) != list(obs['shape']):
                pass                # the in-place form keeps the target's shape / order: not comparable
            else:
                bad = [k for k, dq_ in r2.derivs.items() if type(dq_).__name__ != 'Polynomial']
                if bad:
                    prob = 'in-place %s: derivative(s) %s of the result are not Polynomials' % (op, bad)
                else:
                    try:
                        r2.deriv(), r2 * r2, r2.eval(Pm.Scalar(0.5))
                    except Exception as e:      # noqa
                        prob = 'in-place %s: the result cannot be used further: %s: %s' % (op, type(e).__name__, str(e)[:80])
    if prob is None and snapshot(p) != snap_p:
        prob = 'operand self was modified'
    if prob is None and q is not None and snapshot(q) != snap_q:
        prob = 'operand arg was modified'
    # metamorphic: evaluating the result = combining the evaluations (implementation only)
    if prob is None:
        for xv in c.get('xs', []):
            x = Pm.Scalar(xv)
            ev = observe(r.eval(x, recursive=False))
            a = p.eval(x, recursive=False)
            b = None if Qc is None else (Pm.Scalar(number) if number is not None else (q.wod if not hasattr(q, 'eval') else q.eval(x, recursive=False)))
            if op == 'add':
                comb = a + b
            elif op == 'sub':
                comb = a - b
            elif op == 'rsub':
                comb = b - a
            elif op == 'mul':
                comb = a * b
            elif op == 'neg':
                comb = -a
            elif op == 'pow':
                comb = a ** n
            else:
                break
            comb = Pm.Scalar.as_scalar(comb)
            cv = np.broadcast_to(np.asarray(comb.values, float), s)
            cm = np.broadcast_to(np.asarray(comb.mask), s)
            esc = np.array([np.polyval(sc[idx], abs(xv)) for idx in np.ndindex(s)]).reshape(s)
            if op == 'pow' and n == 0:
                # the combination p(x)^0 decides shape and mask
                pr = compare(ev, cv, cm, esc, what='eval(p**0): ')
            else:
                pr = compare(ev, cv, mask, esc, what='eval of result vs combined evals at x=%r: ' % xv)
            if pr:
                prob = pr
                break
    if rec is not None and prob is None and number is None:
        rec_ring(rec, c, obs)
    nontriv = bool(np.any(mask)) or sp != sq or (q is not None and c['p']['order'] != c['q']['order'])
    return prob, det, nontriv


def is_small_int(a):
    a = np.asarray(a, float)
    return bool(np.all(a == np.round(a)) and np.all(np.abs(a) < 2 ** 40))


def rec_ring(rec, c, obs):
    """exact cases for the Coq list model (Z instance): unmasked elements with integer coefficients"""
    op = c['op']
    Pc, sp, mp, _ = poly_operand_arrays(c['p'])
    if 'q' in c:
        Qc, sq, mq, _ = poly_operand_arrays(c['q'])
    else:
        Qc, sq, mq = None, (), np.array(False)
    s = np.broadcast_shapes(sp, sq)
    for idx in list(np.ndindex(s))[:4]:
        if obs['mask'][idx]:
            continue
        ce = Pc[bidx(idx, sp, s)]
        de = None if Qc is None else Qc[bidx(idx, sq, s)]
        out = obs['vals'][idx]
        if not (is_small_int(ce) and (de is None or is_small_int(de)) and is_small_int(out)):
            continue
        rec.append(('ring', op, [int(v) for v in ce], [] if de is None else [int(v) for v in de], int(c.get('n', 0)),
                    0, [int(v) for v in out]))


def run_eval(c, Pm, rec=None):
    p = build_poly(c['p'], Pm)
    Pc, sp, mp, dP = poly_operand_arrays(c['p'])
    xd = c['x']
    sx = tuple(xd['shape'])
    X = np.array(xd['vals'], float).reshape(sx)
    mx = mask_of(xd)
    kind = c.get('xkind', 'scalar')
    if kind == 'number':
        sx, X, mx = (), np.array(xd['vals'][0]), np.array(False)
        x = float(X)
    elif kind == 'array':
        mx = np.zeros(sx, bool)
        x = X.copy()
    else:
        x = build_x(xd, Pm)
    recursive = c.get('recursive', True)
    dX = np.array(xd['dvals'], float).reshape(sx) if xd.get('dvals') is not None and kind == 'scalar' else None
    dkey = xd.get('dkey')
    snap_x = snapshot(x) if kind == 'scalar' else (np.asarray(x).tobytes(),)
    snap_p = snapshot(p)
    r = p.eval(x, recursive=recursive)
    after_x = snapshot(x) if kind == 'scalar' else (np.asarray(x).tobytes(),)
    s = np.broadcast_shapes(sp, sx)
    mask = np.broadcast_to(mp, s) | np.broadcast_to(mx, s)
    vals, scale, _, _ = ref_eval(Pc, sp, X, sx)
    det = {'impl': str(r)[:400], 'ref_vals': vals.tolist(), 'ref_mask': mask.tolist()}
    r = Pm.Scalar.as_scalar(r)
    obs = observe(r)
    prob = compare(obs, vals, mask, scale, want_cls='Scalar')
    if prob is None and after_x != snap_x:
        prob = 'eval modified its argument x'
    if prob is None and snapshot(p) != snap_p:
        prob = 'eval modified the polynomial'
    if prob is None:
        want = {}
        if recursive:
            if dP is not None or (dX is not None and dkey == 't'):
                want['t'] = ref_eval(Pc, sp, X, sx, dP, dX if dkey == 't' else None)
            if dX is not None and dkey == 'u':
                want['u'] = ref_eval(Pc, sp, X, sx, None, dX)
        # an absent key is a zero derivative
        for k in list(want):
            if k not in obs['dkeys'] and not np.any(want[k][2][~mask]):
                del want[k]
        if sorted(want) != obs['dkeys']:
            prob = 'derivative keys %s, expected %s' % (obs['dkeys'], sorted(want))
        for k, (_, _, der, dscale) in sorted(want.items()):
            if prob is None:
                prob = compare(observe(r.derivs[k]), der, mask, dscale, what='d_d%s: ' % k, deriv=True)
                det['ref_d_d' + k] = der.tolist()
            if prob is None:
                # finite differences on the implementation itself (independent of the rule used above)
                h = 1e-6
                Pp = Pc + h * dP if (dP is not None and k == 't') else Pc
                Pn = Pc - h * dP if (dP is not None and k == 't') else Pc
                Xp = X + h * dX if (dX is not None and dkey == k) else X
                Xn = X - h * dX if (dX is not None and dkey == k) else X
                fp = Pm.Scalar.as_scalar(Pm.Polynomial(Pp).eval(Pm.Scalar(Xp), recursive=False))
                fn = Pm.Scalar.as_scalar(Pm.Polynomial(Pn).eval(Pm.Scalar(Xn), recursive=False))
                fd = (np.asarray(fp.values, float) - np.asarray(fn.values, float)) / (2 * h)
                prob = compare(observe(r.derivs[k]), np.broadcast_to(fd, s), mask, np.maximum(dscale, scale) + 1.0,
                               rtol=1e-6, what='d_d%s vs finite difference: ' % k, deriv=True)
    if rec is not None and prob is None:
        for idx in list(np.ndindex(s))[:4]:
            ce, xe = Pc[bidx(idx, sp, s)], X[bidx(idx, sx, s)]
            if not mask[idx] and is_small_int(ce) and is_small_int(xe) and is_small_int(obs['vals'][idx]):
                rec.append(('ring', 'eval', [int(v) for v in ce], [], 0, int(xe), [int(obs['vals'][idx])]))
    return prob, det, bool(np.any(mask)) or sp != sx


class EigRecorder(object):
    """records what numpy.linalg.eigvals returns while roots() runs (this process only)"""

    def __init__(self):
        self.calls = []

    def __enter__(self):
        self.orig = np.linalg.eigvals

        def wrapped(a):
            out = self.orig(a)
            self.calls.append((np.array(a, copy=True), np.array(out, copy=True)))
            return out
        np.linalg.eigvals = wrapped
        return self

    def __exit__(self, *exc):
        np.linalg.eigvals = self.orig
        return False


def run_roots(c, Pm, rec=None):
    p = build_poly(c['p'], Pm)
    Pc, sp, mp, dP = poly_operand_arrays(c['p'])
    order = c['p']['order']
    snap_p = snapshot(p)
    with EigRecorder() as er:
        r = p.roots()
    obs = observe(r)
    det = {'impl': str(r)[:500], 'truth': []}
    want_shape = (order,) + sp
    if tuple(obs['shape']) != want_shape:
        return 'roots shape %s, expected %s' % (obs['shape'], list(want_shape)), det, True
    if obs['cls'] != 'Scalar':
        return 'roots class %s' % obs['cls'], det, True
    if snapshot(p) != snap_p:
        return 'roots modified the polynomial', det, True
    prob = None
    flags = {'repeated_real_root': False, 'doubtful': False}
    any_rep = False
    for idx in np.ndindex(sp):
        ce = Pc[idx]
        vals = obs['vals'][(slice(None),) + idx]
        msk = obs['mask'][(slice(None),) + idx]
        if mp[idx]:
            if not np.all(msk):
                prob = 'roots of a masked polynomial are not all masked: element %s' % (idx,)
            continue
        truth, rep, doubtful, has_mult = real_roots_truth(ce)
        flags = {'repeated_real_root': rep, 'doubtful': doubtful}       # of the element looked at
        any_rep |= rep
        det['truth'].append([list(idx), truth, rep])
        k = int(np.sum(~msk))
        if np.any(msk[:k]):
            prob = 'masked entries are not at the end: element %s, mask %s' % (idx, msk.astype(int).tolist())
            break
        got = vals[:k]
        if k and not np.all(np.isfinite(got)):
            prob = 'non-finite unmasked root'
            break
        if np.any(np.diff(got) <= 0):
            prob = 'unmasked roots not strictly increasing: %s' % got.tolist()
            break
        for g in got:
            sc = np.polyval(np.abs(ce), abs(g))
            if abs(np.polyval(ce, g)) > 1e-8 * max(sc, 1e-300):
                prob = 'root does not evaluate to ~0: r = %r, p(r) = %r, scale %r' % (float(g), float(np.polyval(ce, g)), float(sc))
                break
        if prob:
            break
        if doubtful:
            continue
        tol = 1e-3 if has_mult else 1e-7
        if k < len(truth):
            missing = [t for t in truth if not any(abs(t - g) <= tol * max(1, abs(t)) for g in got)]
            prob = 'missing real root: got %s, the distinct real roots are %s (missing %s)' % (got.tolist(), truth, missing)
            break
        if k > len(truth):
            prob = 'extra root: got %s, the distinct real roots are %s' % (got.tolist(), truth)
            break
        for g, t in zip(got, truth):
            if abs(g - t) > tol * max(1.0, abs(t)):
                prob = 'root value: %r, expected %r' % (float(g), t)
                break
        if prob:
            break
        # derivatives of the roots w.r.t. the coefficients' key
        if dP is not None and k:
            if 't' not in r.derivs:
                prob = 'derivative d_dt missing from the roots'
                break
            dv = np.asarray(r.derivs['t'].values, float)[(slice(None),) + idx]
            dm = np.broadcast_to(np.asarray(r.derivs['t'].mask), want_shape)[(slice(None),) + idx]
            for j, g in enumerate(got):
                slope = np.polyval(np.polyder(ce), g)
                if abs(slope) <= 1e-6 * max(1.0, np.polyval(np.abs(np.polyder(ce)), abs(g))):
                    continue                     # multiple root: derivative undefined
                want = -np.polyval(dP[idx], g) / slope
                if dm[j] or abs(dv[j] - want) > 1e-6 * max(1.0, abs(want)):
                    prob = 'root derivative: d root/dt = %r (masked %s), expected %r' % (float(dv[j]), bool(dm[j]), float(want))
                    break
            if prob:
                break
    det.update(flags)
    det['any_repeated'] = any_rep
    if rec is not None and prob is None and order >= 3 and len(er.calls) == 1:
        rec_roots(rec, c, Pc, sp, mp, er.calls[0], obs)
    return prob, det, bool(np.any(obs['mask']))


def rec_roots(rec, c, Pc, sp, mp, call, obs):
    """cases for the Coq model of the post-processing: recorded eigenvalues -> returned roots"""
    _, eig = call
    order = c['p']['order']
    for idx in list(np.ndindex(sp))[:3]:
        ce = Pc[idx]
        z = eig[idx]
        if not np.all(np.isfinite(z.real)) or not np.all(np.isfinite(z.imag)):
            continue
        nz = np.nonzero(ce)[0]
        shifts = int(nz[0]) if len(nz) else 0      # all-zero: the code solves 1*x^n, no shift, masked
        mags = np.abs(z)
        vals = obs['vals'][(slice(None),) + idx]
        msk = obs['mask'][(slice(None),) + idx]
        rec.append(('roots', bool(mp[idx]) or not len(nz), shifts,
                    [(float(w.real), bool(w.imag != 0), float(m)) for w, m in zip(z, mags)],
                    [(float(v), bool(m)) for v, m in zip(vals, msk)]))


def expect_exc(fn, names):
    try:
        fn()
    except Exception as e:       # noqa
        name, site = lib.exc_family(e)
        if name in names:
            return None
        return 'raised %s at %s instead of %s: %s' % (name, site, '/'.join(names), str(e)[:150])
    return 'no exception, expected %s' % '/'.join(names)


def run_misc(c, Pm, rec=None):
    op = c['op']
    p = build_poly(c['p'], Pm)
    Pc, sp, mp, dP = poly_operand_arrays(c['p'])
    o1 = c['p']['order']
    det = {}
    snap_p = snapshot(p)
    if op in ('eq', 'ne'):
        q = build_poly(c['q'], Pm)
        Qc, sq, mq, _ = poly_operand_arrays(c['q'])
        s = np.broadcast_shapes(sp, sq)
        L = max(Pc.shape[-1], Qc.shape[-1])
        ref = np.zeros(s, bool)
        for idx in np.ndindex(s):
            ref[idx] = np.array_equal(lpad(Pc[bidx(idx, sp, s)], L), lpad(Qc[bidx(idx, sq, s)], L))
        r = (p == q) if op == 'eq' else (p != q)
        r = Pm.Boolean.as_boolean(r)
        got = np.broadcast_to(np.asarray(r.values, bool), r.shape)
        det = {'impl': str(r)[:300], 'ref': ref.tolist()}
        if tuple(r.shape) != s:
            return 'shape %s, expected %s' % (r.shape, s), det, True
        if np.any(np.broadcast_to(np.asarray(r.mask), s)):
            return 'result masked for unmasked operands', det, True
        want = ref if op == 'eq' else ~ref
        if not np.array_equal(got, want):
            return '%s gives %s, expected %s' % (op, got.tolist(), want.tolist()), det, True
        return None, det, o1 != c['q']['order']
    if op in ('set_order', 'at_least_order'):
        k = c['k']
        if op == 'set_order' and k < o1:
            return expect_exc(lambda: p.set_order(k), ('ValueError',)), det, True
        r = getattr(p, op)(k)
        L = max(k, o1) + 1
        ref = np.stack([lpad(Pc[idx], L) for idx in np.ndindex(sp)]).reshape(sp + (L,)) if np.prod(sp) else np.zeros(sp + (L,))
        det = {'impl': str(r)[:300]}
        prob = compare(observe(r), ref, mp, want_cls='Polynomial')
        if prob is None and dP is not None:
            if 't' not in r.derivs:
                prob = 'derivative lost'
            else:
                dref = np.stack([lpad(dP[idx], L) for idx in np.ndindex(sp)]).reshape(sp + (L,))
                prob = compare(observe(r.derivs['t']), dref, mp, what='d_dt: ', deriv=True)
        if prob is None and snapshot(p) != snap_p:
            prob = 'operand modified'
        return prob, det, k > o1
    if op == 'invert_line':
        if o1 != 1:
            return expect_exc(lambda: p.invert_line(), ('ValueError',)), det, True
        r = p.invert_line()
        a, b = Pc[..., 0], Pc[..., 1]
        undef = a == 0
        sa = np.where(undef, 1.0, a)
        ref = np.stack([1.0 / sa, -b / sa], axis=-1)
        det = {'impl': str(r)[:300]}
        prob = compare(observe(r), ref, mp | undef, want_cls='Polynomial', rtol=1e-13)
        if prob is None and dP is not None:
            da, db = dP[..., 0], dP[..., 1]
            dref = np.stack([-da / sa ** 2, -db / sa + b * da / sa ** 2], axis=-1)
            if 't' not in r.derivs:
                prob = 'derivative lost'
            else:
                prob = compare(observe(r.derivs['t']), dref, mp | undef, np.abs(dref) + 1.0, rtol=1e-12, what='d_dt: ', deriv=True)
        return prob, det, True
    if op == 'roots0':
        return expect_exc(lambda: p.roots(), ('ValueError',)), det, True
    if op == 'pow_bad':
        return expect_exc(lambda: p ** c['n'], ('ValueError',)), det, True
    q = build_poly(c['q'], Pm)
    Qc, sq, mq, _ = poly_operand_arrays(c['q'])
    s = np.broadcast_shapes(sp, sq)
    mask = np.broadcast_to(mp, s) | np.broadcast_to(mq, s)
    if op in ('iadd', 'isub'):
        ref = np.zeros(s + (o1 + 1,))
        for idx in np.ndindex(s):
            ref[idx] = ring_ref(op[1:], Pc[bidx(idx, sp, s)], Qc[bidx(idx, sq, s)], 0)
        r = p
        if op == 'iadd':
            r += q
        else:
            r -= q
        det = {'impl': str(r)[:300]}
        return compare(observe(r), ref, mask, want_cls='Polynomial', rtol=1e-13), det, True
    if op in ('imul', 'truediv'):
        ref = np.zeros(s + (o1 + 1,))
        undef = np.zeros(s, bool)
        for idx in np.ndindex(s):
            f = Qc[bidx(idx, sq, s)][0]
            if op == 'imul':
                ref[idx] = Pc[bidx(idx, sp, s)] * f
            elif f == 0:
                undef[idx] = True
            else:
                ref[idx] = Pc[bidx(idx, sp, s)] / f
        if op == 'imul':
            r = p
            r *= q
        else:
            r = p / q
        det = {'impl': str(r)[:300]}
        return compare(observe(r), ref, mask | undef, want_cls='Polynomial', rtol=1e-13), det, True
    raise KeyError(op)


def signature(c, prob, det):
    sig = {'fam': c['fam'], 'op': c.get('op', c['fam']), 'problem': (prob or '').split(':')[0][:60],
           'order': c['p']['order']}
    if 'exc' in det:
        sig['exc'] = det['exc']
        sig['site'] = det['site']
        sig['problem'] = 'exception'
    if c['fam'] == 'roots':
        sig['repeated_real_root'] = bool(det.get('repeated_real_root'))
        sig['has_derivs'] = c['p'].get('dcoef') is not None
    if c['fam'] == 'ring' and c.get('op') == 'pow':
        sig['n'] = c.get('n')
        sig['has_shape_or_mask'] = bool(c['p']['shape']) or bool(np.any(mask_of(c['p'])))
    if c['fam'] == 'misc' and 'p' in c:
        sig['has_derivs'] = c['p'].get('dcoef') is not None
    return sig


def slim(c):
    out = {}
    for k, v in c.items():
        if isinstance(v, dict) and 'coef' in v and len(str(v['coef'])) > 300:
            out[k] = {'shape': v['shape'], 'order': v['order'], 'mrep': v['mrep']}
        else:
            out[k] = v
    return out


# ---------------------------------------------------------------------------
def numeric(ctx, Pm, cases, broken=()):
    rec = []
    fails = {}
    shown = {}
    t0 = time.time()
    for c in cases:
        prob, det, nontriv = run_case(c, Pm, rec)
        fam = c['fam'] + ':' + c.get('op', '')
        ctx.note_case(slim(c), nontriv)
        ctx.count('family:' + fam)
        ctx.count('order:%d' % c['p']['order'])
        for k in ('p', 'q', 'x'):
            if isinstance(c.get(k), dict) and 'mrep' in c[k]:
                ctx.count('mrep:' + c[k]['mrep'])
        if prob:
            sig = signature(c, prob, det)
            fails[fam] = fails.get(fam, 0) + 1
            key = (fam, sig['problem'])
            shown[key] = shown.get(key, 0) + 1
            if lib.finding_for(ctx.prop, sig, ctx.findings) is None and shown[key] > 3:
                ctx.count('further_failures_not_listed')
                continue
            res = ctx.fail(sig, c, dict(det, problem=prob))
            if res == 'violation':
                ctx.log('FAIL %s order %d: %s' % (fam, c['p']['order'], prob[:300]))
    ctx.log('numeric: %d cases in %.1fs, failing families: %s' % (len(cases), time.time() - t0, fails))
    ctx.cov['numeric_failures_by_family'] = fails
    return rec, fails


# ---------------------------------------------------------------------------
# stage R + P: regeneration by tracing, generated obligations
# ---------------------------------------------------------------------------
def close(v, w, rtol=1e-9, atol=1e-12):
    if isinstance(v, float) and isinstance(w, float) and math.isnan(v) and math.isnan(w):
        return True
    return abs(v - w) <= atol + rtol * max(abs(v), abs(w))


def regenerate(ctx, Pm):
    """run the tracer in its own process; returns the manifest (or None)"""
    for d in (GEN, OBL):
        os.makedirs(d, exist_ok=True)
    sys.path.insert(0, lib.VERIF)
    from tools.regen import tracer_c20 as TC
    mine = {'Gen_kern_%s' % name for name, _, _ in TC.KERNELS}
    for f in os.listdir(GEN):
        if f.lstrip('.').split('.')[0] in mine:
            try:
                os.remove(os.path.join(GEN, f))
            except OSError:
                pass
    for f in os.listdir(OBL):
        if f.lstrip('.').startswith('C20_'):
            try:
                os.remove(os.path.join(OBL, f))
            except OSError:
                pass
    mpath = os.path.join(ctx.dir, 'trace_manifest.json')
    if os.path.exists(mpath):
        os.remove(mpath)
    env = dict(os.environ)
    env['VERIF_REPO'] = lib.REPO
    env['VERIF_GEN'] = lib.GEN
    env['VERIF_BUILD'] = lib.BUILD
    env['PYTHONPATH'] = lib.VERIF
    t0 = time.time()
    p = subprocess.run([sys.executable, '-m', 'tools.regen.tracer_c20'], cwd=lib.VERIF, env=env,
                       stdout=subprocess.PIPE, stderr=subprocess.STDOUT, text=True, timeout=600)
    if p.returncode != 0 or not os.path.exists(mpath):
        ctx.obligations.append(('regenerate-kernels', False, p.stdout[-1500:]))
        ctx.broken_tie('regeneration', 'tracer', p.stdout[-2000:])
        return None
    man = json.load(open(mpath))
    ctx.log('R: %s in %.1fs' % (p.stdout.strip().splitlines()[-1], time.time() - t0))
    if len(man['kernels']) != len(TC.KERNELS):
        ctx.broken_tie('regeneration', 'tracer', 'traced %d of %d kernels' % (len(man['kernels']), len(TC.KERNELS)))
    fns = {name: fn for name, fn, _ in TC.KERNELS}
    n_ok = 0
    for k in man['kernels']:
        name = k['name']
        if 'error' in k:
            ctx.obligations.append(('trace:' + name, False, k['error']))
            ctx.broken_tie('regeneration', 'trace:' + name, k['error'] + '\n' + k.get('traceback', ''))
            continue
        problems = []
        if k['sanity_bad']:
            problems.append('expression tree does not reproduce the traced concrete values: %s' % k['sanity_bad'][:3])
        if k['path']:
            problems.append('unexpected path condition %s' % k['path'][:3])
        try:
            with warnings.catch_warnings():
                warnings.simplefilter('ignore')
                io = TC.run_float(name, fns[name], Pm)
            if len(io.outputs) != len(k['outputs']):
                problems.append('output count differs: %d vs %d' % (len(io.outputs), len(k['outputs'])))
            else:
                for (g, idx, _, v), (g2, idx2, w, _v2) in zip(io.outputs, k['outputs']):
                    if g != g2 or list(idx) != list(idx2) or not close(v, w):
                        problems.append('%s%s: implementation %r, emitted term %r' % (g, idx, v, w))
                        break
            if io.masks != k['masks']:
                problems.append('masks differ: %r vs %r' % (io.masks, k['masks']))
        except Exception as e:      # noqa
            problems.append('float run failed: %s: %s' % (type(e).__name__, e))
        ok = not problems
        n_ok += ok
        ctx.obligations.append(('sanity:' + name, ok, '; '.join(problems)[:500]))
        if not ok:
            ctx.broken_tie('regeneration', 'sanity:' + name, '; '.join(problems))
    ctx.traces = n_ok
    ctx.cov['kernels_traced'] = len(man['kernels'])
    return man


def failing_lemma(path, msg, lemmas):
    import re
    m = re.search(r'line (\d+)', msg)
    if not m:
        return lemmas[0] if lemmas else None
    line = int(m.group(1))
    cur = None
    for i, text in enumerate(open(path).read().splitlines(), 1):
        mm = re.match(r'Lemma (\w+)', text)
        if mm:
            cur = mm.group(1)
        if i >= line:
            break
    return cur


def compile_generated(ctx, man, timeout):
    """coqc the emitted kernels, then the obligation files, in parallel; returns the broken kernels"""
    kernels = [k for k in man['kernels'] if 'error' not in k]
    broken = []

    def gen_job(k):
        return k, lib.run_coqc(os.path.join(GEN, 'Gen_kern_%s.v' % k['name']), timeout=120, extra=GENFLAGS)

    def obl_job(k):
        return k, lib.run_coqc(os.path.join(OBL, 'C20_%s.v' % k['name']), timeout=timeout, extra=GENFLAGS)

    t0 = time.time()
    with ThreadPoolExecutor(max_workers=lib.NPROC) as ex:
        gen_res = list(ex.map(gen_job, kernels))
    bad_gen = set()
    for k, (rc, out, err, dt) in gen_res:
        if rc != 0:
            bad_gen.add(k['name'])
            ctx.obligations.append(('emit:' + k['name'], False, (err or out)[-800:]))
            ctx.broken_tie('regeneration', 'emit:' + k['name'], (err or out)[-1500:])
            broken.append(k['name'])
    order = sorted([k for k in kernels if k['name'] not in bad_gen], key=lambda k: -k.get('dag_nodes', 0))
    with ThreadPoolExecutor(max_workers=lib.NPROC) as ex:
        res = list(ex.map(obl_job, order))
    axioms = set()
    slow = []
    for k, (rc, out, err, dt) in res:
        lemmas = k['lemmas']
        slow.append((round(dt, 1), k['name']))
        if rc == 0:
            for l in lemmas:
                ctx.obligations.append((l, True, 'coq/gen/obl/C20_%s.v' % k['name']))
            for line in out.splitlines():
                m = line.strip().split(' ')[0]
                if '.' in m and line[:1] not in (' ', '\t') and m[0].isalpha() and not m.endswith(':'):
                    axioms.add(m)
        else:
            msg = (err or out)[-1500:]
            failing = failing_lemma(os.path.join(OBL, 'C20_%s.v' % k['name']), msg, lemmas)
            seen = False
            for l in lemmas:
                if l == failing:
                    seen = True
                ctx.obligations.append((l, not seen and failing is not None, msg if seen else ''))
            ctx.broken_tie('proof', 'C20_' + k['name'],
                           {'kernel': k['name'], 'lemma': failing, 'coq': msg,
                            'file': 'coq/gen/obl/C20_%s.v' % k['name'],
                            'definitions': 'coq/gen/Gen_kern_%s.v' % k['name']})
            ctx.log('OBLIGATION BROKEN %s (%s)\n%s' % (k['name'], failing, msg[-500:]))
            broken.append(k['name'])
    ctx.axioms['generated obligations (union)'] = ' '.join(sorted(axioms))
    ctx.cov['slowest_obligation_files'] = sorted(slow, reverse=True)[:5]
    ctx.log('P: %d kernel files + %d obligation files in %.1fs, %d broken'
            % (len(kernels), len(order), time.time() - t0, len(broken)))
    return broken


# ---------------------------------------------------------------------------
# stage K: the hand-written model inside Coq on recorded cases
# ---------------------------------------------------------------------------
HEADER = """From Coq Require Import List ZArith Bool.
From Coq Require Import Floats.PrimFloat.
From PM Require Import C20Model.
Import ListNotations.
Open Scope Z_scope.
"""
OPNAME = {'add': 'OpAdd', 'sub': 'OpSub', 'mul': 'OpMul', 'neg': 'OpNeg', 'pow': 'OpPow', 'deriv': 'OpDeriv',
          'eval': 'OpEval'}


def coq_term(r):
    if r[0] == 'ring':
        _, op, p, q, n, x, out = r
        zl = lambda l: lib.clist([lib.cZ(v) for v in l], 'Z')
        return '(CRing %s %s %s %s %s, ORing %s)' % (OPNAME[op], zl(p), zl(q), lib.cnat(n), lib.cZ(x), zl(out))
    _, pmask, shifts, eig, out = r
    el = lib.clist(['(mkeig %s %s %s)' % (lib.cfloat(re), lib.cbool(cx), lib.cfloat(mag)) for re, cx, mag in eig],
                   'eig float')
    ol = lib.clist(['(@None float)' if m else '(Some %s)' % lib.cfloat(v) for v, m in out], 'option float')
    return '(CRoots %s %s %s, ORoots %s)' % (lib.cbool(pmask), lib.cnat(shifts), el, ol)


def correspond(ctx, rec, fails):
    recs = []
    seen = set()
    for r in rec:
        if r[0] == 'ring' and r[1] not in OPNAME:
            continue
        key = lib.canon(r)
        if key not in seen:
            seen.add(key)
            recs.append(r)
    terms = [coq_term(r) for r in recs]
    ctx.cov['correspondence_cases'] = {'ring(Z)': sum(1 for r in recs if r[0] == 'ring'),
                                       'roots_post(float)': sum(1 for r in recs if r[0] == 'roots')}
    if not terms:
        ctx.broken_tie('correspondence', 'cases', 'no correspondence cases were recorded')
        return
    mism = ctx.coq_eval_shards('cases', HEADER, terms, lambda x: 'mismatches %s' % x)
    if mism is None:
        return
    ctx.log('K: %d cases evaluated in Coq (%s), %d mismatches' % (len(terms), ctx.cov['correspondence_cases'], len(mism)))
    ctx.obligations.append(('correspondence:model-vs-impl', not mism, '%d mismatches' % len(mism)))
    for i in mism[:5]:
        r = recs[i]
        shown = ctx.coq_show(HEADER, 'run20 (fst %s)' % coq_term(r))
        # the numeric oracle passed on the case this record came from (records are only taken then),
        # so the model and the implementation disagree where NumPy and the implementation agree
        ctx.broken_tie('correspondence', 'case-%d' % i, {'record': r, 'model': shown[-600:]})


def run(ctx):
    Pm = P()
    ctx.rule = ('orders 0-5 (every order pair for + - *), exponents 0-4, 11 broadcast-compatible pairs of leading '
                'shapes, 6 mask representations, per-element coefficient patterns {small integers, pool of 18 floats, '
                'leading zeros, all zero, built from real / repeated / complex-pair roots}, evaluation points from a '
                'pool of 12 incl. +-0, derivatives on coefficients and/or on x (same or another key); roots: orders 1-5 '
                '+ every multiset of 2-4 (thorough 2-5) roots from {-1,0,1,2}; quick = seeded sample (about 1900 cases), thorough = 5x; '
                'non-trivial = a masked element, a genuine broadcast or operands of different order')
    ctx.assumptions = [
        'identities are proved over R (and Z); the float implementation is compared with NumPy within 1e-11 of the '
        'magnitude sum |c_i||x|^i (condition-aware), roots within 1e-7 (1e-3 at multiple roots)',
        'numpy.linalg.eigvals is a stub for the theorems: the post-processing model takes the eigenvalue list as input; '
        'in the correspondence the list is what LAPACK really returned (recorded by wrapping numpy.linalg.eigvals in '
        'the harness process)',
        'tracing follows the single path of these branch-free kernels at leading shape (); the same element formula at '
        'every broadcast index is checked numerically',
        'a derivative key absent from a result counts as a zero derivative']
    ctx.trusted = lib.DEFAULT_TRUSTED + [
        'tools/regen/tracer.py, emit_coq.py (as for C16) + the np.array wrapper added by tracer_c20.py in the tracer '
        'process; validated each run by re-evaluating every emitted term at the seed point against the unpatched '
        'implementation',
        'Coquelicot (is_derive) for C20_deriv']
    man = regenerate(ctx, Pm)                                  # stage R
    broken = []
    lib_ok = ctx.ensure_library()
    if lib_ok:                                                 # stage P
        with ThreadPoolExecutor(max_workers=2) as ex:
            fut = ex.submit(ctx.prove, ['theories/Props/C20.v'])
            if man is not None:
                broken = compile_generated(ctx, man, timeout=240 if ctx.tier == 'quick' else 600)
            fut.result()
    focus = sorted({b.split('_')[1] for b in broken})
    if focus:
        ctx.log('searching for a concrete failing input in: %s' % focus)
    for ecase, eprob in empty_checks(Pm):
        ctx.note_case(ecase, True)
        ctx.count('family:empty')
        if eprob:
            ctx.fail({'kind': 'empty', 'op': ecase['op'], 'problem': eprob.split(':')[0][:40]}, ecase, {'problem': eprob})
    cases = gen_cases(ctx.rng, ctx.tier, focus)                # stage S (+ records for K)
    rec, fails = numeric(ctx, Pm, cases)
    if lib_ok:
        correspond(ctx, rec, fails)                            # stage K
    ctx.exhaustive = False
    return ctx.finish()


def replay(path):
    Pm = P()
    d = json.load(open(path))
    if 'case' not in d:
        print(json.dumps(d, indent=1)[:4000])
        return 1
    if d['case'].get('kind') == 'empty':
        bad = [pr for cs, pr in empty_checks(Pm) if cs == d['case'] and pr]
        print(d['case'], '->', bad or 'ok')
        print('property FAILS on this case' if bad else 'property holds on this case')
        return 1 if bad else 0
    prob, det, _ = run_case(d['case'], Pm)
    print('case      :', json.dumps(d['case'])[:2000])
    for k, v in det.items():
        print('%-10s: %s' % (k, str(v)[:1500]))
    print('property holds on this case' if not prob else 'property FAILS on this case: ' + prob)
    return 0 if not prob else 1
