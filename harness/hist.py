"""Objects reached through a history (shared by the single-operation checks).

Most checks build a fresh operand from a case description and call one operation.  A fresh object
has an empty cache, so a mutator that forgets to invalidate a cached view (antimask, corners,
slicer, wod, un-shrunk original) can never be seen by them: the defect needs *query, mutate, query
again*.  ``reach(Pm, x, mode)`` returns an object with the same observable content as ``x`` (class,
shape, mask state, units, the values and derivative values at unmasked elements) that got there
through such a history:

    y  = a writable copy of x in which the masked elements are NOT masked (or, for 'setitem', one
         element differs in value and mask state)
    warm(y)                                   every cached view is asked for
    y <in-place operation> b                  the operation restores x's content: the mask of b
                                              covers exactly the elements masked in x and b's
                                              numbers are neutral (-0.0 for +=, 0 for -=, 1 for *=
                                              and /=, True for &=, False for |= and ^=)

The expected result of a case is always computed from the description (or from x), never from y,
so handing y to the operation instead of x turns every single-operation oracle into an oracle for
"the answer does not depend on how the object got its content".  Hidden numbers under the mask may
differ between x and y (C03 says they do not exist).

modes: 'sibling' (x itself, after objects that share its arrays - x * 1, x + 0, x.clone() - were mutated in place
with operands carrying another mask), 'setitem', 'iadd', 'isub', 'imul', 'itruediv', 'iand', 'ior', 'ixor', and 'derived' (not in-place:
x0 = x - 2.0 gets a derivative 'h', every cached view of x0 is asked for, y = x0 + 2.0 takes the
number fast path that clones x0 with its cache; y then carries the extra derivative 'h'), 'inplace_num' (the
same with x0 += 2.0) and 'divzero' (a fully masked float object reached as twin / 0 after the twin's cached views were
asked for);
``modes_for(x)`` lists the ones that apply to x.  ``reach`` returns x itself when the mode cannot be applied."""
import numpy as np


def warm(y):
    """ask for every cached view"""
    out = []
    for name in ('antimask', 'corners', '_slicer', 'wod'):
        try:
            out.append(getattr(y, name))
        except Exception:      # noqa   (e.g. corners of a shapeless object)
            pass
    try:
        out.append(y.count_masked())
    except Exception:          # noqa
        pass
    return out


def modes_for(x):
    if x.is_bool():
        return ['sibling', 'setitem', 'iand', 'ior', 'ixor'] if not x.item else ['sibling', 'setitem']
    m = ['sibling', 'setitem', 'iadd', 'isub']
    if x.is_float() and x.DERIVS_OK and not x.derivs and type(x).__name__ not in ('Matrix3', 'Quaternion'):
        m.append('derived')
        if not x.item:
            m.append('inplace_num')
    if x.is_float() and not x.derivs and np.all(x._mask_) and type(x).__name__ not in ('Matrix3', 'Quaternion'):
        m.append('divzero')
    if x.derivs or type(x).__name__ == 'Matrix3':
        return m        # *= and /= OR the operand's mask into the derivatives' own masks; Matrix3 *= Scalar is unsupported
    if x.is_float():
        m += ['imul', 'itruediv']
    elif x.is_int():
        m += ['imul']
    return m


def _expanded_mask(x):
    return np.broadcast_to(np.asarray(x._mask_), x.shape).copy()


def _unmasked_twin(Pm, x):
    """a writable, independent copy of x whose mask is False everywhere (derivatives keep theirs)"""
    y = x.copy()
    if np.any(y._mask_):
        y = y.remask(False, recursive=False) if y.derivs else y.remask(False)
        if x.derivs and not y.derivs:
            for k, d in x.derivs.items():
                y.insert_deriv(k, d.copy())
        y = y.copy()
    return y


def reach(Pm, x, mode, k=0):
    if mode in ('iadd', 'isub', 'imul', 'itruediv', 'setitem') and k % 2 == 0 and 'divzero' in modes_for(x):
        mode = 'divzero'        # a fully masked float object: also reach it as (unmasked twin, queried) / 0
    try:
        y = _reach(Pm, x, mode, k)
    except Exception:      # noqa  (the history cannot be built for this object: use the fresh one)
        return x
    if y is x:
        return x
    return y if same_content(Pm, x, y, derivs=(mode not in ('derived', 'inplace_num'))) else x


class _NotApplicable(Exception):
    pass


def _reach(Pm, x, mode, k):
    if mode not in modes_for(x):
        raise _NotApplicable()
    shape = tuple(x.shape)
    size = int(np.prod(shape)) if shape else 1
    xm = _expanded_mask(x)
    if mode == 'sibling':
        # objects that share arrays with x (number fast path, clone, whole-object index) are mutated in place with an
        # operand that carries another mask: x itself must stay what it was (seeded change C13-E: |= on a shared mask)
        warm(x)
        om = np.logical_not(xm) if shape else (not bool(xm))          # masked exactly where x is NOT
        sibs = [x.clone()]
        if not x.is_bool():
            sibs.append(x * 1 if x.is_int() else x * 1.)
            sibs.append(x + (0 if x.is_int() else 0.))
        for sb in sibs:
            if sb is x or sb.readonly:
                continue
            if x.is_bool():
                sb.__ior__(Pm.Boolean(np.zeros(shape, bool) if shape else False, om))
            else:
                one = 1 if x.is_int() else 1.
                sb.__imul__(Pm.Scalar(np.full(shape, one) if shape else one, om))
            if shape and size:
                idx = tuple(int(i) for i in np.unravel_index(k % size, shape))
                sb2 = x.clone()
                if not sb2.readonly:
                    sb2[idx] = sb2[idx].remask(not bool(xm[idx]))
        return x
    if mode == 'divzero':
        # every element masked: the quotient of a fully visible twin (whose cached views were all asked for) by the
        # Python number 0; the number path clones the twin WITH its cache (seeded change C14-G: stale antimask)
        w = _unmasked_twin(Pm, x)
        warm(w)
        _ = w < w, w.as_mask_where_nonzero()
        y = w / 0
        return y
    if mode == 'derived':
        x0 = x - 2.0
        x0.insert_deriv('h', x0.wod.copy())
        warm(x0)
        return x0 + 2.0
    if mode == 'inplace_num':
        # the in-place number fast path (x += 2.) on an object whose derivative-free twin is cached (seeded C04-E)
        x0 = x - 2.0
        x0 = x0.copy()
        x0.insert_deriv('h', x0.wod.copy())
        warm(x0)
        x0 += 2.0
        return x0
    if mode == 'setitem':
        if not shape or size == 0:
            raise _NotApplicable()
        idx = tuple(int(i) for i in np.unravel_index(k % size, shape))
        y = x.copy()
        keep = x[idx].copy()                       # what must be there in the end (value, mask state, derivatives)
        if xm[idx]:
            other = keep.remask(False)              # make it visible ...
        else:
            other = keep.remask(True)               # ... or hide it
        y[idx] = other
        warm(y)
        y[idx] = keep
        return y
    # in-place operation with an operand that is masked exactly where x is masked
    y = _unmasked_twin(Pm, x)
    if x.is_bool():
        neutral = {'iand': True, 'ior': False, 'ixor': False}[mode]
        bvals = np.full(shape, neutral, dtype=np.bool_)
        b = Pm.Boolean(bvals if shape else bool(neutral), xm if shape else bool(xm))
    else:
        if mode in ('imul', 'itruediv'):
            one = 1 if (x.is_int() and mode == 'imul') else 1.
            bvals = np.full(shape, one)
            b = Pm.Scalar(bvals if shape else one, xm if shape else bool(xm))
        else:
            zero = (0 if x.is_int() else (-0.0 if mode == 'iadd' else 0.0))
            full = shape + tuple(x.item)
            bvals = np.full(full, zero)
            if not full:
                bvals = zero
            kw = {}
            if len(x.denom):
                kw['drank'] = len(x.denom)
            if type(x).__name__ == 'Qube':
                kw['nrank'] = len(x.numer)
            b = type(x)(bvals, xm if shape else bool(xm), **kw)
    warm(y)
    getattr(y, '__%s__' % mode)(b)
    return y


def same_content(Pm, x, y, derivs=True):
    """sanity: y has the observable content of x (used by the self-test of this module)"""
    if type(x) is not type(y) or x.shape != y.shape or x.item != y.item:
        return False
    xm, ym = _expanded_mask(x), _expanded_mask(y)
    if not np.array_equal(xm, ym):
        return False
    if x.units != y.units:
        return False
    xv = np.broadcast_to(np.asarray(x._values_), x.shape + x.item)
    yv = np.broadcast_to(np.asarray(y._values_), y.shape + y.item)
    if xv.dtype.kind != yv.dtype.kind:
        return False
    keep = np.logical_not(xm)
    if x.shape:
        if xv[keep].tobytes() != yv[keep].tobytes():
            return False
    elif not xm and np.asarray(xv).tobytes() != np.asarray(yv).tobytes():
        return False
    if derivs and sorted(x.derivs) != sorted(y.derivs):
        return False
    return True
