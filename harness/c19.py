"""C19 - rejected operations fail cleanly: documented exception, target left untouched.

Fault injection: every mutator x every way of making its argument invalid (one fault class
at a time and in pairs) x target classes with and without derivatives.  Direct oracle: the
exception is TypeError / ValueError / IndexError and the target (values incl. hidden ones,
mask, units, derivatives, read-only flag) is bit-for-bit what it was.  Non-mutating operations
rejected for the same reasons raise from the same families; documented optional arguments do
not crash.  Correspondence: the Coq validate-then-commit tables of C19Model.v predict, per
(mutator family, argument form, set of faults), the exception family and that nothing was
committed; compared inside Coq with what the implementation did."""
import itertools
import warnings

import numpy as np

from . import lib, sweep
from .lib import cbool, cnat, clist

HEADER = 'From Coq Require Import List Bool.\nFrom PM Require Import C19Model.\nImport ListNotations.\n'
ALLOWED = ('TypeError', 'ValueError', 'IndexError')


def P():
    lib.setup_impl_path()
    import polymath
    return polymath


def family(e):
    """(family name, site): TypeError / ValueError / IndexError also for their subclasses (NumPy's
    UFuncTypeError is a TypeError, AxisError a ValueError and IndexError); anything else by its own name"""
    name, site = lib.exc_family(e)
    if isinstance(e, Warning):
        return 'Warning:' + name, site
    for fam in (TypeError, ValueError, IndexError):
        if isinstance(e, fam):
            return fam.__name__, site
    return name, site


# ---------------------------------------------------------------------------
# targets
# ---------------------------------------------------------------------------
TARGETS = ['scalar_f', 'scalar_i', 'scalar_u', 'scalar_d', 'scalar0_d', 'vector', 'pair_d', 'matrix', 'bool', 'vector3',
           # class-specific operator overrides (Matrix3.__mul__/__imul__, Quaternion products, Polynomial ring, shape ())
           'matrix3', 'quaternion', 'polynomial', 'scalar0', 'vector0_d', 'bool0',
           # a writable object whose mask array cannot be written (a mask with fewer axes is broadcast by the constructor)
           'scalar_bmask', 'vector_bmask',
           # the base class with items and a derivative (zero derivatives are built by Qube.zeros)
           'qube_items_d',
           # derivatives that were broadcast to the object's shape when inserted (read-only views: item assignment gives
           # them arrays of their own first - seeded change C19-J skipped the denominator check on that path), and units
           # that carry an angle (seeded change C19-I: units differing only in the angle exponent were accepted)
           'scalar_bderiv', 'scalar_deg',
           # integer objects that carry derivatives (seeded change C19-O: `//= 2.5` dropped them before NumPy rejected
           # the float divisor), with array values and as a shapeless item array
           'scalar_i_d', 'vector_i_d', 'pair0_i_d']


def make_target(name, Pm, readonly=False):
    A = np.array
    if name == 'scalar_f':
        x = Pm.Scalar(A([1., 2., 3.]), A([False, True, False]))
    elif name == 'scalar_i':
        x = Pm.Scalar(A([1, 2, 3]), A([False, False, True]))
    elif name == 'scalar_u':
        x = Pm.Scalar(A([1., 2., 3.]), units=Pm.Units.KM)
    elif name == 'scalar_d':
        x = Pm.Scalar(A([1., 2., 3.]), A([True, False, False]))
        x.insert_deriv('t', Pm.Scalar(A([4., 5., 6.])))
        x.insert_deriv('u', Pm.Scalar(np.arange(6.).reshape(3, 2), drank=1))
    elif name == 'scalar0_d':
        x = Pm.Scalar(2.5)
        x.insert_deriv('t', Pm.Scalar(1.5))
    elif name == 'vector':
        x = Pm.Vector(np.arange(6.).reshape(2, 3) + 1., A([False, True]))
    elif name == 'vector3':
        x = Pm.Vector3(np.arange(9.).reshape(3, 3) + 1.)
    elif name == 'pair_d':
        x = Pm.Pair(np.arange(6.).reshape(3, 2) + 1., A([False, True, False]))
        x.insert_deriv('t', Pm.Pair(np.ones((3, 2))))
    elif name == 'matrix':
        x = Pm.Matrix(np.arange(8.).reshape(2, 2, 2) + 1., A([False, True]))
    elif name == 'bool':
        x = Pm.Boolean(A([True, False, True]), A([False, False, True]))
    elif name == 'matrix3':
        x = Pm.Matrix3(np.stack([np.eye(3), np.eye(3)[::-1]]), A([False, True]))
    elif name == 'quaternion':
        x = Pm.Quaternion(np.arange(8.).reshape(2, 4) + 1., A([False, True]))
    elif name == 'polynomial':
        x = Pm.Polynomial(np.arange(6.).reshape(2, 3) + 1., A([False, True]))
    elif name == 'scalar0':
        x = Pm.Scalar(3)
    elif name == 'vector0_d':
        x = Pm.Vector(A([1., 2., 3.]))
        x.insert_deriv('t', Pm.Vector(A([4., 5., 6.])))
    elif name == 'bool0':
        x = Pm.Boolean(True)
    elif name == 'qube_items_d':
        x = Pm.Qube(np.arange(6.).reshape(3, 2) + 1., A([False, True, False]), nrank=1)
        x.insert_deriv('t', Pm.Qube(np.ones((3, 2)), nrank=1))
    elif name == 'scalar_bderiv':
        x = Pm.Scalar(A([1., 2., 3., 4.]), A([False, True, False, False]))
        x.insert_deriv('t', Pm.Scalar(2.5))
    elif name == 'scalar_deg':
        x = Pm.Scalar(A([10., 20., 30.]), units=Pm.Units.DEG)
    elif name == 'scalar_i_d':
        x = Pm.Scalar(A([7, 8, 9]), A([False, True, False]))
        x.insert_deriv('t', Pm.Scalar(A([4., 5., 6.])))
        x.insert_deriv('xy', Pm.Scalar(np.arange(6.).reshape(3, 2), drank=1))
    elif name == 'vector_i_d':
        x = Pm.Vector(np.arange(6).reshape(2, 3) + 1)
        x.insert_deriv('t', Pm.Vector(np.ones((2, 3))))
    elif name == 'pair0_i_d':
        x = Pm.Pair(A([5, 7]))
        x.insert_deriv('t', Pm.Pair(A([1., 2.])))
    elif name == 'scalar_bmask':
        x = Pm.Scalar(np.arange(6.).reshape(2, 3) + 1., A([False, True, False]))
    elif name == 'vector_bmask':
        x = Pm.Vector(np.arange(12.).reshape(2, 2, 3) + 1., A([False, True]))
    else:
        raise ValueError(name)
    if readonly:
        x.as_readonly()
    return x


def snap(x):
    """bit-for-bit: values (hidden ones too), expanded mask, units, read-only flag, derivatives"""
    v = np.asarray(x._values_)
    m = np.broadcast_to(np.asarray(x._mask_), x.shape)
    u = x.units
    return (type(x).__name__, x.shape, x.numer, x.denom, v.dtype.kind, v.tobytes(), m.tobytes(),
            None if u is None else (u.exponents, u.triple, str(u.name)), bool(x.readonly),
            tuple((k, snap(d)) for k, d in sorted(x.derivs.items())))


# ---------------------------------------------------------------------------
# arguments: a valid base argument for (target, op) with faults layered on top
# ---------------------------------------------------------------------------
FAULTS = ['readonly', 'type', 'units', 'numer', 'denom', 'kind', 'shape', 'derivdenom']
# variations layered like faults: 'shape1' = an operand with axes but a single element (a fault only for a shapeless
# target: it cannot be broadcast INTO shape ()); 'argunits' = the operand brings units to a target without units
# (legal on its own - combined with a real fault the rejected operation must not leave the units behind)
VARIATIONS = ['shape1', 'argunits', 'argmask']
# 'argmask' = the operand is masked somewhere and holds a zero (legal on its own; an operator that merges the operand's
# mask or looks for zero divisors BEFORE it meets the real fault leaves that behind - seeded change C19-H)
KIND_NUMBERS = [2.5, np.float32(2.5), np.float64(2.5), np.float16(2.5), np.array(2.5), np.array(2.5, dtype='float32')]
BADTYPES = [{'a': 1}, 'abc', None, object]       # the 'type' fault cycles through these
INPLACE = ['iadd', 'isub', 'imul', 'itruediv', 'ifloordiv', 'imod', 'iand', 'ior', 'ixor']
SETITEM = ['set_int', 'set_slice', 'set_mask', 'set_ellipsis', 'set_array']
MUTATORS = INPLACE + SETITEM
ARGFORMS = ['number', 'ndarray', 'object']


# faults the property names as reasons for which an in-place operator "cannot be carried out": the operation must raise
# (only the unambiguous pairs; e.g. x[i] = 2.5 into an integer object truncates by design, //= drops derivatives)
_ARITH = ('iadd', 'isub', 'imul', 'itruediv', 'ifloordiv', 'imod')
MUST_REJECT = {'shape': _ARITH, 'kind': ('iadd', 'isub', 'imul', 'ifloordiv', 'imod'), 'units': ('iadd', 'isub'),
               'numer': ('iadd', 'isub'), 'denom': ('iadd', 'isub'), 'derivdenom': ('iadd', 'isub', 'imul', 'itruediv'),
               'type': _ARITH}


def base_arg(target, op, form, Pm):
    """an argument the operation accepts for this target (or None if the form makes no sense)"""
    x = target
    scalar_like = op in ('imul', 'itruediv', 'ifloordiv', 'imod')
    if form == 'number':
        if x.is_bool():
            return True
        return 2 if x.is_int() else 2.
    if form == 'ndarray':
        if scalar_like:
            return np.full(x.shape, 2) if x.is_int() else np.full(x.shape, 2.)
        return np.asarray(x._values_).copy()
    # object
    if scalar_like:
        return Pm.Scalar(np.full(x.shape, 2) if x.is_int() else np.full(x.shape, 2.))
    return x.copy()


def selected(op, x):
    """index and the shape the right-hand side must broadcast into"""
    if op == 'set_int':
        return (0 if x.shape else Ellipsis), x.shape[1:]
    if op == 'set_slice':
        return (slice(0, 2) if x.shape else Ellipsis), ((min(2, x.shape[0]),) + x.shape[1:] if x.shape else ())
    if op == 'set_mask':
        if not x.shape:
            return True, ()
        m = np.zeros(x.shape[0], bool)
        m[0] = True
        return m, (1,) + x.shape[1:]
    if op == 'set_ellipsis':
        return Ellipsis, x.shape
    if op == 'set_array':
        if not x.shape:
            return Ellipsis, ()
        return np.array([1, 0]), (2,) + x.shape[1:]
    raise ValueError(op)


def apply_fault(arg, fault, target, op, Pm, want_shape):
    """-> (new arg, applicable?)"""
    x = target
    if fault == 'type':
        k = (len(op) + len(str(type(arg))) + len(type(x).__name__)) % len(BADTYPES)
        return BADTYPES[k], True
    if fault == 'units':
        if isinstance(arg, Pm.Qube) and arg.UNITS_OK:
            if x.units is None:
                return arg, False
            a = arg.without_units().copy()
            # another dimension, or - every other time - the same one times an angle (rad is a unit of its own)
            other = Pm.Units.SEC
            if (len(op) + len(type(x).__name__) + len(x.shape)) % 2:
                other = (x.units * Pm.Units.RAD) if x.units.exponents[2] == 0 else Pm.Units.UNITLESS
            a.set_units(other)
            return a, True
        return arg, False
    if fault == 'numer':
        if isinstance(arg, Pm.Qube):
            if arg.numer == ():
                new = Pm.Vector(np.ones(arg.shape + (3,)))
            elif len(arg.numer) == 1:
                new = Pm.Vector(np.ones(arg.shape + (arg.numer[0] + 1,)))
            else:
                new = Pm.Matrix(np.ones(arg.shape + (arg.numer[0] + 1, arg.numer[1])))
            return new, True
        return arg, False
    if fault == 'denom':
        if isinstance(arg, Pm.Qube) and arg.DERIVS_OK:
            vals = np.asarray(arg._values_, dtype=float)
            vals = np.stack([vals, vals], axis=-1)
            cls = type(arg)
            try:
                return cls(vals, drank=1), True
            except Exception:
                return arg, False
        return arg, False
    if fault == 'kind':
        if not x.is_int():
            return arg, False
        if isinstance(arg, Pm.Qube):
            return type(arg)(np.asarray(arg._values_, dtype=float) + 0.5, arg._mask_, drank=len(arg.denom)), True
        if isinstance(arg, np.ndarray):
            return arg.astype(float if (len(op) + arg.ndim) % 2 else 'float32') + 0.5, True
        # every representation of a floating-point number (seeded change C19-G: only Python floats were recognised)
        return KIND_NUMBERS[(len(op) + len(type(x).__name__) + len(x.shape)) % len(KIND_NUMBERS)], True
    if fault == 'shape':
        bad = (4,) + tuple(want_shape) if len(want_shape) >= 0 else (4,)
        if want_shape and want_shape[0] == 4:
            bad = (5,) + tuple(want_shape[1:])
        if want_shape == ():
            bad = (2,)
        elif want_shape:
            bad = (want_shape[0] + 1,) + tuple(want_shape[1:])
        if isinstance(arg, Pm.Qube):
            vals = np.ones(bad + arg.item, dtype=np.asarray(arg._values_).dtype)
            return type(arg)(vals, drank=len(arg.denom)), True
        if isinstance(arg, np.ndarray) and arg.ndim > 0:        # a 0-d array stands for a number
            item = arg.shape[len(arg.shape) - len(x.item):] if x.item else ()
            return np.ones(bad + tuple(x.item), dtype=arg.dtype), True
        return arg, False
    if fault == 'shape1':
        if tuple(want_shape) != () or op not in INPLACE:     # item assignment drops leading length-one axes (NumPy)
            return arg, False
        bad = (1,) if (len(op) % 2) else (1, 1)
        if isinstance(arg, Pm.Qube):
            vals = np.ones(bad + arg.item, dtype=np.asarray(arg._values_).dtype)
            return type(arg)(vals, drank=len(arg.denom)), True
        if isinstance(arg, np.ndarray) and arg.ndim > 0:        # a 0-d array stands for a number
            return np.ones(bad + tuple(x.item), dtype=arg.dtype), True
        return arg, False
    if fault == 'argmask':
        if isinstance(arg, Pm.Qube) and op in INPLACE and not arg.readonly:
            a = arg.copy()
            vals = np.asarray(a._values_)
            if a.shape:
                m = np.zeros(a.shape, bool)
                m[(0,) * len(a.shape)] = True
                if (len(op) + len(a.shape)) % 2 and a.size > 1:
                    m = True                   # the whole operand masked by the single value True
                if vals.dtype.kind in 'fiu' and not a.item:
                    vals = vals.copy()
                    vals[(-1,) * len(a.shape)] = 0
                a = type(a)(vals, m, drank=len(a.denom), units=a.units, derivs=dict(a.derivs))
            else:
                a = a.remask(True)
            return a, True
        return arg, False
    if fault == 'argunits':
        if isinstance(arg, Pm.Qube) and arg.UNITS_OK and x.UNITS_OK and x.units is None and arg.units is None:
            a = arg.copy()
            a.set_units(Pm.Units.KM)
            return a, True
        return arg, False
    if fault == 'derivdenom':
        if isinstance(arg, Pm.Qube) and 't' in x.derivs and arg.DERIVS_OK and x.derivs['t'].denom == ():
            a = arg.copy(recursive=False) if arg.derivs else arg.copy()
            d = np.ones(a.shape + a.numer + (2,))
            try:
                a.insert_deriv('t', type(a)(d, drank=1))
                return a, True
            except Exception:
                return arg, False
        return arg, False
    raise ValueError(fault)


def present(arg, x, op, want, ro, Pm):
    """the faults really present in the final argument (a later fault can undo an earlier one)"""
    out = ['readonly'] if ro else []
    if not isinstance(arg, (Pm.Qube, np.ndarray, bool, int, float, np.number, np.bool_)):
        return out + ['type']
    if isinstance(arg, Pm.Qube):
        ua = None if arg.units is None else tuple(arg.units.exponents)
        ux = None if x.units is None else tuple(x.units.exponents)
        if ua is not None and ux is not None and ua != ux:
            out.append('units')
        if (arg.numer != ()) if op in ('imul', 'itruediv', 'ifloordiv', 'imod') else (arg.numer != x.numer):
            out.append('numer')
        if arg.denom != x.denom:
            out.append('denom')
        if x.is_int() and arg.is_float():
            out.append('kind')
        ashape = arg.shape
        if 't' in arg.derivs and 't' in x.derivs and arg.derivs['t'].denom != x.derivs['t'].denom:
            out.append('derivdenom')
    else:
        a = np.asarray(arg)
        if x.is_int() and a.dtype.kind == 'f':
            out.append('kind')
        ashape = a.shape[:a.ndim - len(x.item)] if a.ndim >= len(x.item) else ()
    try:
        if np.broadcast_shapes(tuple(ashape), tuple(want)) != tuple(want):
            out.append('shape')
    except ValueError:
        out.append('shape')
    return [f for f in FAULTS if f in out]


def do_mutation(x, op, arg):
    if op in INPLACE:
        return getattr(x, '__%s__' % op)(arg)
    idx, _ = selected(op, x)
    x[idx] = arg


def gen_cases(rng, tier):
    cases = []
    combos = [()] + [(f,) for f in FAULTS + VARIATIONS] + list(itertools.combinations(FAULTS, 2)) + \
        [(v, f) for v in VARIATIONS for f in FAULTS if f not in ('units',)]
    for t in TARGETS:
        for op in MUTATORS:
            for form in ARGFORMS:
                for faults in combos:
                    cases.append({'target': t, 'op': op, 'form': form, 'faults': list(faults)})
    if tier == 'quick':
        keep = [c for c in cases if len(c['faults']) <= 1 or c['faults'][0] in VARIATIONS]
        pairs = [c for c in cases if len(c['faults']) == 2 and c['faults'][0] not in VARIATIONS]
        rng.shuffle(pairs)
        cases = keep + pairs[:2500]
    return cases


def run_case(c, Pm):
    """-> dict(outcome=('ok',)|('exc', name, site), changed=bool, applied=[faults actually present])"""
    ro = 'readonly' in c['faults']
    x = make_target(c['target'], Pm, readonly=ro)
    if c['op'] in ('iand', 'ior', 'ixor') and False:
        pass
    op = c['op']
    want = selected(op, x)[1] if op in SETITEM else x.shape
    if op in SETITEM and c['form'] != 'object' and x.item and c['form'] == 'number':
        pass
    try:
        arg = base_arg(x, op, c['form'], Pm)
        if op in SETITEM:
            if c['form'] == 'object':
                arg = x.copy()[selected(op, x)[0]] if True else arg
            elif c['form'] == 'ndarray':
                arg = np.asarray(x.copy()[selected(op, x)[0]]._values_).copy()
    except Exception:
        return None
    applied = ['readonly'] if ro else []
    order = [f for f in c['faults'] if f not in VARIATIONS] + [v for v in VARIATIONS if v in c['faults']]
    for f in order:     # variations last: 'argunits' must survive the rebuilding of the operand by a fault
        if f == 'readonly':
            continue
        try:
            arg, ok = apply_fault(arg, f, x, op, Pm, want)
        except Exception:
            ok = False
        if ok:
            applied.append(f)
    applied = present(arg, x, op, want, ro, Pm)
    before = snap(x)
    with warnings.catch_warnings():
        warnings.simplefilter('error')
        try:
            do_mutation(x, op, arg)
            out = ('ok',)
        except Exception as e:
            name, site = family(e)
            out = ('exc', name, site)
    after = snap(x)
    return {'outcome': out, 'changed': before != after, 'applied': applied,
            'argtype': type(arg).__name__}


# ---------------------------------------------------------------------------
# non-mutating operations rejected for the same reasons; documented options
# ---------------------------------------------------------------------------
def settings(x):
    """the per-object settings that are not values: pickle digits / reference (and those of the derivatives)"""
    out = []
    for o in [x] + [d for _, d in sorted(x.derivs.items())]:
        try:
            out.append((repr(o.pickle_digits()), repr(o.pickle_reference())))
        except Exception as e:      # noqa
            out.append(('exc', type(e).__name__))
    return out


def rejected_mutations(Pm):
    """(name, maker of the target, action expected to be rejected): products whose operand has the target's own class
    (the class-specific branches of *=), with a fault in the leading shape or the item shape and units arriving through
    the operand (seeded change C19-L); invalid pickle settings next to valid ones (seeded change C19-M)"""
    A = np.array
    U = Pm.Units
    def M(lead=(2,), item=(2, 2), units=None, deriv=False):
        x = Pm.Matrix(np.arange(int(np.prod(lead + item)), dtype=float).reshape(lead + item) + 1., units=units)
        if deriv:
            x.insert_deriv('t', Pm.Matrix(np.ones(lead + item)))
        return x
    def Q(lead=(2,)):
        return Pm.Quaternion(np.arange(int(np.prod(lead)) * 4, dtype=float).reshape(lead + (4,)) + 1.)
    def P_(lead=(2,), order=1):
        return Pm.Polynomial(np.arange(int(np.prod(lead)) * (order + 1), dtype=float).reshape(lead + (order + 1,)) + 1.)
    def S_(n=3, units=None):
        x = Pm.Scalar(np.arange(float(n)) + 1., units=units)
        x.insert_deriv('t', Pm.Scalar(np.ones(n)))
        return x
    out = []
    for tu in (None, U.KM):
        for au in (None, U.SEC, U.KM):
            tag = 'units %s <- %s' % (tu and 'km', au and str(au))
            out += [('Matrix(2,) *= Matrix(3,) ' + tag, lambda tu=tu: M(units=tu, deriv=True), lambda x, au=au: x.__imul__(M((3,), units=au))),
                    ('Matrix 2x2 *= Matrix 2x3 ' + tag, lambda tu=tu: M(units=tu), lambda x, au=au: x.__imul__(M(item=(2, 3), units=au))),
                    ('Matrix 2x2 *= Matrix 3x2 ' + tag, lambda tu=tu: M(units=tu), lambda x, au=au: x.__imul__(M(item=(3, 2), units=au))),
                    ('Matrix() *= Matrix(2,) ' + tag, lambda tu=tu: M((), units=tu), lambda x, au=au: x.__imul__(M((2,), units=au))),
                    ('Matrix(2,) /= Matrix(3,) ' + tag, lambda tu=tu: M(units=tu), lambda x, au=au: x.__itruediv__(M((3,), units=au)))]
    out += [('Quaternion(2,) *= Quaternion(3,)', Q, lambda x: x.__imul__(Q((3,)))),
            ('Quaternion() *= Quaternion(2,)', lambda: Q(()), lambda x: x.__imul__(Q((2,)))),
            ('Polynomial(2,) *= Polynomial(3,)', P_, lambda x: x.__imul__(P_((3,)))),
            ('Polynomial(2,) += Polynomial(3,)', P_, lambda x: x.__iadd__(P_((3,)))),
            ('Polynomial() -= Polynomial(2,)', lambda: P_(()), lambda x: x.__isub__(P_((2,)))),
            ('Matrix3(2,) *= Matrix3(3,)', lambda: Pm.Matrix3(np.stack([np.eye(3)] * 2)), lambda x: x.__imul__(Pm.Matrix3(np.stack([np.eye(3)] * 3))))]
    # pickle settings: invalid digits with a valid reference, a valid digits value with an invalid reference, ...
    for dig, ref in ((0, 'smallest'), ('nonsense', 'largest'), (25.5, 'mean'), (7, 'nonsense'), ((7,), 'median'),
                     ((7, 'bad'), ('mean', 'mean')), ((7, 7), ('mean', 'bad')), (-3, 1.0), (8, -1.0), (8, 0.0)):
        out.append(('set_pickle_digits(%r, %r)' % (dig, ref), S_, lambda x, dig=dig, ref=ref: x.set_pickle_digits(dig, ref)))
    out.append(('set_units(SEC) on km with deriv', lambda: S_(units=U.KM), lambda x: x.set_units(U.SEC)))
    return out


def option_calls(Pm):
    A = np.array
    S = Pm.Scalar
    def sd():
        x = S(A([1., 2., 3.]))
        x.insert_deriv('t', S(A([1., 1., 1.])))
        x.insert_deriv('u', S(A([2., 2., 2.])))
        return x
    M = lambda: Pm.Matrix(A([[1., 2.], [3., 4.]]))
    calls = [
        ('delete_derivs(preserve=[t])', lambda: sd().delete_derivs(preserve=['t'])),
        ('delete_derivs(preserve=t)', lambda: sd().delete_derivs(preserve='t')),
        ('without_derivs(preserve=[t])', lambda: sd().without_derivs(preserve=['t'])),
        ('without_derivs(preserve=t)', lambda: sd().without_derivs(preserve='t')),
        ('clone(preserve=t)', lambda: sd().clone(recursive=False, preserve='t')),
        ('inverse(nozeros=True)', lambda: M().inverse(nozeros=True)),
        ('inverse(nozeros=False)', lambda: Pm.Matrix(A([[1., 2.], [2., 4.]])).inverse()),
        ('reciprocal(nozeros=True)', lambda: S(A([1., 2.])).reciprocal(nozeros=True)),
        ('Matrix.reciprocal(nozeros=True)', lambda: M().reciprocal(nozeros=True)),
        ('pow masked exponent V3', lambda: Pm.Vector3(A([1., 2., 3.])) ** S(2, True)),
        ('pow masked exponent M', lambda: M() ** S(2, True)),
        ('pow masked exponent Q', lambda: Pm.Quaternion(A([1., 0., 0., 0.])) ** S(2, True)),
        ('pow masked exponent S', lambda: S(A([1., 2.])) ** S(2., True)),
        ('pow masked base', lambda: S(2., True) ** 3),
        ('with_deriv insert existing', lambda: sd().with_deriv('t', S(A([1., 1., 1.])), method='insert')),
        ('with_deriv replace', lambda: sd().with_deriv('t', S(A([1., 1., 1.])), method='replace')),
        ('with_deriv add', lambda: sd().with_deriv('t', S(A([1., 1., 1.])), method='add')),
        ('with_deriv bogus', lambda: sd().with_deriv('t', S(A([1., 1., 1.])), method='bogus')),
        ('rename_deriv insert', lambda: sd().rename_deriv('t', 'v', method='insert')),
        ('rename_deriv onto existing', lambda: sd().rename_deriv('t', 'u', method='insert')),
        ('rename_deriv replace', lambda: sd().rename_deriv('t', 'u', method='replace')),
        ('rename_deriv add', lambda: sd().rename_deriv('t', 'u', method='add')),
        ('rename_deriv missing', lambda: sd().rename_deriv('zz', 'u')),
        ('unique_deriv_name', lambda: sd().unique_deriv_name('t')),
        ('arcsin(check=False) bad', lambda: S(A([2., 0.])).arcsin(check=False)),
        ('arccos(check=False) bad', lambda: S(A([2., 0.])).arccos(check=False)),
        ('sqrt(check=False) bad', lambda: S(A([-1., 4.])).sqrt(check=False)),
        ('log(check=False) bad', lambda: S(A([-1., 4.])).log(check=False)),
        ('exp(check=False)', lambda: S(A([1., 4.])).exp(check=False)),
        ('int(top=2, remask=True)', lambda: S(A([0.5, 3.5])).int(top=2, remask=True)),
        ('int(top=2, clip=True)', lambda: S(A([0.5, 3.5])).int(top=2, clip=True)),
        ('sign(zeros=False)', lambda: S(A([0., -2.])).sign(zeros=False)),
        ('as_index(masked=None)', lambda: S(A([0, 1]), A([False, True])).as_index(masked=None)),
        ('as_index(masked=0)', lambda: S(A([0, 1]), A([False, True])).as_index(masked=0)),
        ('V.as_index(masked=None)', lambda: Pm.Vector(A([[0, 1], [1, 0]]), A([False, True])).as_index(masked=None)),
        ('V.as_index_and_mask(purge)', lambda: Pm.Vector(A([[0, 1], [1, 0]]), A([False, True])).as_index_and_mask(purge=True)),
        ('V.as_index_and_mask(masked=0)', lambda: Pm.Vector(A([[0, 1], [1, 0]]), A([False, True])).as_index_and_mask(masked=0)),
        ('any(builtins, masked)', lambda: Pm.Boolean(False, True).any(builtins=True, masked=False)),
        ('max(builtins, masked)', lambda: S(A([1., 2.]), True).max(builtins=True, masked=-1)),
        ('median(axis tuple)', lambda: S(np.arange(6.).reshape(2, 3)).median(axis=(0, 1))),
        ('unitary', lambda: Pm.Matrix(np.eye(3) * 2.).unitary()),
        ('unitary 2x2', lambda: M().unitary()),
        ('is_diagonal', lambda: M().is_diagonal(delta=0.)),
        ('solve_quadratic(include_antimask)', lambda: S.solve_quadratic(S(1.), S(0.), S(-1.), include_antimask=True)),
        ('mask_where(replace)', lambda: S(A([1., 2.])).mask_where(A([True, False]), replace=7., remask=False)),
        ('clip(remask)', lambda: S(A([1., 5.])).clip(2., 4., remask=True)),
        ('clip(inclusive=False)', lambda: S(A([1., 5.])).clip(2., 4., inclusive=False)),
        ('shrink/unshrink', lambda: S(A([1., 5.])).shrink(A([True, False])).unshrink(A([True, False]))),
        ('unshrink(False, shape)', lambda: S(A([1., 5.])).shrink(False).unshrink(False, shape=(2,))),
        ('set_units(override) ro', lambda: S(A([1., 5.])).as_readonly().set_units(Pm.Units.KM, override=True)),
        ('delete_deriv(override) ro', lambda: sd().as_readonly().delete_deriv('t', override=True)),
        ('insert_deriv(override=False) ro new', lambda: sd().as_readonly().insert_deriv('z', S(A([1., 1., 1.])), override=False)),
        ('Polynomial.roots order3', lambda: Pm.Polynomial(A([1., 0., -7., 6.])).roots()),
        ('Polynomial.roots order3 derivs', lambda: _poly_d(Pm).roots()),
        ('Polynomial.eval recursive=False', lambda: Pm.Polynomial(A([1., 2.])).eval(S(2.), recursive=False)),
        ('Quaternion.to_matrix3(partials)', lambda: Pm.Quaternion(A([1., 0., 0., 0.])).to_matrix3(partials=True)),
        ('Matrix3.twovec', lambda: Pm.Matrix3.twovec(Pm.Vector3.XAXIS, 0, Pm.Vector3.YAXIS, 1)),
        ('from_scalars', lambda: Pm.Vector.from_scalars(S(1.), S(A([1., 2.])), recursive=False)),
        ('stack dtypes', lambda: Pm.Qube.stack(S(1), S(2.5), S(True))),
        ('as_this_type coerce', lambda: S(A([1, 2])).as_this_type(A([1.5, 2.5]), coerce=True)),
        ('cast classes', lambda: Pm.Vector(A([1., 2., 3.])).cast((Pm.Vector3, Pm.Pair))),
        ('reshape recursive=False', lambda: sd().reshape((3, 1), recursive=False)),
        ('roll_axis rank', lambda: S(np.arange(6.).reshape(2, 3)).roll_axis(1, 0, rank=3)),
        # unusable index objects must be IndexError, for reading and for assignment
        ('getitem base-class index with items', lambda: S(A([1., 2., 3.]))[Pm.Qube(A([0, 1]), nrank=1)]),
        ('getitem tuple with base-class index', lambda: S(np.arange(6.).reshape(2, 3))[(0, Pm.Qube(A([0, 1]), nrank=1))]),
        ('setitem base-class index with items', lambda: S(A([1., 2., 3.])).__setitem__(Pm.Qube(A([0, 1]), nrank=1), 7.)),
        ('getitem Matrix index', lambda: S(A([1., 2., 3.]))[Pm.Matrix(np.eye(2))]),
        ('getitem float Vector index', lambda: S(np.arange(6.).reshape(2, 3))[Pm.Vector(A([0.5, 1.]))]),
        ('getitem Quaternion index', lambda: S(A([1., 2., 3.]))[Pm.Quaternion(A([1., 0., 0., 0.]))]),
        ('getitem dict index', lambda: S(A([1., 2., 3.]))[{'a': 1}]),
        ('setitem string index', lambda: S(A([1., 2., 3.])).__setitem__('a', 7.)),
        ('move_axis rank', lambda: S(np.arange(6.).reshape(2, 3)).move_axis(1, 0, rank=3)),
    ]
    return calls


def _poly_d(Pm):
    p = Pm.Polynomial(np.array([1., 0., -7., 6.]))
    p.insert_deriv('t', Pm.Polynomial(np.array([0., 0., 1., 0.])))
    return p


NONMUT = {'add': lambda a, b: a + b, 'sub': lambda a, b: a - b, 'mul': lambda a, b: a * b,
          'truediv': lambda a, b: a / b, 'floordiv': lambda a, b: a // b, 'mod': lambda a, b: a % b,
          'radd': lambda a, b: b + a, 'rsub': lambda a, b: b - a, 'rmul': lambda a, b: b * a,
          'lt': lambda a, b: a < b, 'eq': lambda a, b: a == b, 'and': lambda a, b: a & b,
          'pow': lambda a, b: a ** b, 'getitem': lambda a, b: a[b], 'maximum': lambda a, b: a.maximum(a, b) if type(a).__name__ == 'Scalar' else a + b,
          'dot': lambda a, b: a.dot(b), 'cross': lambda a, b: a.cross(b), 'outer': lambda a, b: a.outer(b)}


# ---------------------------------------------------------------------------
# Coq side
# ---------------------------------------------------------------------------
FAULT_COQ = {'readonly': 'FReadonly', 'type': 'FType', 'units': 'FUnits', 'numer': 'FNumer', 'denom': 'FDenom',
             'kind': 'FKind', 'shape': 'FShape', 'derivdenom': 'FDerivDenom'}
OPFAM = {'iadd': 'OAdd', 'isub': 'OAdd', 'imul': 'OMul', 'set_int': 'OSet', 'set_slice': 'OSet',
         'set_mask': 'OSetMask', 'set_ellipsis': 'OSet', 'set_array': 'OSet'}
FORM_COQ = {'number': 'ANumber', 'ndarray': 'ANdarray', 'object': 'AObject'}
ERR_COQ = {'TypeError': 'TypeErr', 'ValueError': 'ValueErr', 'IndexError': 'IndexErr'}


def run(ctx):
    Pm = P()
    ctx.rule = ('all (target in 10 kinds) x (14 mutators) x (argument form: number / ndarray / object) x '
                '(no fault, each of 8 fault classes, every pair [quick: seeded sample of pairs]); '
                '+ 18 non-mutating operations with the same faults; + 64 calls with documented optional arguments; '
                'non-trivial = at least one fault really present in the argument')
    ctx.assumptions = ['a fault that cannot be expressed for a combination (e.g. units on a Boolean) is dropped; the '
                       'evidence counts the faults really applied']
    if ctx.ensure_library():
        ctx.prove(['theories/Props/C19.v'])
        ctx.effects_obligations()      # regenerated from the current source: see coq/obl/Eff_C19.v
        ctx.guards_obligations()       # the guard helpers of the in-place operators: see coq/obl/Grd_C19.v
    cases = gen_cases(ctx.rng, ctx.tier)
    terms, tcases = [], []
    for c in cases:
        r = run_case(c, Pm)
        if r is None:
            continue
        faults = [f for f in r['applied']]
        ctx.note_case(c, bool(faults))
        ctx.count('op:' + c['op'])
        ctx.count('nfaults:%d' % len(faults))
        out = r['outcome']
        ctx.count('outcome:' + (out[0] if out[0] == 'ok' else out[1]))
        sig = {'target': c['target'], 'op': c['op'], 'form': c['form'], 'faults': '+'.join(sorted(faults))}
        if out[0] == 'exc':
            sig['exc'] = out[1]
            sig['site'] = out[2]
            if out[1] not in ALLOWED:
                ctx.fail(dict(sig, what='wrong-exception-family'), c, {'outcome': out, 'applied': faults})
            if r['changed']:
                ctx.fail(dict(sig, what='target-changed-by-rejected-operation'), c, {'outcome': out, 'applied': faults})
        else:
            if 'readonly' in faults:
                ctx.fail(dict(sig, what='mutator-accepted-on-readonly'), c, {'outcome': out})
            else:
                must = [f for f in faults if c['op'] in MUST_REJECT.get(f, ())]
                if 'numer' in faults and c['op'] in ('imul', 'itruediv', 'ifloordiv', 'imod'):
                    must = [f for f in must if f != 'shape']    # an operand with items: its axes may be re-read as a matrix
                if must:
                    ctx.fail(dict(sig, what='accepted-despite-fault', fault='+'.join(must)), c,
                             {'outcome': out, 'applied': faults, 'changed': r['changed']})
        # correspondence for the modelled families
        if c['op'] in OPFAM and c['target'] in MODEL_TARGETS:
            obs = 'OOk' if out[0] == 'ok' else ('(OErr %s %s)' % (ERR_COQ.get(out[1], 'OtherErr'), cbool(r['changed'])))
            terms.append('(mkcase %s %s %s %s, %s)' % (OPFAM[c['op']], FORM_COQ[c['form']], MODEL_TARGETS[c['target']],
                                                       clist([FAULT_COQ[f] for f in faults], 'fault'), obs))
            tcases.append((c, r))
    ctx.traces = len(terms)
    mism = ctx.coq_eval_shards('cases', HEADER, terms, lambda x: 'mismatches %s' % x, shard=500)
    if mism:
        c, r = tcases[mism[0]]
        ctx.broken_tie('correspondence', 'validate-commit-tables-vs-impl',
                       {'n_mismatch': len(mism), 'first_case': c, 'impl': r,
                        'all': [(tcases[j][0], tcases[j][1]['outcome'], tcases[j][1]['applied']) for j in mism[:40]]})
    ctx.cov['correspondence_mismatches'] = len(mism or [])
    # ---- non-mutating operations with the same faults
    for t in TARGETS:
        for opn, fn in sorted(NONMUT.items()):
            for form in ARGFORMS:
                for f in FAULTS[1:]:
                    x = make_target(t, Pm)
                    try:
                        arg = base_arg(x, 'iadd', form, Pm)
                        arg, ok = apply_fault(arg, f, x, 'iadd', Pm, x.shape)
                    except Exception:
                        continue
                    if not ok:
                        continue
                    before = snap(x)
                    with warnings.catch_warnings():
                        warnings.simplefilter('error')
                        try:
                            fn(x, arg)
                            out = ('ok',)
                        except Exception as e:
                            name, site = family(e)
                            out = ('exc', name, site)
                    c = {'nonmut': opn, 'target': t, 'form': form, 'faults': [f]}
                    ctx.note_case(c, True)
                    ctx.count('nonmut:' + (out[0] if out[0] == 'ok' else out[1]))
                    if out[0] == 'exc' and out[1] not in ALLOWED:
                        ctx.fail({'what': 'wrong-exception-family', 'nonmut': opn, 'target': t, 'form': form,
                                  'faults': f, 'exc': out[1], 'site': out[2]}, c, {'outcome': out})
                    # only a REJECTED operation is C19's business here (what an accepted non-mutating operation may
                    # do to its operands - e.g. broadcasting marks array-valued objects read-only - is C07's)
                    if out[0] == 'exc' and snap(x) != before:
                        ctx.fail({'what': 'operand-changed', 'nonmut': opn, 'target': t, 'faults': f}, c, {'outcome': out})
    # ---- documented optional arguments
    for name, fn in option_calls(Pm):
        with warnings.catch_warnings():
            warnings.simplefilter('error')
            try:
                fn()
                out = ('ok',)
            except Exception as e:
                nm, site = family(e)
                out = ('exc', nm, site)
        c = {'option_call': name}
        ctx.note_case(c, True)
        ctx.count('option:' + (out[0] if out[0] == 'ok' else out[1]))
        if out[0] == 'exc' and out[1] not in ALLOWED:
            ctx.fail({'what': 'wrong-exception-family', 'option_call': name, 'exc': out[1], 'site': out[2]}, c,
                     {'outcome': out})
    # ---- class-specific products and settings: a rejected call leaves the target as it was, settings included
    for name, mk, act in rejected_mutations(Pm):
        x = mk()
        before = (snap(x), settings(x))
        with warnings.catch_warnings():
            warnings.simplefilter('ignore')
            try:
                act(x)
                out = ('ok',)
            except Exception as e:      # noqa
                nm, site = family(e)
                out = ('exc', nm, site)
        c = {'rejected_mutation': name}
        ctx.note_case(c, True)
        ctx.count('rejected_mutation:' + out[0])
        if out[0] == 'exc' and (snap(x), settings(x)) != before:
            ctx.fail({'what': 'target-changed-by-rejected-operation', 'rejected_mutation': name, 'exc': out[1], 'site': out[2]},
                     c, {'outcome': out, 'before': str(before[1]), 'after': str(settings(x))})
        if out[0] == 'exc' and out[1] not in ALLOWED:
            ctx.fail({'what': 'wrong-exception-family', 'rejected_mutation': name, 'exc': out[1], 'site': out[2]}, c, {'outcome': out})
    # ---- the API sweep: a public call whose arguments are all of the documented types never crashes
    sweep_part(ctx, Pm)
    ctx.exhaustive = ctx.tier == 'thorough'
    return ctx.finish()


# exception families that mean "crash" (the property names AttributeError, NameError, RuntimeError; KeyError,
# ZeroDivisionError, UnboundLocalError ... are of the same kind: no documented rejection raises them)
def _in_scope_spec(pname, spec, mname):
    t = spec[0]
    if t == 'varargs':
        return all(_in_scope_spec(pname, x, mname) for x in spec[1])
    if t == 'mask':
        return spec[1] != 'bad' and not (pname == 'antimask' and spec[1] == 'Boolean')
    if t == 'nparr' and (pname in sweep.OBJ_PARAMS) and not mname.startswith('__'):
        return False        # an ndarray in place of an object: documented for the operators only
    if t == 'index':
        return True
    if t == 'lit':
        v = spec[1]
        if isinstance(v, str):
            return v != 'bogus' and pname not in sweep.OBJ_PARAMS and pname not in ('units', 'arg', 'first', 'second')
        if pname in sweep.OBJ_PARAMS or pname in ('derivs', 'units', 'classes'):
            # a literal in place of an object: only numbers, and only for the operators (where numbers are documented)
            if v is None:
                return False
            return mname.startswith('__') and isinstance(v, (int, float, bool))
        return True
    if t == 'cls':
        return True
    return True


def in_scope(desc):
    if desc['cls'] == 'Qube' and desc['name'] in ('__abs__', 'reciprocal', 'identity'):
        return False        # the base class leaves these to its subclasses
    if desc['name'] in ('from_matrix3_experimental', '__init__'):
        return False
    return all(_in_scope_spec(n, sp, desc['name']) for n, sp in desc['args'])


def _c19_sweep_worker(chunk):
    Pm = sweep.P()
    out = []
    n = 0
    for d in chunk:
        if not in_scope(d):
            continue
        n += 1
        with warnings.catch_warnings():
            warnings.simplefilter('ignore')
            ev = sweep.execute(d, Pm)
        if ev.ok or ev.exc is None:
            continue
        e = ev.exc
        if isinstance(e, (TypeError, ValueError, IndexError)) or isinstance(e, sweep.SweepTimeout):
            continue
        name, site = lib.exc_family(e)
        out.append((d, name, site, str(e)[:160]))
    return n, out


def sweep_part(ctx, Pm):
    calls = sweep.call_list(Pm)
    sel = sweep.select(calls, ctx.rng, ctx.tier)
    res = sweep.run_parallel(sel, _c19_sweep_worker)
    nrun = 0
    for n, bad in res:
        nrun += n
        for d, name, site, msg in bad:
            sig = {'what': 'crash-in-public-call', 'method': d['name'], 'cls': d['cls'], 'exc': name, 'site': site}
            ctx.fail(sig, {'call': d}, {'exception': name, 'site': site, 'message': msg})
    ctx.evaluations += nrun
    ctx.count('sweep_calls_in_scope', nrun)
    ctx.cov['sweep_calls'] = nrun


MODEL_TARGETS = {'scalar_f': 'TScalarF', 'scalar_i': 'TScalarI', 'scalar_u': 'TScalarU', 'scalar_d': 'TScalarD',
                 'vector': 'TVector'}


def replay(path):
    import json
    Pm = P()
    d = json.load(open(path))
    if 'case' not in d:
        print(json.dumps(d, indent=1)[:4000])
        return 1
    c = d['case']
    if 'op' in c:
        r = run_case(c, Pm)
        print('case   :', c)
        print('result :', r)
        bad = (r['outcome'][0] == 'exc' and (r['outcome'][1] not in ALLOWED or r['changed'])) or \
              (r['outcome'][0] == 'ok' and 'readonly' in r['applied'])
        print('property FAILS on this case' if bad else 'property holds on this case')
        return 1 if bad else 0
    if 'call' in c:
        ev = sweep.execute(c['call'], Pm)
        print('call  :', c['call'])
        print('result:', 'ok' if ev.ok else 'raised %s: %s' % (type(ev.exc).__name__, ev.exc))
        bad = (not ev.ok) and not isinstance(ev.exc, (TypeError, ValueError, IndexError))
        print('property FAILS on this case' if bad else 'property holds on this case')
        return 1 if bad else 0
    print(c)
    if 'option_call' in c:
        for name, fn in option_calls(Pm):
            if name == c['option_call']:
                try:
                    print('result:', fn())
                    return 0
                except Exception as e:
                    print('raises', type(e).__name__, e)
                    return 0 if type(e).__name__ in ALLOWED else 1
    return 1
