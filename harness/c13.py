"""C13 - reductions and ordering operations see only unmasked elements.

Stages: prove Props/C13.v; generate cases; run the implementation; compare with
(a) a reference written from the property statement (per output element: the
reduction of the list of unmasked contributors in row-major order, masked iff that
list is empty, NumPy's result shape), itself cross-checked against numpy.ma where
numpy.ma agrees with the statement, and (b) the Coq model C13Model.run13 evaluated
by vm_compute on the same cases (correspondence, compared inside Coq)."""
import itertools
import json
import numbers
import os
import warnings
from fractions import Fraction

import numpy as np

from . import lib, hist
from .lib import cbool, cnat, cZ, clist, cshape

HEADER = ('From Coq Require Import List ZArith Bool.\n'
          'From PM Require Import Base Mask C13Model.\nImport ListNotations.\n')

INF = 2 ** 40                     # code of +inf in the order embedding of floats into Z
I64MIN, I64MAX = -2 ** 63, 2 ** 63 - 1

RED_OPS = ['sum', 'mean', 'max', 'min', 'argmax', 'argmin', 'median', 'any', 'all']
TUPLE_OPS = ('sum', 'mean', 'max', 'min', 'median', 'any', 'all')
ORDER_OPS = ('max', 'min', 'argmax', 'argmin', 'sort')      # extremes allowed in the model
ALLOWED_EXC = ('IndexError', 'ValueError', 'TypeError', 'AxisError')


def P():
    lib.setup_impl_path()
    import polymath
    return polymath


def prod(s):
    n = 1
    for x in s:
        n *= int(x)
    return n


# ---------------------------------------------------------------------------
# value encoding: ints are themselves; floats are 2x (halves) or +-INF for +-inf
# ---------------------------------------------------------------------------
def scale_of(dtype):
    return 2 if dtype == 'float' else 1


def decode(z, dtype):
    if dtype == 'float':
        if z >= INF:
            return float('inf')
        if z <= -INF:
            return float('-inf')
        return z / 2.0
    if dtype == 'bool':
        return bool(z)
    return int(z)


def encode_exact(x, dtype):
    """Z*Z code (p, q) of an implementation value in the units of the case."""
    if isinstance(x, (bool, np.bool_)):
        return (int(x), 1)
    if isinstance(x, numbers.Integral):
        return (int(x) * scale_of(dtype), 1)
    x = float(x)
    if x == float('inf'):
        return (INF, 1)
    if x == float('-inf'):
        return (-INF, 1)
    if x != x:
        return (1, 0)           # NaN: never equal to anything the model says
    f = Fraction(x) * scale_of(dtype)
    return (f.numerator, f.denominator)


def bounds(dtype):
    return (I64MIN, I64MAX) if dtype in ('int', 'bool') else (-INF, INF)


# ---------------------------------------------------------------------------
# case space
# ---------------------------------------------------------------------------
def all_shapes():
    out = [()]
    for r in (1, 2, 3):
        out.extend(itertools.product(range(0, 5), repeat=r))
    return out


def axis_args(rank, op):
    """(axis, legal) for every axis argument of the space."""
    out = [(None, True)]
    for a in range(-rank, rank):
        out.append((a, True))
    out.append((rank, False))
    out.append((-rank - 1, False))
    if op in TUPLE_OPS:
        out.append(((), True))
        for r in range(1, rank + 1):
            for t in itertools.combinations(range(rank), r):
                out.append((t, True))
        if rank >= 1:
            out.append(((-1,), True))
            out.append(((0, 0), False))
            out.append(((0, -rank), False))
            out.append(((rank,), False))
        if rank >= 2:
            out.append(((1, 0), True))
            out.append(((0, -1), True))
            out.append(((-1, -2), True))
        if rank >= 3:
            out.append(((2, 0), True))
            out.append(((-1, 0, 1), True))
            out.append(((1, -2), False))
    return out


MASKPATS = ['F', 'T', 'aF', 'aT', 'mix', 'bview', 'slice', 'one', 'single']


def make_mask(rng, shape, pat):
    """bool, or dict(arr=flat list, bview=axis or None)"""
    n = prod(shape)
    if pat == 'F':
        return False
    if pat == 'T':
        return True
    if shape == ():
        return rng.random() < 0.5
    if pat == 'aF':
        return {'arr': [False] * n, 'bview': None}
    if pat == 'aT':
        return {'arr': [True] * n, 'bview': None}
    if n == 0:
        return {'arr': [], 'bview': None}
    if pat == 'bview':
        k = rng.randrange(len(shape))
        sub = list(shape)
        sub[k] = 1
        base = np.array([rng.random() < 0.4 for _ in range(prod(sub))], bool).reshape(sub)
        return {'arr': [bool(x) for x in np.broadcast_to(base, shape).ravel()], 'bview': k}
    if pat == 'slice':
        k = rng.randrange(len(shape))
        m = np.array([rng.random() < 0.25 for _ in range(n)], bool).reshape(shape)
        for _ in range(rng.choice([1, 1, 2])):
            other = [i for i in range(len(shape)) if i != k]
            sel = [slice(None)] * len(shape)
            for i in other:
                sel[i] = rng.randrange(shape[i])
            m[tuple(sel)] = True          # a whole line along axis k
        if rng.random() < 0.4:
            sel = [slice(None)] * len(shape)
            sel[k] = rng.randrange(shape[k])
            m[tuple(sel)] = True          # a whole hyperplane
        return {'arr': [bool(x) for x in m.ravel()], 'bview': None}
    if pat == 'one':
        arr = [True] * n
        arr[rng.randrange(n)] = False
        return {'arr': arr, 'bview': None}
    if pat == 'single':
        arr = [False] * n
        arr[rng.randrange(n)] = True
        return {'arr': arr, 'bview': None}
    p = rng.choice([0.2, 0.5, 0.8])
    return {'arr': [rng.random() < p for _ in range(n)], 'bview': None}


def gen_vals(rng, n, dtype, op):
    if dtype == 'bool':
        return [rng.choice([0, 1]) for _ in range(n)]
    mode = rng.choice(['plain', 'ties', 'ext', 'ext'])
    if dtype == 'int':
        pool = [-3, -1, 0, 0, 1, 1, 2, 4]
        ext = [I64MIN, I64MAX]
    else:
        pool = [-4, -1, 0, 0, 1, 1, 3, 6]
        ext = [-INF, INF]
    if mode == 'ties':
        pool = rng.sample(pool, 2)
    if op in ORDER_OPS and mode == 'ext':
        pool = pool[:4] + ext + [rng.choice(ext)]
    elif op == 'median' and mode == 'ext' and dtype == 'float':
        pool = pool[:5] + [rng.choice(ext)] * 2     # one sign of infinity only (no inf-inf)
    return [rng.choice(pool) for _ in range(n)]


CLS_ITEMS = {'Scalar': (), 'Boolean': (), 'Vector': (3,), 'Pair': (2,), 'Matrix': (2, 2)}


def make_red_case(rng, shape, op, axis, legal, dtype, pat, cls='Scalar', derivs=False,
                  builtins=False, value=True):
    item = CLS_ITEMS[cls]
    n = prod(shape)
    c = {'kind': 'red', 'op': op, 'cls': cls, 'shape': list(shape), 'item': list(item),
         'dtype': dtype, 'vals': gen_vals(rng, n * prod(item), dtype, op),
         'mask': make_mask(rng, shape, pat), 'pat': pat,
         'axis': list(axis) if isinstance(axis, tuple) else axis,
         'axis_tuple': isinstance(axis, tuple), 'builtins': builtins}
    if cls == 'Boolean' and op == 'sum':
        c['value'] = value
    if derivs:
        c['derivs'] = {}
        for key, denom in (('t', ()), ('v', (2,))):
            if key == 't' or rng.random() < 0.5:
                c['derivs'][key] = {'denom': list(denom),
                                    'vals': gen_vals(rng, n * prod(item) * prod(denom), 'float', 'sum')}
                if shape and rng.random() < 0.5:
                    # the derivative is masked at elements of its own (not contained in the parent's mask): it is
                    # reduced over the elements that are visible in both (seeded change C13-J)
                    c['derivs'][key]['dmask'] = make_mask(rng, shape, rng.choice(['mix', 'mix', 'aT', 'slice']))
    return c


def make_sort_case(rng, shape, axis, dtype, pat):
    n = prod(shape)
    return {'kind': 'sort', 'op': 'sort', 'cls': 'Scalar', 'shape': list(shape), 'item': [],
            'dtype': dtype, 'vals': gen_vals(rng, n, dtype, 'sort'),
            'mask': make_mask(rng, shape, pat), 'pat': pat, 'axis': axis, 'axis_tuple': False,
            'builtins': False}


MM_SHAPES = [[(), ()], [(3,), ()], [(), (3,)], [(3,), (3,)], [(2, 3), (3,)], [(3, 1), (1, 3)],
             [(2, 1), (2, 3), ()], [(3,), (3,), (3,)], [(1,), (4,), (4,)], [(2, 2), (2, 1), (1, 2)],
             [(0,), ()], [(2, 0), (1,)], [(4,)], [()], [(2,), (3,)]]


def make_mm_case(rng, op, shapes, dtypes):
    cands = []
    mixed = 'float' in dtypes and 'int' in dtypes
    for s, dt in zip(shapes, dtypes):
        n = prod(s)
        pat = rng.choice(MASKPATS)
        cands.append({'shape': list(s), 'dtype': dt,
                      'vals': gen_vals(rng, n, dt, 'sum' if (mixed and dt == 'int') else 'max'),
                      'mask': make_mask(rng, s, pat), 'pat': pat,
                      'number': (s == () and rng.random() < 0.3)})
    return {'kind': 'mm', 'op': op, 'cands': cands}


def structural_space(tier):
    """All (shape, op, axis, legal) points of the declared space."""
    pts = []
    for shape in all_shapes():
        rank = len(shape)
        for op in RED_OPS:
            for axis, legal in axis_args(rank, op):
                pts.append((shape, op, axis, legal))
        for axis, legal in axis_args(rank, 'sort'):
            pts.append((shape, 'sort', axis, legal))
    return pts


def exhaustive_core(tier):
    """1-D arrays over a small alphabet x {masked, unmasked}, every op."""
    cases = []
    maxlen = 3 if tier == 'quick' else 4
    for dtype, ordalpha, sumalpha in (('float', [-INF, 0, 1, INF], [-1, 0, 3]),
                                      ('int', [I64MIN, 0, 1, I64MAX], [-1, 0, 2])):
        for n in range(1, maxlen + 1):
            for ms in itertools.product([False, True], repeat=n):
                for op in RED_OPS + ['sort']:
                    alpha = ordalpha if op in ORDER_OPS else sumalpha
                    if op in ('any', 'all'):
                        alpha = [0, 1]
                    if n == maxlen and len(alpha) > 3:
                        alpha = alpha[:2] + alpha[3:]
                    for vs in itertools.product(alpha, repeat=n):
                        if dtype == 'int' and op in ('any', 'all'):
                            continue
                        c = {'kind': 'sort' if op == 'sort' else 'red', 'op': op, 'cls': 'Scalar',
                             'shape': [n], 'item': [], 'dtype': dtype, 'vals': list(vs),
                             'mask': {'arr': list(ms), 'bview': None}, 'pat': 'exh',
                             'axis': 0 if (len(cases) % 2) else (None if op != 'sort' else -1),
                             'axis_tuple': False, 'builtins': False, 'exh': True}
                        cases.append(c)
    return cases


def gen_cases(rng, tier):
    cases = []
    corpus_dir = os.path.join(lib.VERIF, 'corpus')
    for fn in sorted(os.listdir(corpus_dir)) if os.path.isdir(corpus_dir) else []:
        if fn.startswith('C13') and fn.endswith('.json'):
            cases.append(json.load(open(os.path.join(corpus_dir, fn)))['case'])
    cases.extend(exhaustive_core(tier))
    pts = structural_space(tier)
    if tier == 'quick':
        chosen = [p for p in pts if p[0] == ()] + [rng.choice(pts) for _ in range(5000)]
        nmask = 1
    else:
        chosen = pts
        nmask = 2
    for shape, op, axis, legal in chosen:
        for j in range(nmask):
            dtype = rng.choice(['int', 'float'])
            pat = 'mix' if (j == 0 and tier != 'quick' and prod(shape) > 1) else rng.choice(MASKPATS)
            if op == 'sort':
                cases.append(make_sort_case(rng, shape, axis, dtype, pat))
                continue
            cls, derivs, builtins, value = 'Scalar', False, False, True
            r = rng.random()
            if op in ('sum', 'mean'):
                if r < 0.25:
                    cls = rng.choice(['Vector', 'Pair', 'Matrix'])
                    if cls == 'Matrix':
                        dtype = 'float'         # Matrix holds floats only
                elif r < 0.35 and op == 'sum':
                    cls, dtype, value = 'Boolean', 'bool', rng.random() < 0.6
                if cls != 'Boolean' and dtype == 'float' and rng.random() < 0.35:
                    derivs = True
            elif op in ('any', 'all'):
                if r < 0.5:
                    cls, dtype = 'Boolean', 'bool'
            if not derivs and rng.random() < 0.2:
                builtins = True
            cases.append(make_red_case(rng, shape, op, axis, legal, dtype, pat, cls, derivs,
                                       builtins, value))
    nmm = 1200 if tier == 'quick' else 6000
    for _ in range(nmm):
        shapes = rng.choice(MM_SHAPES)
        kindsel = rng.random()
        if kindsel < 0.4:
            dts = ['int'] * len(shapes)
        elif kindsel < 0.8:
            dts = ['float'] * len(shapes)
        else:
            dts = [rng.choice(['int', 'float']) for _ in shapes]
        cases.append(make_mm_case(rng, rng.choice(['maximum', 'minimum']), shapes, dts))
    # a fraction of the cases runs on operands that were REACHED THROUGH A HISTORY (harness/hist.py: cached views
    # asked for, then an in-place operation that brings the object to the described content); the expected
    # result is still computed from the description (seeded changes C13-D, C14-D: stale antimask)
    for c in cases:
        if 'hist' not in c and rng.random() < 0.25:
            c['hist'] = [rng.choice(HIST_MODES), rng.randrange(24)]
    # history core: every way of reaching the operand x every reduction on fixed shapes (catching a stale cached view
    # must not depend on which random cases happen to carry a history)
    for mode in sorted(set(HIST_MODES) | {'itruediv', 'derived', 'inplace_num', 'divzero'}):
        for k in range(2):
            for shape, pat in (((4,), 'mix'), ((2, 3), 'mix'), ((3,), 'aT')):
                for op in RED_OPS + ['sort']:
                    dtype = 'bool' if mode in ('iand', 'ior', 'ixor') else 'float'
                    if dtype == 'bool' and op not in ('any', 'all', 'sum'):
                        continue
                    axis = rng.choice([None, 0, -1])
                    if op == 'sort':
                        c = make_sort_case(rng, shape, 0 if axis is None else axis, dtype, pat)
                    else:
                        c = make_red_case(rng, shape, op, axis, True, dtype, pat, 'Boolean' if dtype == 'bool' else 'Scalar')
                    c['hist'] = [mode, k]
                    cases.append(c)
    return cases


# ---------------------------------------------------------------------------
# building implementation objects
# ---------------------------------------------------------------------------
NPDT = {'int': np.int64, 'float': np.float64, 'bool': np.bool_}
HIST_MODES = ['sibling', 'sibling', 'setitem', 'setitem', 'iadd', 'isub', 'imul', 'iand', 'ior', 'ixor']


def build_mask(m, shape):
    if isinstance(m, bool):
        return m
    arr = np.array(m['arr'], bool).reshape(shape)
    k = m.get('bview')
    if k is not None:
        sel = [slice(None)] * len(shape)
        sel[k] = slice(0, 1)
        return np.broadcast_to(arr[tuple(sel)], shape)      # read-only stride-0 view
    return arr


def build_obj(d, Pm):
    shape = tuple(d['shape'])
    item = tuple(d.get('item', ()))
    dtype = d['dtype']
    arr = np.array([decode(z, dtype) for z in d['vals']], dtype=NPDT[dtype]).reshape(shape + item)
    mask = build_mask(d['mask'], shape)
    cls = getattr(Pm, d.get('cls', 'Scalar'))
    if shape + item == ():
        arr = arr.item()
        if not isinstance(mask, bool):
            mask = bool(mask)
    obj = cls(arr, mask)
    for key, dd in sorted(d.get('derivs', {}).items()):
        denom = tuple(dd['denom'])
        darr = np.array([decode(z, 'float') for z in dd['vals']], float).reshape(shape + item + denom)
        dmask = build_mask(dd['dmask'] if dd.get('dmask') is not None else d['mask'], shape)
        if shape + item + denom == ():
            darr = darr.item()
        obj.insert_deriv(key, cls(darr, dmask, drank=len(denom)))
    return obj


def expanded(obj):
    """(values as array [n, ncomp] of python numbers, mask flat list) of an object"""
    shape = tuple(obj.shape)
    n = prod(shape)
    v = np.asarray(obj._values_)
    ncomp = prod(v.shape[len(shape):])
    v2 = np.broadcast_to(v, v.shape).reshape((n, ncomp))
    m = [bool(x) for x in np.broadcast_to(np.asarray(obj._mask_), shape).ravel()]
    return v2, m


# ---------------------------------------------------------------------------
# observation of implementation results
# ---------------------------------------------------------------------------
KINDS = {'b': 'bool', 'i': 'int', 'u': 'int', 'f': 'float'}


def observe(r, Pm, with_derivs=True):
    if r is None:
        return {'none': True}
    if isinstance(r, (bool, np.bool_)):
        return {'cls': 'builtin', 'shape': [], 'mask': [False], 'comps': [[bool(r)]], 'kind': 'bool',
                'derivs': {}}
    if isinstance(r, numbers.Integral):
        return {'cls': 'builtin', 'shape': [], 'mask': [False], 'comps': [[int(r)]], 'kind': 'int',
                'derivs': {}}
    if isinstance(r, numbers.Real):
        return {'cls': 'builtin', 'shape': [], 'mask': [False], 'comps': [[float(r)]], 'kind': 'float',
                'derivs': {}}
    if isinstance(r, Pm.Qube):
        v2, m = expanded(r)
        comps = [[x.item() if hasattr(x, 'item') else x for x in v2[:, j]] for j in range(v2.shape[1])]
        out = {'cls': type(r).__name__, 'shape': list(r.shape), 'mask': m, 'comps': comps,
               'kind': KINDS.get(np.asarray(r._values_).dtype.kind, '?'), 'derivs': {}}
        if with_derivs:
            for k, d in sorted(r._derivs_.items()):
                out['derivs'][k] = observe(d, Pm, False)
        return out
    return {'other': repr(r)[:200]}


# ---------------------------------------------------------------------------
# reference (the property statement)
# ---------------------------------------------------------------------------
def norm_axes(rank, axis, is_tuple):
    """set of reduced axes, or None when the axis argument is illegal"""
    if axis is None:
        return set(range(rank))
    al = list(axis) if is_tuple else [axis]
    out = set()
    for a in al:
        if not (-rank <= a < rank):
            return None
        a %= rank
        if a in out:
            return None
        out.add(a)
    return out


def contributors(shape, axes):
    rank = len(shape)
    keep = [i for i in range(rank) if i not in axes]
    red = sorted(axes)
    out_shape = [shape[i] for i in keep]
    nred = prod([shape[i] for i in red])
    idx = np.arange(prod(shape)).reshape(shape)
    moved = np.transpose(idx, keep + red).reshape((prod(out_shape), nred))
    return out_shape, moved, nred


def exact(x):
    if isinstance(x, float) and (x != x or x in (float('inf'), float('-inf'))):
        return x
    return Fraction(x)


def fsum(u):
    s = Fraction(0)
    for x in u:
        s += exact(x)
    return s


def fmedian(u):
    s = sorted(u)
    lo, hi = s[(len(s) - 1) // 2], s[len(s) // 2]
    if isinstance(exact(lo), float) or isinstance(exact(hi), float):
        return 0.5 * (float(lo) + float(hi))
    return (Fraction(lo) + Fraction(hi)) / 2


def first_extreme(pairs, better):
    """position (in the full contributor list) of the first extreme unmasked value"""
    best = None
    for k, x in pairs:
        if best is None or better(x, best[1]):
            best = (k, x)
    return best[0]


RESULT_KIND = {'mean': 'float', 'median': 'float', 'argmax': 'int', 'argmin': 'int',
               'any': 'bool', 'all': 'bool'}


def ref_red(c, v2, mflat):
    shape = c['shape']
    rank = len(shape)
    op = c['op']
    axes = norm_axes(rank, c['axis'], c.get('axis_tuple', False))
    if axes is None:
        return {'exc': True}
    if op in ('argmax', 'argmin') and rank == 0:
        return {'exc': True}
    out_shape, contrib, nred = contributors(shape, axes)
    ncomp = v2.shape[1]
    mask, comps = [], [[] for _ in range(ncomp)]
    for row in contrib:
        um = [(k, int(i)) for k, i in enumerate(row) if not mflat[int(i)]]
        mask.append(not um)
        for j in range(ncomp):
            u = [v2[i, j].item() for _, i in um]
            if not um:
                comps[j].append(None)
            elif op == 'sum':
                if c['cls'] == 'Boolean':
                    comps[j].append(sum(1 for x in u if bool(x) == bool(c.get('value', True))))
                else:
                    comps[j].append(fsum(u))
            elif op == 'mean':
                comps[j].append(fsum(u) / len(u))
            elif op == 'max':
                comps[j].append(max(u))
            elif op == 'min':
                comps[j].append(min(u))
            elif op == 'argmax':
                comps[j].append(first_extreme([(k, v2[i, j].item()) for k, i in um], lambda a, b: a > b))
            elif op == 'argmin':
                comps[j].append(first_extreme([(k, v2[i, j].item()) for k, i in um], lambda a, b: a < b))
            elif op == 'median':
                comps[j].append(fmedian(u))
            elif op == 'any':
                comps[j].append(any(x != 0 for x in u))
            elif op == 'all':
                comps[j].append(all(x != 0 for x in u))
    in_kind = KINDS.get(v2.dtype.kind, c['dtype'])      # the class may have coerced the data
    kind = RESULT_KIND.get(op, 'int' if in_kind == 'bool' else in_kind)
    cls = c['cls']
    if op in ('any', 'all'):
        cls = 'Boolean'
    elif cls == 'Boolean':
        cls = 'Scalar'
    ref = {'cls': cls, 'shape': out_shape, 'mask': mask, 'comps': comps, 'kind': kind,
           'nred': nred, 'derivs': None}
    if c.get('builtins') and out_shape == [] and not c['item'] and not mask[0]:
        ref['cls'] = 'builtin'
    return ref


def ref_sort(c, v2, mflat):
    shape = c['shape']
    rank = len(shape)
    axis = c['axis']
    if axis is None:
        shape = [prod(shape)]
        rank, axis = 1, 0
    elif not (-rank <= axis < rank):
        return {'exc': True}
    axis %= rank
    _, contrib, nred = contributors(shape, {axis})
    n = prod(shape)
    mask, vals = [None] * n, [None] * n
    for row in contrib:
        u = sorted(v2[int(i), 0].item() for i in row if not mflat[int(i)])
        for k, i in enumerate(row):
            mask[int(i)] = k >= len(u)
            vals[int(i)] = u[k] if k < len(u) else None
    return {'cls': 'Scalar', 'shape': list(shape), 'mask': mask, 'comps': [vals],
            'kind': KINDS.get(v2.dtype.kind, c['dtype']), 'nred': nred, 'derivs': None}


def ref_mm(c, objs):
    shapes = [tuple(d['shape']) for d in c['cands']]
    try:
        s = np.broadcast_shapes(*shapes)
    except ValueError:
        return {'exc': True}
    anyf = any(d['dtype'] == 'float' for d in c['cands'])
    n = prod(s)
    V, M = [], []
    for o, d in zip(objs, c['cands']):
        v2, m = expanded(o)
        V.append(np.broadcast_to(np.array([float(x) if anyf else x.item() for x in v2[:, 0]],
                                          dtype=object).reshape(d['shape']), s).ravel())
        M.append(np.broadcast_to(np.array(m, bool).reshape(d['shape']), s).ravel())
    mask, vals = [], []
    for i in range(n):
        u = [V[k][i] for k in range(len(objs)) if not M[k][i]]
        mask.append(not u)
        vals.append((max(u) if c['op'] == 'maximum' else min(u)) if u else None)
    return {'cls': 'Scalar', 'shape': list(s), 'mask': mask, 'comps': [vals],
            'kind': 'float' if anyf else 'int', 'nred': len(objs), 'derivs': None}


def close(a, b, tol):
    if b is None:
        return True
    if isinstance(a, (bool, np.bool_)) or isinstance(b, bool):
        return bool(a) == bool(b)
    ea, eb = exact(a), exact(b)
    if isinstance(ea, float) or isinstance(eb, float):
        return ea == eb
    if tol:
        return abs(ea - eb) <= Fraction(1, 2 ** 40) * max(1, abs(eb))
    return ea == eb


def compare(impl, ref, op):
    """None if the implementation result meets the reference, else the failing aspect"""
    if ref is None:
        return None
    if ref.get('exc'):
        if 'exc' in impl and impl['exc'][0] in ALLOWED_EXC:
            return None
        return 'exc'
    if 'exc' in impl:
        return 'exc'
    if impl.get('none'):
        return 'none'
    if 'other' in impl:
        return 'cls'
    if list(impl['shape']) != list(ref['shape']):
        return 'shape'
    if list(impl['mask']) != list(ref['mask']):
        return 'mask'
    if impl['cls'] != ref['cls']:
        return 'cls'
    if impl['kind'] != ref['kind'] and not all(ref['mask']):
        return 'kind'               # the kind of a fully masked / empty result is not observable
    if len(impl['comps']) != len(ref['comps']):
        return 'value'
    tol = op == 'mean'
    for ci, cr in zip(impl['comps'], ref['comps']):
        for a, b, m in zip(ci, cr, ref['mask']):
            if not m and not close(a, b, tol):
                return 'value'
    if ref.get('derivs') is not None:
        if sorted(impl['derivs']) != sorted(ref['derivs']):
            return 'deriv'
        for k, rd in ref['derivs'].items():
            d = impl['derivs'][k]
            dmask = (ref.get('dmasks') or {}).get(k, ref['mask'])
            if list(d['shape']) != list(ref['shape']) or list(d['mask']) != list(dmask):
                return 'deriv'
            if len(d['comps']) != len(rd):
                return 'deriv'
            for ci, cr in zip(d['comps'], rd):
                for a, b, m in zip(ci, cr, dmask):
                    if not m and not close(a, b, tol):
                        return 'deriv'
    return None


# numpy.ma as a second opinion on the reference (only where numpy.ma agrees with the
# statement: non-empty contributor lists, finite data, Scalar operands)
def ma_crosscheck(c, v2, mflat, ref):
    if c['kind'] != 'red' or ref.get('exc') or c['item'] or prod(c['shape']) == 0 or not c['shape']:
        return None
    if c['axis_tuple'] and len(c['axis']) == 0:
        return None
    op = c['op']
    vals = np.array([x.item() for x in v2[:, 0]]).reshape(c['shape'])
    if vals.dtype.kind == 'f' and not np.all(np.isfinite(vals)):
        return None
    if vals.dtype.kind == 'i' and op in ('sum', 'mean', 'median') and np.any(np.abs(vals.astype(float)) > 2 ** 40):
        return None
    if op in ('argmax', 'argmin') and vals.dtype.kind == 'i' and np.any(np.abs(vals.astype(float)) > 2 ** 40):
        return None         # numpy.ma itself lets a masked slot win a tie at its fill value
    if c['cls'] == 'Boolean' and op == 'sum':
        vals = (vals == bool(c.get('value', True))).astype(int)
    if op in ('any', 'all'):
        vals = vals != 0
    ma = np.ma.MaskedArray(vals, np.array(mflat, bool).reshape(c['shape']))
    axis = tuple(c['axis']) if c['axis_tuple'] else c['axis']
    with warnings.catch_warnings():
        warnings.simplefilter('ignore')
        try:
            r = getattr(np.ma, op)(ma, axis=axis)
        except Exception:       # noqa
            return None
    rm = np.ma.getmaskarray(r).ravel() if r is not np.ma.masked else np.array([True])
    rv = np.ma.getdata(r).ravel() if r is not np.ma.masked else np.array([0])
    if list(np.shape(r)) != list(ref['shape']):
        return 'shape'
    for a, b, mm, m in zip(rv, ref['comps'][0], rm, ref['mask']):
        if op in ('argmax', 'argmin'):
            if not m and int(a) != int(b):
                return 'value'
            continue
        if bool(mm) != bool(m):
            return 'mask'
        if not m and not close(a.item(), b, op in ('mean', 'median')):
            return 'value'
    return None


# ---------------------------------------------------------------------------
# Coq terms
# ---------------------------------------------------------------------------
def coq_mrep(obj):
    m = obj._mask_
    if isinstance(m, (bool, np.bool_)):
        return 'LS %s' % cbool(bool(m))
    return 'LA %s' % clist([cbool(x) for x in np.broadcast_to(m, obj.shape).ravel()], 'bool')


def coq_axis(c):
    a = c['axis']
    if a is None:
        return 'AxNone'
    if c.get('axis_tuple'):
        return '(AxTup %s)' % clist([cZ(x) for x in a], 'Z')
    return '(AxInt %s)' % cZ(a)


def codes_of(column, dtype):
    out = []
    for x in column:
        p, q = encode_exact(x.item() if hasattr(x, 'item') else x, dtype)
        if q != 1:
            return None
        out.append(p)
    return out


def coq_obs(impl, dtype, dtype_out=None):
    if 'exc' in impl or impl.get('none') or 'other' in impl:
        return 'OErr'
    comps = list(impl['comps'])
    for k in sorted(impl.get('derivs', {})):
        comps.extend(impl['derivs'][k]['comps'])
    cc = []
    for comp in comps:
        items = []
        for x, m in zip(comp, impl['mask']):
            p, q = (0, 1) if m else encode_exact(x, dtype_out or dtype)
            items.append('(%s, %s)' % (cZ(p), cZ(q)))
        cc.append(clist(items, '(Z*Z)'))
    return '(OArr %s %s %s)' % (cshape(impl['shape']), clist([cbool(m) for m in impl['mask']], 'bool'),
                                clist(cc, '(list (Z*Z))'))


OPNUM = {'max': 0, 'min': 1, 'argmax': 2, 'argmin': 3, 'median': 4, 'sort': 5}


def coq_case(c, obj, v2):
    """Coq term of the case (inputs as the implementation object holds them), or None
    when the case is outside the model (non-finite data in an arithmetic reduction)."""
    dtype = c['dtype']
    op = c['op']
    if any(dd.get('dmask') is not None for dd in (c.get('derivs') or {}).values()):
        return None         # derivatives with a mask of their own: direct oracle only (the model shares one mask)
    lo, hi = bounds(dtype)
    cols = [codes_of(v2[:, j], dtype) for j in range(v2.shape[1])]
    if any(col is None for col in cols):
        return None
    flat = [z for col in cols for z in col]
    if op in ('sum', 'mean', 'median') and any(abs(z) >= INF for z in flat):
        return None
    if op in ('sum', 'mean'):
        if c['cls'] == 'Boolean':
            want = 1 if c.get('value', True) else 0
            cols = [[1 if z == want else 0 for z in col] for col in cols]
        for k, d in sorted(obj._derivs_.items()):
            dv, _ = expanded(d)
            for j in range(dv.shape[1]):
                col = codes_of(dv[:, j], 'float')
                if col is None:
                    return None
                cols.append(col)
        return '(CSum %s %s (%s) %s %s)' % (cbool(op == 'mean'), cshape(c['shape']), coq_mrep(obj),
                                            coq_axis(c), clist([clist([cZ(z) for z in col], 'Z') for col in cols],
                                                               '(list Z)'))
    if op in ('any', 'all'):
        return '(CAnyAll %s %s (%s) %s %s)' % (cbool(op == 'all'), cshape(c['shape']), coq_mrep(obj),
                                               coq_axis(c), clist([cbool(z != 0) for z in cols[0]], 'bool'))
    return '(CExt %s %s %s %s (%s) %s %s)' % (cnat(OPNUM[op]), cZ(lo), cZ(hi), cshape(c['shape']),
                                              coq_mrep(obj), coq_axis(c),
                                              clist([cZ(z) for z in cols[0]], 'Z'))


def coq_mm(c, objs):
    anyf = any(d['dtype'] == 'float' for d in c['cands'])
    dt = 'float' if anyf else 'int'
    items = []
    for o, d in zip(objs, c['cands']):
        v2, _ = expanded(o)
        col = codes_of([float(x) if anyf else x for x in v2[:, 0]], dt)
        if col is None:
            return None
        items.append('(%s, %s, %s)' % (cshape(d['shape']), clist([cZ(z) for z in col], 'Z'), coq_mrep(o)))
    return '(CMaxMin %s %s)' % (cbool(c['op'] == 'minimum'), clist(items, '(shape * list Z * mrepL)'))


# ---------------------------------------------------------------------------
# run one case
# ---------------------------------------------------------------------------
def via_history(c, obj, Pm):
    h = c.get('hist')
    if not h:
        return obj
    mode = h[0]
    if mode not in hist.modes_for(obj):
        mode = {'iand': 'iadd', 'ior': 'isub', 'ixor': 'setitem', 'iadd': 'iand', 'isub': 'ior', 'imul': 'ixor'}.get(mode, 'setitem')
    return hist.reach(Pm, obj, mode, h[1])


def run_case(c, Pm):
    res = {'coq': None, 'ref': None, 'ma': None}
    with warnings.catch_warnings():
        warnings.simplefilter('error')
        try:
            if c['kind'] == 'mm':
                objs = []
                for d in c['cands']:
                    dd = dict(d, cls='Scalar', item=[])
                    o = via_history(c, build_obj(dd, Pm), Pm)
                    objs.append(o)
                args = [(o._values_ if (d.get('number') and not o._mask_) else o) for o, d in zip(objs, c['cands'])]
                res['ref'] = ref_mm(c, objs)
                res['coq'] = coq_mm(c, objs)
                res['dtype'] = 'float' if any(d['dtype'] == 'float' for d in c['cands']) else 'int'
                fn = Pm.Scalar.maximum if c['op'] == 'maximum' else Pm.Scalar.minimum
                res['impl'] = observe(fn(*args), Pm)
                return res
            obj = via_history(c, build_obj(c, Pm), Pm)     # the model gets the representation this object has
            v2, mflat = expanded(obj)
            axis = tuple(c['axis']) if c.get('axis_tuple') else c['axis']
            res['dtype'] = c['dtype']
            if c['kind'] == 'sort':
                res['ref'] = ref_sort(c, v2, mflat)
                res['coq'] = coq_case(c, obj, v2)
                res['impl'] = observe(obj.sort(axis=axis), Pm)
                return res
            ref = ref_red(c, v2, mflat)
            if not ref.get('exc') and c['op'] in ('sum', 'mean'):
                ref['derivs'] = {}
                for k, d in sorted(obj._derivs_.items()):
                    dv, dm = expanded(d)
                    dm = [bool(a) or bool(b) for a, b in zip(dm, mflat)] if len(dm) == len(mflat) else dm
                    rd = ref_red(dict(c, cls='Scalar'), dv, dm)
                    ref['derivs'][k] = rd['comps']
                    ref.setdefault('dmasks', {})[k] = rd['mask']
                if ref['cls'] == 'builtin':
                    ref['derivs'] = None
            res['ref'] = ref
            res['ma'] = ma_crosscheck(c, v2, mflat, ref)
            res['coq'] = coq_case(c, obj, v2)
            kw = {'axis': axis}
            if c['op'] == 'sum' and c['cls'] == 'Boolean':
                kw['value'] = c.get('value', True)
            kw['builtins'] = bool(c.get('builtins'))
            # every third operand is read-only, and no reduction writes into its operand: the values under the mask
            # are what they were (seeded change C13-O: median(axis=) wrote its fill value through a view of the operand)
            if (len(c['op']) + len(str(c['shape'])) + len(str(c['axis'])) + len(str(c['mask']))) % 3 == 0 and not obj.readonly:
                obj = obj.as_readonly()
            before = repr(expanded(obj))
            out = observe(getattr(obj, c['op'])(**kw), Pm)
            if repr(expanded(obj)) != before:
                out = {'exc': ('OperandChanged', c['op'], 'the reduction changed the values or the mask of its operand')}
            res['impl'] = out
        except Exception as e:       # noqa
            name, site = lib.exc_family(e)
            res['impl'] = {'exc': (name, site, str(e)[:120])}
    return res


def out_dtype(c, res):
    """units of the observed values: arg* results are plain indices, any/all booleans"""
    if c['op'] in ('argmax', 'argmin'):
        return 'int'
    if c['op'] in ('any', 'all'):
        return 'bool'
    if c['kind'] == 'red' and c['cls'] == 'Boolean':
        return 'int'
    return res.get('dtype', 'int')


def nontrivial(c):
    ms = [c['mask']] if c['kind'] != 'mm' else [d['mask'] for d in c['cands']]
    for m in ms:
        if m is True or (isinstance(m, dict) and any(m['arr'])):
            return True
    return False


def signature(c, res, aspect):
    sig = {'kind': c['kind'], 'op': c['op'], 'fail': aspect}
    impl = res['impl']
    if 'exc' in impl:
        sig['exc'], sig['site'] = impl['exc'][0], impl['exc'][1]
    sig['result_none'] = bool(impl.get('none'))
    if c['kind'] != 'mm':
        sig['cls'] = c['cls']
        sig['zero_size'] = prod(c['shape']) == 0
        sig['rank'] = len(c['shape'])
        sig['axis_legal'] = norm_axes(len(c['shape']), c['axis'], c.get('axis_tuple', False)) is not None
        sig['axis_none'] = c['axis'] is None
        sig['builtins'] = bool(c.get('builtins'))
        ref = res.get('ref') or {}
        sig['zero_contrib'] = (ref.get('nred') == 0)
        sig['zero_size_result'] = ('shape' in ref and prod(ref['shape']) == 0)
        sig['mask_rep'] = 'bool' if isinstance(c['mask'], bool) else 'array'
    return sig


def load_proposed(ctx):
    """Known entries proposed by this check but not yet merged into known_findings.jsonl."""
    path = os.path.join(lib.VERIF, 'proposed_findings', 'C13.jsonl')
    have = set(f.get('id') for f in ctx.findings)
    if os.path.exists(path):
        for line in open(path):
            line = line.strip()
            if line and not line.startswith('#'):
                f = json.loads(line)
                if f.get('id') not in have:
                    ctx.findings.append(f)


def run(ctx):
    Pm = P()
    # (proposed findings are merged into known_findings.jsonl at integration; nothing is loaded here)
    ctx.rule = ('structural space = all 156 leading shapes of rank<=3 with axis lengths 0-4 x '
                '{sum mean max min argmax argmin median any all sort} x every axis argument '
                '(None, each +-int, every tuple of distinct axes incl. negative/permuted forms and (), '
                'illegal: out of range, duplicates); thorough enumerates it twice with seeded data '
                '(int/float, ties, +-inf / int64 extremes for order operations) and mask pattern '
                '(False True all-False all-True mixed broadcast-view whole-slices one-unmasked '
                'single-masked); quick = exhaustive 1-D core (length<=3 over 4 values x masked) + '
                'all shape-() points + 5000 seeded points of the same space; Vector/Pair/Matrix item-wise sum/mean, '
                'derivatives (with the parent mask), Boolean.sum, builtins=True, '
                'Scalar.maximum/minimum with 1-3 broadcastable candidates; non-trivial = at least '
                'one masked operand element')
    ctx.assumptions = [
        'float data are halves k/2 with |k|<=8 or +-inf, mapped order-isomorphically to Z (2x, +-2^40); '
        'NaN is outside the model',
        'sum/mean/median cases with non-finite data are checked by the oracle only (Z model has no inf-inf)',
        'float means are compared with tolerance 2^-40 (summation order not modelled), everything else exactly',
        'derivatives carry the same mask as their parent (what arithmetic produces)',
        'argmax/argmin/sort take None or one integer axis (as numpy.ma)']
    if ctx.ensure_library():
        ctx.prove(['theories/Props/C13.v'])
        ctx.loops_obligations()        # regenerated from the current source: see coq/obl/Lp_C13.v
    cases = gen_cases(ctx.rng, ctx.tier)
    ctx.log('generated %d cases' % len(cases))
    terms, idx, bad = [], [], {}
    ma_bad = []
    for i, c in enumerate(cases):
        res = run_case(c, Pm)
        small = c if len(str(c)) < 700 else {'kind': c['kind'], 'op': c['op'], 'shape': c.get('shape')}
        ctx.note_case(small, nontrivial(c))
        ctx.count('op:' + c['op'])
        if c['kind'] != 'mm':
            ctx.count('rank:%d' % len(c['shape']))
            ctx.count('mask:' + str(c.get('pat')))
            ctx.count('cls:' + c['cls'])
            ctx.count('dtype:' + c['dtype'])
            if prod(c['shape']) == 0:
                ctx.count('zero_size')
            if c.get('builtins'):
                ctx.count('builtins')
            if c.get('derivs'):
                ctx.count('with_derivs')
        if 'exc' in res['impl']:
            ctx.count('exc:' + res['impl']['exc'][0])
        if res.get('ma'):
            ma_bad.append((c, res))
        aspect = compare(res['impl'], res.get('ref'), c['op'])
        if aspect:
            bad[i] = (c, res, aspect)
        if res['coq'] is not None:
            terms.append('(%s, %s)' % (res['coq'], coq_obs(res['impl'], res.get('dtype', 'int'),
                                                           out_dtype(c, res))))
            idx.append(i)
    ctx.traces = len(terms)
    for i, (c, res, aspect) in bad.items():
        ctx.fail(signature(c, res, aspect), c,
                 {'impl': res['impl'], 'reference': res.get('ref'), 'failing_aspect': aspect})
    if ma_bad:
        c, res = ma_bad[0]
        ctx.broken_tie('oracle', 'reference-vs-numpy.ma',
                       {'n': len(ma_bad), 'first_case': c, 'aspect': res['ma'], 'reference': res['ref']})
    mism = ctx.coq_eval_shards('cases', HEADER, terms, lambda x: 'mismatches %s' % x, shard=400)
    if mism:
        unexplained = [j for j in mism if idx[j] not in bad]
        if len(unexplained) < len(mism):
            ctx.concrete_found.add('model-vs-impl')
        if unexplained:
            j = unexplained[0]
            c = cases[idx[j]]
            res = run_case(c, Pm)
            shown = ctx.coq_show(HEADER, 'run13 %s' % res['coq'])
            ctx.broken_tie('correspondence', 'model-vs-impl',
                           {'n_mismatch': len(unexplained), 'first_case': c, 'impl': res['impl'],
                            'model': shown})
    ctx.cov['correspondence_mismatches'] = len(mism or [])
    ctx.cov['reference_vs_numpy_ma_disagreements'] = len(ma_bad)
    ctx.exhaustive = True
    return ctx.finish()


def replay(path):
    Pm = P()
    d = json.load(open(path))
    if 'case' not in d:
        print(json.dumps(d, indent=1)[:3000])
        return 1
    c = d['case']
    res = run_case(c, Pm)
    aspect = compare(res['impl'], res.get('ref'), c['op'])
    print('case      :', c)
    print('impl      :', res['impl'])
    print('reference :', res.get('ref'))
    print('property holds on this case' if not aspect else 'property FAILS on this case (%s)' % aspect)
    return 0 if not aspect else 1
