"""C17 - shrinking to an antimask and unshrinking afterwards does not change any result.

Direct oracle (the property): an element-wise expression evaluated (a) directly, (b) on
operands shrunk by a common antimask and unshrunk afterwards, under each setting of the
switches _DISABLE_SHRINKING, DISABLE_CACHE, _IGNORE_UNSHRUNK_AS_CACHED, must agree at every
element the antimask selects: mask state, value, derivatives.  unshrink(shrink(x)) must
reproduce x there.  Correspondence: the Coq model of shrink/unshrink/eval (C17Model.v) on the
model's sub-space (1-D antimask; operands shapeless or of the antimask's shape; integers)."""
import itertools
import warnings

import numpy as np

from . import lib
from .lib import cbool, cnat, cZ, clist

HEADER = 'From Coq Require Import List ZArith Bool.\nFrom PM Require Import C17Model.\nImport ListNotations.\n'


def P():
    lib.setup_impl_path()
    import polymath
    return polymath


# ---------------------------------------------------------------------------
# expressions
# ---------------------------------------------------------------------------
def gen_expr(rng, depth, nleaf):
    if depth == 0 or rng.random() < 0.25:
        if rng.random() < 0.15:
            return ['const', rng.choice([0, 1, -2, 3])]
        return ['leaf', rng.randrange(nleaf)]
    if rng.random() < 0.3:
        return ['un', rng.choice(['neg', 'abs']), gen_expr(rng, depth - 1, nleaf)]
    return ['bin', rng.choice(['add', 'sub', 'mul']), gen_expr(rng, depth - 1, nleaf), gen_expr(rng, depth - 1, nleaf)]


# the wider alphabet of the direct oracle (not in the Coq model): quotients, math functions, comparisons, Boolean
# and three-valued operators (seeded change C17-H: tvl_and took a fully masked shrunk operand for an unmasked one)
NUM_UN = ['neg', 'abs', 'sin', 'sq', 'mw_lt_keep', 'mw_ge_keep', 'clip_keep', 'mw_eq_repl', 'int_clip']
NUM_BIN = ['add', 'sub', 'mul', 'div', 'maximum']
CMP = ['lt', 'le', 'gt', 'eq', 'ne', 'tvl_lt', 'tvl_eq', 'tvl_ne']
BOOL_BIN = ['and', 'or', 'xor', 'tvl_and', 'tvl_or']


def gen_num(rng, depth, nleaf):
    if depth == 0 or rng.random() < 0.25:
        if rng.random() < 0.15:
            return ['const', rng.choice([0, 1, -2, 3])]
        return ['leaf', rng.randrange(nleaf)]
    if rng.random() < 0.3:
        return ['un', rng.choice(NUM_UN), gen_num(rng, depth - 1, nleaf)]
    return ['bin', rng.choice(NUM_BIN), gen_num(rng, depth - 1, nleaf), gen_num(rng, depth - 1, nleaf)]


def gen_bool(rng, depth, nleaf):
    if depth <= 1 or rng.random() < 0.3:
        return ['bin', rng.choice(CMP), ['leaf', rng.randrange(nleaf)], gen_num(rng, max(depth - 1, 0), nleaf)]
    if rng.random() < 0.2:
        return ['un', 'not', gen_bool(rng, depth - 1, nleaf)]
    return ['bin', rng.choice(BOOL_BIN), gen_bool(rng, depth - 1, nleaf), gen_bool(rng, depth - 1, nleaf)]


def all_exprs(depth, nleaf):
    if depth == 0:
        return [['leaf', i] for i in range(nleaf)] + [['const', 2]]
    sub = all_exprs(depth - 1, nleaf)
    out = list(sub)
    for s in sub:
        out.append(['un', 'neg', s])
    for a in sub:
        for b in sub:
            for op in ('add', 'mul'):
                out.append(['bin', op, a, b])
    return out


def eval_expr(e, env):
    k = e[0]
    if k == 'leaf':
        return env[e[1]]
    if k == 'const':
        return e[1]
    if k == 'un':
        x = eval_expr(e[2], env)
        if e[1] in ('neg', 'abs'):
            return -x if e[1] == 'neg' else abs(x)
        x = _q(x)
        return {'sin': lambda: x.sin(), 'sq': lambda: x * x, 'not': lambda: x.logical_not(),
                # replacement without re-masking: what was masked before stays masked (seeded change C17-M)
                'mw_lt_keep': lambda: x.mask_where_lt(0, replace=7, remask=False),
                'mw_ge_keep': lambda: x.mask_where_ge(1, replace=-7, remask=False),
                'clip_keep': lambda: x.clip(-1, 1, remask=False), 'mw_eq_repl': lambda: x.mask_where_eq(0, replace=1),
                'int_clip': lambda: x.wod.int(top=3, clip=True)}[e[1]]()
    a, b = eval_expr(e[2], env), eval_expr(e[3], env)
    if e[1] in ('add', 'sub', 'mul'):
        return a + b if e[1] == 'add' else (a - b if e[1] == 'sub' else a * b)
    a = _q(a)
    import operator
    plain = {'div': operator.truediv, 'lt': operator.lt, 'le': operator.le, 'gt': operator.gt, 'eq': operator.eq,
             'ne': operator.ne, 'and': operator.and_, 'or': operator.or_, 'xor': operator.xor}
    if e[1] in plain:
        r = plain[e[1]](a, b)
        return r if not isinstance(r, (bool, np.bool_)) else P().Boolean(bool(r))
    if e[1] == 'maximum':
        return P().Scalar.maximum(a, b)
    return getattr(a, e[1])(b)                    # tvl_lt, tvl_eq, tvl_ne, tvl_and, tvl_or


def _q(x):
    Pm = P()
    return x if isinstance(x, Pm.Qube) else Pm.Scalar(x)


def coq_expr(e):
    k = e[0]
    if k == 'leaf':
        return '(Leaf %s)' % cnat(e[1])
    if k == 'const':
        return '(Const %s)' % cZ(e[1])
    if k == 'un':
        return '(Un %s %s)' % ('UNeg' if e[1] == 'neg' else 'UAbs', coq_expr(e[2]))
    return '(Bin %s %s %s)' % ({'add': 'BAdd', 'sub': 'BSub', 'mul': 'BMul'}[e[1]], coq_expr(e[2]), coq_expr(e[3]))


# ---------------------------------------------------------------------------
# operands and antimasks
# ---------------------------------------------------------------------------
def gen_operand(rng, lead, n, with_deriv, float_vals):
    """lead: extra leading axes ((), or (2,)); n: length of the antimask axis or None for shapeless"""
    shape = tuple(lead) + ((n,) if n is not None else ())
    cnt = int(np.prod(shape)) if shape else 1
    vals = [rng.randrange(-3, 4) for _ in range(cnt)]
    r = rng.random()
    if r < 0.25:
        mask = False
    elif r < 0.35:
        mask = True
    else:
        mask = [rng.random() < 0.35 for _ in range(cnt)]
        if not shape:
            mask = mask[0]
    d = {'shape': list(shape), 'vals': vals, 'mask': mask, 'deriv': bool(with_deriv), 'float': bool(float_vals)}
    if with_deriv and rng.random() < 0.4:
        d['ddenom'] = [2]          # the derivative has a denominator axis (seeded change C17-L: masked_single lost it)
    if with_deriv and shape and rng.random() < 0.5:
        # the derivative is masked at elements where its parent is not (as d sqrt(u)/dt at u = 0): seeded change C17-D
        d['dmask'] = [rng.random() < 0.3 for _ in range(cnt)]
    return d


def build(d, Pm):
    shape = tuple(d['shape'])
    dt = float if d['float'] or d['deriv'] else int
    if shape:
        v = np.array(d['vals'], dtype=dt).reshape(shape)
        m = d['mask'] if isinstance(d['mask'], bool) else np.array(d['mask'], bool).reshape(shape)
    else:
        v = dt(d['vals'][0])
        m = bool(d['mask'])
    x = Pm.Scalar(v, m)
    if d['deriv']:
        dv = (np.array(d['vals'], dtype=float).reshape(shape) * 0.5 + 1.) if shape else 1.5
        dm = False
        if d.get('dmask') and shape:
            dm = np.array(d['dmask'], bool).reshape(shape) | np.broadcast_to(np.asarray(m), shape)
        if d.get('ddenom'):
            dv = np.stack([np.asarray(dv, dtype=float), np.asarray(dv, dtype=float) * -2. + 0.25], axis=-1)
            x.insert_deriv('t', Pm.Scalar(dv, dm, drank=1))
        else:
            x.insert_deriv('t', Pm.Scalar(dv, dm))
    return x


def gen_antimask(rng, shape):
    r = rng.random()
    if r < 0.08:
        return True
    if r < 0.16:
        return False
    n = int(np.prod(shape))
    if r < 0.26:
        bits = [True] * n
    elif r < 0.34:
        bits = [False] * n
    elif r < 0.46:
        bits = [False] * n
        bits[rng.randrange(n)] = True
    else:
        bits = [rng.random() < 0.5 for _ in range(n)]
    return {'shape': list(shape), 'bits': bits}


def am_array(am):
    if isinstance(am, bool):
        return am
    return np.array(am['bits'], bool).reshape(am['shape'])


def obs_selected(r, am, full_shape, Pm):
    """per selected position of the broadcast shape: None if masked else value; + derivative likewise"""
    if not isinstance(r, Pm.Qube):
        r = Pm.Scalar(r)
    sel = np.broadcast_to(am_array(am), full_shape)
    try:
        m = np.broadcast_to(np.asarray(r._mask_), full_shape)
        v = np.broadcast_to(np.asarray(r._values_), full_shape)
    except ValueError:
        return ('shape-error', list(r.shape))
    out = [None if mm else float(vv) for vv, mm, ss in zip(v.ravel(), m.ravel(), sel.ravel()) if ss]
    ders = {}
    for k, d in sorted(r.derivs.items()):
        den = tuple(d._denom_)
        try:
            dv = np.broadcast_to(np.asarray(d._values_), tuple(full_shape) + den).reshape((-1, int(np.prod(den)) if den else 1))
            dm = np.broadcast_to(np.asarray(d._mask_), full_shape)
        except ValueError:
            return ('deriv-shape-error', k, list(np.shape(d._values_)), list(den))
        ders[k] = [list(den)] + [None if (mm or dmm) else [float(y) for y in x] for x, mm, dmm, ss in
                                 zip(dv, m.ravel(), dm.ravel(), sel.ravel()) if ss]
    return (out, ders)


def run_variants(c, Pm):
    """-> dict name -> observation on the selected positions (or ('exc', name, site))"""
    Q = Pm.Qube
    am = c['am']
    full_shape = tuple(c['full_shape'])
    res = {}
    saved = (Q._DISABLE_SHRINKING, Q.DISABLE_CACHE, Q._IGNORE_UNSHRUNK_AS_CACHED)

    def attempt(name, fn):
        try:
            with warnings.catch_warnings():
                warnings.simplefilter('error')
                res[name] = fn()
        except Exception as e:
            res[name] = ('exc',) + lib.exc_family(e)
    try:
        env = [build(d, Pm) for d in c['env']]
        attempt('direct', lambda: obs_selected(eval_expr(c['expr'], env), am, full_shape, Pm))
        for name, (ds, dc, ig) in (('shrunk', (False, False, False)), ('disabled', (True, False, False)),
                                   ('nocache', (False, True, False)), ('ignore_unshrunk', (False, False, True))):
            Q._DISABLE_SHRINKING, Q.DISABLE_CACHE, Q._IGNORE_UNSHRUNK_AS_CACHED = ds, dc, ig

            def go():
                env2 = [build(d, Pm) for d in c['env']]
                a = am_array(am)
                shr = [x.shrink(a) for x in env2]
                r = eval_expr(c['expr'], shr)
                if not isinstance(r, Pm.Qube):
                    r = Pm.Scalar(r)
                u = r.unshrink(a)
                return obs_selected(u, am, full_shape, Pm)
            attempt(name, go)
        Q._DISABLE_SHRINKING, Q.DISABLE_CACHE, Q._IGNORE_UNSHRUNK_AS_CACHED = saved
        # round trip of each operand
        def rt():
            out = []
            for d in c['env']:
                x = build(d, Pm)
                a = am_array(am)
                out.append((obs_selected(x.shrink(a).unshrink(a), am, full_shape, Pm),
                            obs_selected(x, am, full_shape, Pm)))
            return out
        attempt('roundtrip', rt)
    finally:
        Q._DISABLE_SHRINKING, Q.DISABLE_CACHE, Q._IGNORE_UNSHRUNK_AS_CACHED = saved
    return res


# ---- element-wise methods of the item classes (Vector, Pair, Matrix) -------------------------------------------------
ITEM_OPS = {
    'Vector': [('norm', lambda x: x.norm()), ('unit', lambda x: x.unit()), ('dot_self', lambda x: x.dot(x)),
               ('norm_sq', lambda x: x.norm_sq()), ('to_scalar0', lambda x: x.to_scalar(0)),
               ('element_mul', lambda x: x.element_mul(x))],
    'Pair': [('norm', lambda x: x.norm()), ('swapxy', lambda x: x.swapxy()), ('rot90', lambda x: x.rot90()),
             ('angle', lambda x: x.angle())],
    'Matrix': [('is_diagonal_0', lambda x: x.is_diagonal()), ('is_diagonal_d', lambda x: x.is_diagonal(delta=0.01)),
               ('is_diagonal_D', lambda x: x.is_diagonal(delta=1e-4)), ('transpose', lambda x: x.transpose()),
               ('mul_self', lambda x: x * x), ('inverse', lambda x: x.inverse())],
}


def item_cases(rng, tier):
    out = []
    nper = 6 if tier == 'quick' else 60
    for cls, ops in sorted(ITEM_OPS.items()):
        for op, _ in ops:
            for k in range(nper):
                out.append({'kind': 'item', 'cls': cls, 'op': op, 'n': rng.choice([3, 4, 6]), 'seed': rng.randrange(2 ** 31),
                            'masked': k % 2 == 1, 'layout': ('far', 'near', 'plain')[k % 3]})
    return out


def item_check(c, Pm):
    """op(x) at the selected elements == unshrink(op(shrink(x))) there, under all switch settings; the elements that
    the antimask leaves out are of a very different magnitude (seeded change C17-N: Matrix.is_diagonal(delta) took
    its RMS over all matrices of the array)"""
    Q = Pm.Qube
    r = np.random.RandomState(c['seed'])
    n = c['n']
    item = {'Vector': (3,), 'Pair': (2,), 'Matrix': (2, 2)}[c['cls']]
    V = np.round(r.uniform(-2, 2, (n,) + item), 3)
    if c['cls'] == 'Matrix':
        V[:, 0, 1] = r.choice([0., 0.004, 0.02, 0.3], n)       # off-diagonal terms around the thresholds
        V[:, 1, 0] = r.choice([0., 0.004, 0.02], n)
        V[:, 0, 0] = np.abs(V[:, 0, 0]) + 1.
        V[:, 1, 1] = np.abs(V[:, 1, 1]) + 1.
    am = r.uniform(0, 1, n) < 0.6
    am[0], am[-1] = True, False
    if c['layout'] == 'far':
        V[~am] *= 1e6
    elif c['layout'] == 'near':
        V[~am] *= 1e-6
    mask = (r.uniform(0, 1, n) < 0.3) if c['masked'] else False
    fn = dict(ITEM_OPS[c['cls']])[c['op']]

    def observe(q):
        q = q if isinstance(q, Q) else Pm.Scalar(q)
        m = np.broadcast_to(np.asarray(q._mask_), (n,))
        v = np.broadcast_to(np.asarray(q._values_), (n,) + tuple(np.shape(q._values_))[len(q._shape_):])
        return [(None if m[i] else np.asarray(v[i], float).round(12).tolist()) for i in range(n) if am[i]]
    saved = (Q._DISABLE_SHRINKING, Q.DISABLE_CACHE, Q._IGNORE_UNSHRUNK_AS_CACHED)
    try:
        with warnings.catch_warnings():
            warnings.simplefilter('ignore')
            direct = observe(fn(getattr(Pm, c['cls'])(V.copy(), mask)))
            for name, sw in (('shrunk', (False, False, False)), ('disabled', (True, False, False)),
                             ('nocache', (False, True, False)), ('ignore_unshrunk', (False, False, True))):
                Q._DISABLE_SHRINKING, Q.DISABLE_CACHE, Q._IGNORE_UNSHRUNK_AS_CACHED = sw
                x = getattr(Pm, c['cls'])(V.copy(), mask)
                y = fn(x.shrink(am))
                y = y if isinstance(y, Q) else Pm.Scalar(y)
                got = observe(y.unshrink(am))
                if got != direct:
                    return '%s differs from the direct evaluation at the selected elements: %s vs %s' % (name, str(got)[:120], str(direct)[:120])
    except Exception as e:      # noqa
        return 'raised %s: %s' % (type(e).__name__, str(e)[:100])
    finally:
        Q._DISABLE_SHRINKING, Q.DISABLE_CACHE, Q._IGNORE_UNSHRUNK_AS_CACHED = saved
    return None


def item_part(ctx, Pm):
    for c in item_cases(ctx.rng, ctx.tier):
        prob = item_check(c, Pm)
        ctx.note_case({k: v for k, v in c.items() if k != 'seed'}, True)
        ctx.count('item_class_op:%s.%s' % (c['cls'], c['op']))
        if prob:
            ctx.fail({'kind': 'item', 'cls': c['cls'], 'op': c['op'], 'problem': prob.split(' differs')[0][:40]}, c, {'problem': prob})


def gen_cases(rng, tier):
    cases = []
    # model sub-space, exhaustive core: n <= 3, 2 leaves, all antimasks, all depth-1 expressions
    exprs1 = all_exprs(1, 2)
    ncore = 2 if tier == 'quick' else 3
    for n in range(1, ncore + 1):
        for bits in itertools.product([False, True], repeat=n):
            for e in exprs1:
                for shapes in itertools.product([None, n], repeat=2):
                    env = [gen_operand(rng, (), s, False, False) for s in shapes]
                    cases.append({'am': {'shape': [n], 'bits': list(bits)}, 'full_shape': [n], 'env': env,
                                  'expr': e, 'model': True})
    for amb in (True, False):
        for e in exprs1[:6]:
            env = [gen_operand(rng, (), s, False, False) for s in (3, None)]
            cases.append({'am': amb, 'full_shape': [3], 'env': env, 'expr': e, 'model': True})
    # every unary operation of the wider alphabet on one operand that is masked as a whole by the single value True, by
    # an array of True, partly, or not at all - under antimasks that select all, some or one of its elements
    for op in NUM_UN:
        for mk in (True, [True] * 4, [False, True, False, True], False):
            for bits in ([True] * 4, [True, False, True, False], [False, True, False, False]):
                env = [{'shape': [4], 'vals': [-2, 0, 1, 3], 'mask': mk, 'deriv': op in ('neg', 'abs', 'sin', 'sq'), 'float': True}]
                cases.append({'am': {'shape': [4], 'bits': bits}, 'full_shape': [4], 'env': env,
                              'expr': ['un', op, ['leaf', 0]], 'model': False})
    nrand = 3000 if tier == 'quick' else 20000
    for _ in range(nrand):
        n = rng.randrange(1, 6)
        nleaf = rng.randrange(1, 4)
        model = rng.random() < 0.5
        if model:
            env = [gen_operand(rng, (), rng.choice([None, n, n]), False, False) for _ in range(nleaf)]
            am = gen_antimask(rng, (n,))
            full = [n]
        else:
            # operands with more / fewer axes than the antimask, derivatives, floats
            amshape = rng.choice([(n,), (2, n)])
            full = list(rng.choice([amshape, (2,) + tuple(amshape)]) if rng.random() < 0.4 else amshape)
            env = []
            for _k in range(nleaf):
                r = rng.random()
                if r < 0.2:
                    shp = ()
                elif r < 0.5:
                    shp = tuple(amshape)
                elif r < 0.7:
                    shp = (amshape[-1],)
                else:
                    shp = tuple(full)
                d = gen_operand(rng, shp[:-1] if shp else (), shp[-1] if shp else None,
                                rng.random() < 0.3, rng.random() < 0.5)
                env.append(d)
            if not any(tuple(d['shape']) == tuple(full) for d in env):
                full = list(np.broadcast_shapes(*[tuple(d['shape']) for d in env], tuple(amshape)))
            am = gen_antimask(rng, amshape)
            # an antimask that selects only elements at which the first operand is masked: that operand shrinks to a
            # single masked value while the others keep their arrays
            m0 = env[0]['mask']
            if rng.random() < 0.3 and isinstance(m0, list) and any(m0) and tuple(env[0]['shape']) == tuple(amshape):
                am = {'shape': list(amshape), 'bits': [bool(b) for b in m0]}
        if model:
            expr = gen_expr(rng, rng.randrange(1, 4), nleaf)
        else:
            r = rng.random()
            expr = (gen_expr(rng, rng.randrange(1, 4), nleaf) if r < 0.3 else
                    gen_num(rng, rng.randrange(1, 4), nleaf) if r < 0.6 else gen_bool(rng, rng.randrange(1, 4), nleaf))
        cases.append({'am': am, 'full_shape': full, 'env': env, 'expr': expr, 'model': model})
    return cases


def coq_obj(d):
    sh = bool(d['shape'])
    n = len(d['vals'])
    mask = d['mask'] if isinstance(d['mask'], list) else [d['mask']] * n
    return '(of_lists %s %s %s)' % (cbool(sh), clist([cZ(v) for v in d['vals']], 'Z'), clist([cbool(b) for b in mask], 'bool'))


def coq_am(am):
    if isinstance(am, bool):
        return '(AS %s)' % cbool(am)
    return '(AA %s)' % clist([cbool(b) for b in am['bits']], 'bool')


def coq_obsl(o):
    return clist(['None' if v is None else '(Some %s)' % cZ(int(v)) for v in o[0]], '(option Z)')


def nontrivial(c):
    return (not isinstance(c['am'], bool)) and any(c['am']['bits']) and not all(c['am']['bits']) and \
        any(d['mask'] is True or (isinstance(d['mask'], list) and any(d['mask'])) for d in c['env'])


def run(ctx):
    Pm = P()
    ctx.rule = ('exhaustive core (antimask length <= 2 quick / 3 thorough, every antimask, every depth-1 expression over '
                '2 leaves, shapeless/shaped operands) + seeded expressions of depth 1-3 over 1-3 operands: antimasks '
                'all True / all False / single True / random / scalar True / False; operands shapeless, of the '
                'antimask shape, with fewer or more axes, fully masked, with derivatives; five evaluations per case '
                '(direct, shrunk+unshrunk, shrinking disabled, cache disabled, cached unshrunk ignored) + the round '
                'trip of each operand; non-trivial = mixed antimask and a masked operand element')
    ctx.assumptions = ['the Coq model covers a 1-D antimask with operands that are shapeless or have its shape, integer '
                       'values, no derivatives; the other cases are decided by the direct oracle only']
    if ctx.ensure_library():
        ctx.prove(['theories/Props/C17.v'])
        ctx.effects_obligations()      # regenerated from the current source: see coq/obl/Eff_C17.v
    item_part(ctx, P())
    cases = gen_cases(ctx.rng, ctx.tier)
    terms, tidx = [], []
    for ci, c in enumerate(cases):
        res = run_variants(c, Pm)
        ctx.note_case(c if len(str(c)) < 700 else {'am': c['am'], 'expr': c['expr']}, nontrivial(c))
        ctx.count('am:' + ('scalar' if isinstance(c['am'], bool) else 'array'))
        ctx.count('model' if c['model'] else 'wide')
        d = res.get('direct')
        sig0 = {'am_scalar': isinstance(c['am'], bool), 'model_space': c['model']}
        if isinstance(d, tuple) and d and d[0] == 'exc':
            ctx.count('direct-raises:' + d[1])
            continue            # the expression itself is rejected (e.g. incompatible shapes): nothing to compare
        for name in ('shrunk', 'disabled', 'nocache', 'ignore_unshrunk'):
            r = res.get(name)
            if r != d:
                what = 'exception' if (isinstance(r, tuple) and r and r[0] == 'exc') else \
                    ('derivs' if (isinstance(r, tuple) and r[0] == d[0]) else 'values-or-mask')
                sig = dict(sig0, variant=name, what=what)
                if what == 'exception':
                    sig['exc'] = r[1]
                    sig['site'] = r[2]
                ctx.fail(sig, c, {'direct': d, name: r})
        rt = res.get('roundtrip')
        if isinstance(rt, tuple) and rt and rt[0] == 'exc':
            ctx.fail(dict(sig0, variant='roundtrip', what='exception', exc=rt[1], site=rt[2]), c, {'roundtrip': rt})
        elif rt:
            for k, (a, b) in enumerate(rt):
                if a != b:
                    ctx.fail(dict(sig0, variant='roundtrip', what='values-or-mask'), c, {'operand': k, 'roundtrip': a, 'original': b})
        if c['model'] and all(isinstance(res.get(n), tuple) and res[n] and res[n][0] != 'exc' and res[n][0] != 'shape-error'
                              for n in ('direct', 'shrunk', 'disabled')):
            n = c['full_shape'][0]
            terms.append('(mkc17 %s %s %s %s, (%s, %s, %s))' % (
                coq_am(c['am']), cnat(n), clist([coq_obj(x) for x in c['env']], 'sobj'), coq_expr(c['expr']),
                coq_obsl(res['direct']), coq_obsl(res['shrunk']), coq_obsl(res['disabled'])))
            tidx.append(ci)
    ctx.traces = len(terms)
    mism = ctx.coq_eval_shards('cases', HEADER, terms, lambda x: 'mismatches %s' % x, shard=300)
    if mism:
        c = cases[tidx[mism[0]]]
        ctx.broken_tie('correspondence', 'shrink-model-vs-impl',
                       {'n_mismatch': len(mism), 'first_case': c, 'impl': {k: v for k, v in run_variants(c, Pm).items()},
                        'model': ctx.coq_show(HEADER, 'let c := fst (%s) in (run_direct c, run_shrunk c, run_disabled c)' % terms[mism[0]])})
    ctx.cov['correspondence_mismatches'] = len(mism or [])
    ctx.exhaustive = True
    return ctx.finish()


def replay(path):
    import json
    Pm = P()
    d = json.load(open(path))
    if 'case' not in d:
        print(json.dumps(d, indent=1)[:4000])
        return 1
    if d['case'].get('kind') == 'item':
        prob = item_check(d['case'], Pm)
        print(d['case'], '->', prob or 'ok')
        print('property FAILS on this case' if prob else 'property holds on this case')
        return 1 if prob else 0
    res = run_variants(d['case'], Pm)
    for k, v in res.items():
        print('%-16s %s' % (k, v))
    ok = all(res.get(n) == res.get('direct') for n in ('shrunk', 'disabled', 'nocache', 'ignore_unshrunk'))
    rt = res.get('roundtrip')
    ok = ok and isinstance(rt, list) and all(a == b for a, b in rt)
    print('property holds on this case' if ok else 'property FAILS on this case')
    return 0 if ok else 1
