"""C06 - derivatives carried through any computation equal the true derivative.

Stages
  R  tools/regen/tracer_c06.py (own process: it patches polymath for tracing) runs the CURRENT
     source on symbolic operands carrying symbolic derivatives and writes
     coq/gen/Gen_kern_C06_*.v (f_val, f_der) + coq/gen/obl/C06_*.v (obligations); every emitted
     term, evaluated from its expression tree at the seed point, must reproduce what the
     unpatched implementation computes there (values AND carried derivatives), and the
     structure of every derivative (class, numerator, denominator, key set) must agree.
  P  coqc: Props/C06.v (chain rule over trees, linearity, missing key, key sets, inverse) and
     every generated obligation file, in parallel, under timeout.  A broken one is reported as a
     broken tie and the numeric search concentrates on the families that use that kernel.
  K+S the property's own metamorphic oracle on the unpatched implementation: for random
     expression trees (depth <= 4) over the differentiable API, central finite differences with
     Richardson extrapolation, obtained by re-running the same tree on operands displaced along
     their own derivatives, against the carried derivative at every unmasked element; plus the
     structure of the result's derivatives and the recursive=False / wod / without_derivs forms.
"""
import json
import math
import os
import subprocess
import sys
import time
import warnings
from concurrent.futures import ThreadPoolExecutor

import numpy as np

from . import lib

GEN = lib.GEN
OBL = os.path.join(GEN, 'obl')
GENFLAGS = ['-R', GEN, 'PMGen']
KEYS = ['t', 'u']


def P():
    lib.setup_impl_path()
    import polymath
    return polymath


def close(v, w, rtol=1e-9, atol=1e-12):
    if isinstance(v, float) and isinstance(w, float) and math.isnan(v) and math.isnan(w):
        return True
    return abs(v - w) <= atol + rtol * max(abs(v), abs(w))


# ---------------------------------------------------------------------------
# stage R
# ---------------------------------------------------------------------------
def regenerate(ctx, Pm):
    for d in (GEN, OBL):
        os.makedirs(d, exist_ok=True)
    sys.path.insert(0, lib.VERIF)
    from tools.regen import tracer_c06 as TC
    for f in os.listdir(GEN):
        if f.lstrip('.').startswith('Gen_kern_C06_'):
            try:
                os.remove(os.path.join(GEN, f))
            except OSError:
                pass
    for f in os.listdir(OBL):
        if f.lstrip('.').startswith('C06_'):
            try:
                os.remove(os.path.join(OBL, f))
            except OSError:
                pass
    env = dict(os.environ)
    env['VERIF_REPO'] = lib.REPO
    env['VERIF_GEN'] = lib.GEN
    env['VERIF_BUILD'] = lib.BUILD
    env['PYTHONPATH'] = lib.VERIF
    t0 = time.time()
    p = subprocess.run([sys.executable, '-m', 'tools.regen.tracer_c06'], cwd=lib.VERIF, env=env,
                       stdout=subprocess.PIPE, stderr=subprocess.STDOUT, text=True, timeout=900)
    mpath = os.path.join(ctx.dir, 'trace_manifest.json')
    if p.returncode != 0 or not os.path.exists(mpath):
        ctx.obligations.append(('regenerate-kernels', False, p.stdout[-1500:]))
        ctx.broken_tie('regeneration', 'tracer', p.stdout[-2000:])
        return None
    man = json.load(open(mpath))
    ctx.log('R: %s in %.1fs' % (p.stdout.strip().splitlines()[-1], time.time() - t0))
    fns = {name: fn for name, fn, _ in TC.KERNELS}
    n_ok = 0
    for k in man['kernels']:
        name = k['name']
        if 'error' in k:
            ctx.obligations.append(('trace:' + name, False, k['error']))
            ctx.broken_tie('regeneration', 'trace:' + name, k['error'] + '\n' + k.get('traceback', ''))
            continue
        problems = []
        if k['sanity_bad']:
            problems.append('expression tree does not reproduce the traced concrete values: %s' % k['sanity_bad'][:3])
        if k['closed_conditions']:
            problems.append('the seed point is not in an open domain: %s' % k['closed_conditions'][:3])
        try:
            with warnings.catch_warnings():
                warnings.simplefilter('ignore')
                io = TC.run_float(name, fns[name], Pm)
            if len(io.outputs) != len(k['outputs']):
                problems.append('output count differs: %d vs %d' % (len(io.outputs), len(k['outputs'])))
            else:
                for (g, idx, _, v), (g2, idx2, w, _v2) in zip(io.outputs, k['outputs']):
                    if g != g2 or list(idx) != list(idx2) or not close(v, w):
                        problems.append('%s%s: implementation %r, emitted term %r' % (g, idx, v, w))
                        break
            if io.masks != k['masks']:
                problems.append('masks differ: %r vs %r' % (io.masks, k['masks']))
            if json.loads(json.dumps(io.structure)) != k['structure']:
                problems.append('derivative structure differs: %r vs %r' % (io.structure, k['structure']))
            for g, st in io.structure.items():
                if 'nested' in st:
                    vg = 'v' if g in ('db', 'dl', 'dr', 'du') else ('w' if g == 'dw' else 'v' + g[1:])
                    rs = io.structure.get(vg)
                    if st['nested']:
                        problems.append('%s: a derivative carries derivatives' % g)
                    if rs and (st['numer'] != rs['numer'] or st['denom'] != rs['denom'] + list(io.denom)):
                        problems.append('%s: derivative numer/denom %s/%s, result %s/%s, source denominator %s'
                                        % (g, st['numer'], st['denom'], rs['numer'], rs['denom'], list(io.denom)))
        except Exception as e:      # noqa
            problems.append('float run failed: %s: %s' % (type(e).__name__, e))
        ok = not problems
        n_ok += ok
        ctx.obligations.append(('sanity:' + name, ok, '; '.join(problems)[:500]))
        if not ok:
            ctx.broken_tie('regeneration', 'sanity:' + name, '; '.join(problems))
    ctx.traces = n_ok
    ctx.cov['kernels_traced'] = len(man['kernels'])
    ctx.cov['irrational_constants_recognised'] = sorted({c for k in man['kernels']
                                                          for c in k.get('irrational_constants', [])})
    ctx.cov['obligations_partial'] = {k['name']: {'reason': k['partial'], 'not_proved': k['skipped_lemmas']}
                                      for k in man['kernels'] if k.get('partial')}
    ctx.cov['domain_guards_added_to_path'] = {k['name']: k['guards'] for k in man['kernels'] if k.get('guards')}
    return man


# ---------------------------------------------------------------------------
# stage P
# ---------------------------------------------------------------------------
def compile_generated(ctx, man, timeout):
    kernels = [k for k in man['kernels'] if 'error' not in k]
    broken = []

    def gen_job(k):
        return k, lib.run_coqc(os.path.join(GEN, 'Gen_kern_C06_%s.v' % k['name']), timeout=120, extra=GENFLAGS)

    t0 = time.time()
    with ThreadPoolExecutor(max_workers=lib.NPROC) as ex:
        gen_res = list(ex.map(gen_job, kernels))
    bad_gen = set()
    for k, (rc, out, err, dt) in gen_res:
        if rc != 0:
            bad_gen.add(k['name'])
            ctx.obligations.append(('emit:' + k['name'], False, (err or out)[-800:]))
            ctx.broken_tie('regeneration', 'emit:' + k['name'], (err or out)[-1500:])
            broken.append(k['name'])
    jobs = []
    for k in kernels:
        if k['name'] in bad_gen:
            continue
        for fname, lemmas in k['files']:
            jobs.append((k, fname, lemmas))
    jobs.sort(key=lambda j: -j[0].get('dag_nodes', 0))

    def obl_job(j):
        k, fname, lemmas = j
        return j, lib.run_coqc(os.path.join(OBL, fname), timeout=timeout, extra=GENFLAGS)

    with ThreadPoolExecutor(max_workers=lib.NPROC) as ex:
        res = list(ex.map(obl_job, jobs))
    axioms = set()
    slow = []
    n_lem = 0
    for (k, fname, lemmas), (rc, out, err, dt) in res:
        slow.append((round(dt, 1), fname))
        if rc == 0:
            n_lem += len(lemmas)
            for l in lemmas:
                ctx.obligations.append((l, True, 'coq/gen/obl/' + fname))
            for line in out.splitlines():
                m = line.strip().split(' ')[0]
                if '.' in m and line[:1] not in (' ', '\t') and m[0].isalpha() and not m.endswith(':'):
                    axioms.add(m)
        else:
            msg = '\n'.join(l for l in (err or out).splitlines()
                            if 'not in the ideal' not in l and 'coercion' not in l and 'ambiguous-paths' not in l
                            and l.strip() != 'Warning:')[-1500:]
            failing = failing_lemma(os.path.join(OBL, fname), msg, lemmas)
            seen = False
            for l in lemmas:
                if l == failing:
                    seen = True
                ctx.obligations.append((l, not seen and failing is not None, msg if seen else ''))
            ctx.broken_tie('proof', failing or fname[:-2],
                           {'kernel': k['name'], 'lemma': failing, 'coq': msg, 'file': 'coq/gen/obl/' + fname,
                            'definitions': 'coq/gen/Gen_kern_C06_%s.v' % k['name']})
            ctx.log('OBLIGATION BROKEN %s (%s)\n%s' % (k['name'], failing, msg[-600:]))
            if k['name'] not in broken:
                broken.append(k['name'])
    ctx.axioms['generated obligations (union)'] = ' '.join(sorted(axioms))
    ctx.cov['slowest_obligation_files'] = sorted(slow, reverse=True)[:5]
    ctx.cov['generated_lemmas_proved'] = n_lem
    ctx.log('P: %d kernel files + %d obligation files (%d lemmas) in %.1fs, %d kernels broken'
            % (len(kernels), len(jobs), n_lem, time.time() - t0, len(broken)))
    return broken


def failing_lemma(path, msg, lemmas):
    import re
    ms = re.findall(r'line (\d+)', msg)
    if not ms:
        return lemmas[0] if lemmas else None
    line = int(ms[-1])
    cur = None
    for i, text in enumerate(open(path).read().splitlines(), 1):
        mm = re.match(r'Lemma (\w+)', text)
        if mm:
            cur = mm.group(1)
        if i >= line:
            break
    return cur or (lemmas[0] if lemmas else None)


# ---------------------------------------------------------------------------
# numeric part: expression trees
# ---------------------------------------------------------------------------
# value types: S scalar, V vector3, P pair, M 3x3 matrix, Q quaternion
# range classes of scalars: 'B' bounded (|x| <= ~4), 'U' |x| <= 1, 'P' positive (>= 0.4), 'A' anything
SHAPES = [(), (), (3,), (2, 3), (2, 1)]
VALS = [-2.0, -1.75, -1.5, -1.25, -1.0, -0.75, -0.5, 0.3, 0.5, 0.75, 1.0, 1.25, 1.5, 1.75, 2.0,
        -0.7, 1.1, -1.3, 0.9, -0.45, 0.6, -0.85, 1.9, 0.35]
ITEM = {'S': (), 'V': (3,), 'P': (2,), 'M': (3, 3), 'Q': (4,)}


def cls_of(Pm, ty):
    return {'S': Pm.Scalar, 'V': Pm.Vector3, 'P': Pm.Pair, 'M': Pm.Matrix, 'Q': Pm.Quaternion}[ty]


# op table: name -> (argument types, result type, needs (per scalar/vector arg): '', 'pos', 'unit', 'bnd', 'nzv',
#                    result range class, family)
OPS = {
    # scalar arithmetic
    'add': ('SS', 'S', ['', ''], 'A', 'arith'), 'sub': ('SS', 'S', ['', ''], 'A', 'arith'),
    'mul': ('SS', 'S', ['', ''], 'A', 'arith'), 'div': ('SS', 'S', ['', 'pos'], 'A', 'arith'),
    'radd': ('S', 'S', [''], 'A', 'arith'), 'rsub': ('S', 'S', [''], 'A', 'arith'),
    'rmul': ('S', 'S', [''], 'A', 'arith'), 'rdiv': ('S', 'S', ['pos'], 'A', 'arith'),
    'neg': ('S', 'S', [''], 'A', 'arith'), 'mod': ('S', 'S', ['bnd'], 'B', 'mod'),
    'pow2': ('S', 'S', ['bnd'], 'A', 'power'), 'pow3': ('S', 'S', ['bnd'], 'A', 'power'),
    'pow4': ('S', 'S', ['bnd'], 'A', 'power'), 'powm1': ('S', 'S', ['pos'], 'B', 'power'),
    'pow5': ('S', 'S', ['unit'], 'U', 'power'), 'powm2': ('S', 'S', ['pos'], 'A', 'power'),
    'powr': ('S', 'S', ['pos'], 'A', 'power'), 'powhalf': ('S', 'S', ['pos'], 'P', 'power'),
    'abs': ('S', 'S', ['pos'], 'P', 'func'), 'absneg': ('S', 'S', ['pos'], 'A', 'func'),
    'sin': ('S', 'S', ['bnd'], 'U', 'func'), 'cos': ('S', 'S', ['bnd'], 'U', 'func'),
    'tan': ('S', 'S', ['unit'], 'B', 'func'), 'arcsin': ('S', 'S', ['unit9'], 'B', 'func'),
    'arccos': ('S', 'S', ['unit9'], 'B', 'func'), 'arctan': ('S', 'S', [''], 'B', 'func'),
    'sqrt': ('S', 'S', ['pos'], 'P', 'func'), 'log': ('S', 'S', ['pos'], 'A', 'func'),
    'exp': ('S', 'S', ['unit'], 'P', 'func'), 'reciprocal': ('S', 'S', ['pos'], 'B', 'func'),
    'arctan2': ('SS', 'S', ['', 'pos'], 'B', 'arctan2'), 'arctan2b': ('SS', 'S', ['pos', ''], 'B', 'arctan2'),
    # vectors
    'dot': ('VV', 'S', ['', ''], 'A', 'vector'), 'norm': ('V', 'S', ['nzv'], 'P', 'vector'),
    'norm_sq': ('V', 'S', [''], 'A', 'vector'), 'cross': ('VV', 'V', ['', ''], '', 'vector'),
    'unit': ('V', 'V', ['nzv'], '', 'vector'), 'perp': ('VV', 'V', ['', 'nzv'], '', 'vector'),
    'proj': ('VV', 'V', ['', 'nzv'], '', 'vector'), 'sep': ('VV', 'S', ['nzv', 'nzv'], 'B', 'sep'),
    'outer': ('VV', 'M', ['', ''], '', 'vector'), 'element_mul': ('VV', 'V', ['', ''], '', 'vector'),
    'element_div': ('VV', 'V', ['', 'nzc'], '', 'vector'), 'with_norm': ('V', 'V', ['nzv'], '', 'vector'),
    'vadd': ('VV', 'V', ['', ''], '', 'vector'), 'vsub': ('VV', 'V', ['', ''], '', 'vector'),
    'vscale': ('VS', 'V', ['', ''], '', 'vector'), 'vdiv': ('VS', 'V', ['', 'pos'], '', 'vector'),
    'ucross': ('VV', 'V', ['', ''], '', 'vector'),
    'pdot': ('PP', 'S', ['', ''], 'A', 'vector'), 'pcross': ('PP', 'S', ['', ''], 'A', 'vector'),
    'pnorm': ('P', 'S', ['nzv'], 'P', 'vector'),
    # Pair-only relabelings with a sign (seeded change C06-L: rot90 negated along the denominator axis)
    'rot90': ('P', 'P', [''], '', 'vector'), 'swapxy': ('P', 'P', [''], '', 'vector'),
    'from_scalars': ('SSS', 'V', ['', '', ''], '', 'scalars'), 'to_scalar': ('V', 'S', [''], 'A', 'scalars'),
    'pair_from_scalars': ('SS', 'P', ['', ''], '', 'scalars'),
    # matrices
    'matmul': ('MM', 'M', ['', ''], '', 'matrix'), 'matvec': ('MV', 'V', ['', ''], '', 'matrix'),
    'transpose': ('M', 'M', [''], '', 'matrix'), 'inverse': ('M', 'M', ['wc'], '', 'inverse'),
    'mscale': ('MS', 'M', ['', ''], '', 'matrix'), 'madd': ('MM', 'M', ['', ''], '', 'matrix'),
    'row': ('M', 'V', [''], '', 'matrix'), 'as_matrix3': ('M', 'M', [''], '', 'relabel'), 'as_matrix': ('M', 'M', [''], '', 'relabel'),
    'as_vector3': ('V', 'V', [''], '', 'relabel'), 'as_vector': ('V', 'V', [''], '', 'relabel'),
    # rotations
    'x_rotation': ('S', 'M', ['bnd'], '', 'rotation'), 'y_rotation': ('S', 'M', ['bnd'], '', 'rotation'),
    'z_rotation': ('S', 'M', ['bnd'], '', 'rotation'), 'twovec': ('VV', 'M', ['nzv', 'nzv'], '', 'twovec'),
    'rotate': ('MV', 'V', ['', ''], '', 'rotation'), 'unrotate': ('MV', 'V', ['', ''], '', 'rotation'),
    # quaternions
    'qmul': ('QQ', 'Q', ['', ''], '', 'quaternion'), 'qconj': ('Q', 'Q', [''], '', 'quaternion'),
    'to_matrix3': ('Q', 'M', ['nzv'], '', 'to_matrix3'), 'from_parts': ('SV', 'Q', ['', ''], '', 'quaternion'),
    'to_parts_s': ('Q', 'S', [''], 'A', 'quaternion'), 'to_parts_v': ('Q', 'V', [''], '', 'quaternion'),
    'qrecip': ('Q', 'Q', ['nzv'], '', 'quaternion'),
}
# operators and methods without a recursive= option
NO_RECURSIVE_OPTION = {'add', 'sub', 'mul', 'div', 'radd', 'rsub', 'rmul', 'rdiv', 'neg', 'mod', 'pow2', 'pow3', 'pow4',
                       'powm1', 'pow5', 'powm2', 'powr', 'powhalf', 'vadd', 'madd', 'vsub', 'vscale', 'mscale', 'vdiv',
                       'matmul', 'matvec', 'qmul', 'absneg'}
# root-only relabelings / reductions (need a leading shape)
ROOT_OPS = ['sum0', 'sum_last', 'mean0', 'mean_last', 'sum_all', 'mean_all', 'index_rev', 'index_first',
            'reshape_flat', 'swap_axes', 'stack', 'index_ell',
            # axis given as a tuple / list, with negative entries (seeded change C06-C), and the other relabelings
            'sum_tneg', 'mean_tneg', 'sum_t0neg', 'mean_lneg', 'sum_tall', 'mean_tneg2', 'roll_axis', 'move_axis',
            'flatten', 'index_neg', 'index_arr']
KERNEL_FAMILY = [('add', 'arith'), ('sub', 'arith'), ('mul', 'arith'), ('div', 'arith'), ('r', 'arith'), ('neg', 'arith'),
                 ('mod', 'mod'), ('pow', 'power'), ('abs', 'func'), ('sin', 'func'), ('cos', 'func'), ('tan', 'func'),
                 ('arcsin', 'func'), ('arccos', 'func'), ('arctan2', 'arctan2'), ('arctan', 'func'), ('sqrt', 'func'),
                 ('log', 'func'), ('exp', 'func'), ('reciprocal', 'func'), ('dot', 'vector'), ('norm', 'vector'),
                 ('unit', 'vector'), ('emul', 'vector'), ('ediv', 'vector'), ('perp', 'vector'), ('proj', 'vector'),
                 ('withnorm', 'vector'), ('vec', 'vector'), ('cross', 'vector'), ('ucross', 'vector'),
                 ('outer', 'vector'), ('sep', 'sep'), ('matmul', 'matrix'), ('matvec', 'matrix'),
                 ('transpose', 'matrix'), ('matscale', 'matrix'), ('inverse', 'inverse'), ('xrot', 'rotation'),
                 ('yrot', 'rotation'), ('zrot', 'rotation'), ('axisrot', 'rotation'), ('rotate', 'rotation'),
                 ('unrotate', 'rotation'), ('twovec', 'twovec'), ('q2m', 'to_matrix3'), ('q', 'quaternion'),
                 ('sum', 'root'), ('mean', 'root'), ('index', 'root'), ('reshape', 'root'), ('from_scalars', 'scalars'),
                 ('to_scalars', 'scalars'), ('matrix_from_scalars', 'scalars'), ('comp', 'arith')]


def gen_leaf(rng, ty, leaves, shapes, keysets, denoms, share=0.0, force_axis=False):
    # the same operand object may be used several times in one expression (seeded change C06-A: a cached
    # derivative-free twin going stale shows only when an operand is reused)
    same = [i for i, l in enumerate(leaves) if l['ty'] == ty]
    if same and rng.random() < share:
        return {'leaf': rng.choice(same), 'ty': ty, 'rc': 'B', 'shared': True}
    shape = rng.choice(shapes)
    item = ITEM[ty]
    n = int(np.prod(shape + item))
    vals = [rng.choice(VALS) for _ in range(n)]
    if ty == 'M':       # keep matrices comfortably invertible
        arr = np.array(vals).reshape(shape + item) * 0.3 + 1.5 * np.eye(3)
        vals = arr.ravel().tolist()
    mask = False
    if shape and rng.random() < 0.35 and not force_axis:
        mask = [rng.random() < 0.3 for _ in range(int(np.prod(shape)))]
    derivs = {}
    for key in KEYS:
        if rng.random() < keysets[key]:
            den = denoms[key]
            derivs[key] = [rng.choice(VALS) for _ in range(n * int(np.prod(den)))]
    if ty in ('V', 'P') and (force_axis or rng.random() < 0.12):
        # vectors of length exactly one (axis vectors) whose derivatives have a component along them
        # (seeded change C06-I: unit() returned such an operand unchanged, derivative included)
        isz = int(np.prod(item))
        arr = np.zeros((n // isz if isz else 0, isz))
        for r_ in range(arr.shape[0]):
            arr[r_, rng.randrange(isz)] = rng.choice([1.0, -1.0])
        vals = arr.ravel().tolist()
    leaf = {'ty': ty, 'shape': list(shape), 'vals': vals, 'mask': mask, 'derivs': derivs}
    if not derivs and ty in ('V', 'P', 'S') and rng.random() < 0.4:
        # an integer-valued constant of the generic class (Vector rather than Vector3): the other operand's
        # derivatives must come through unharmed (seeded change C06-F: they were cast to the integer dtype)
        leaf['vals'] = [float(rng.choice([-2, -1, 1, 2, 3])) for _ in range(n)]
        leaf['intconst'] = True
    elif ty == 'V' and rng.random() < 0.35:
        # the object and its derivatives are of sibling classes (Vector3 with Vector derivatives, as x_rotation and
        # to_matrix3 produce for matrices; a plain Vector; a Vector with Vector3 derivatives): a conversion between
        # the two classes must carry the derivatives along (seeded change C06-J)
        leaf['clsmix'] = rng.choice(['v3_vec', 'vec_vec', 'vec_v3'])
    leaves.append(leaf)
    return {'leaf': len(leaves) - 1, 'ty': ty, 'rc': 'B'}


# operations that are singular (not differentiable, or 0/0) when their operands coincide or are parallel: no operand
# sharing below them, so that random trees stay inside the open domain where the property speaks
SINGULAR_ON_EQUAL = {'sep', 'cross', 'ucross', 'perp', 'proj', 'twovec', 'pcross', 'unit', 'norm', 'pnorm', 'with_norm'}


def gen_tree(rng, ty, depth, leaves, shapes, keysets, denoms, focus, share=0.35):
    if depth == 0 or (depth < 3 and rng.random() < 0.25):
        return gen_leaf(rng, ty, leaves, shapes, keysets, denoms, share=share)
    cands = [nm for nm, sp in OPS.items() if sp[1] == ty]
    if focus and rng.random() < 0.6:
        fc = [nm for nm in cands if OPS[nm][4] in focus]
        cands = fc or cands
    nm = rng.choice(cands)
    argt, rt, needs, rc, fam = OPS[nm]
    args = []
    for t, need in zip(argt, needs):
        sub = gen_tree(rng, t, depth - 1, leaves, shapes, keysets, denoms, focus,
                       share=0.0 if nm in SINGULAR_ON_EQUAL else share)
        args.append(safen(sub, t, need))
    node = {'op': nm, 'args': args, 'ty': rt, 'rc': rc}
    if nm in ('radd', 'rsub', 'rmul', 'rdiv'):
        node['c'] = rng.choice([2.5, -1.5, 0.75])
    if nm == 'mod':
        node['c'] = rng.choice([1.25, 0.7, 3.0])
    if nm == 'powr':
        node['c'] = rng.choice([1.5, -1.25, 2.75, 0.3])
    if nm in ('to_scalar', 'row'):
        node['c'] = rng.randrange(3)
    if nm == 'twovec':
        node['c'] = rng.choice([[0, 1], [1, 2], [2, 0], [1, 0], [2, 1], [0, 2]])
    if nm == 'with_norm':
        node['c'] = rng.choice([1.0, 2.5])
    return node


def wrap(op, arg, ty, rc, **kw):
    d = {'op': op, 'args': [arg], 'ty': ty, 'rc': rc, 'safe': True}
    d.update(kw)
    return d


def safen(sub, ty, need):
    """compose with a smooth map so that the operand lies in the operation's open domain"""
    rc = sub.get('rc', '')
    if need == '':
        return sub
    if ty == 'S':
        if need == 'pos':
            return sub if rc == 'P' else wrap('_possq', sub if rc in ('B', 'U') else wrap('arctan', sub, 'S', 'B'), 'S', 'P')
        if need == 'bnd':
            return sub if rc in ('B', 'U') else wrap('arctan', sub, 'S', 'B')
        if need == 'unit':
            return sub if rc == 'U' else wrap('sin', sub if rc == 'B' else wrap('arctan', sub, 'S', 'B'), 'S', 'U')
        if need == 'unit9':
            base = sub if rc == 'U' else wrap('sin', sub if rc == 'B' else wrap('arctan', sub, 'S', 'B'), 'S', 'U')
            return wrap('_scale9', base, 'S', 'U')
    if need == 'nzv':       # a vector / quaternion away from 0: add a constant offset in one component
        return wrap('_offset', sub, ty, '')
    if need == 'nzc':       # every component away from 0
        return wrap('_compsq', sub, ty, '')
    if need == 'wc':        # a well-conditioned matrix
        return wrap('_wellcond', sub, ty, '')
    return sub


def gen_case(rng, focus=()):
    # denominators of rank 0, 1 and 2 (seeded change C16-J: the quaternion product put a 2-D denominator back transposed)
    denoms = {k: rng.choice([(), (), (2,), (3,), (2, 3), (2, 2)]) for k in KEYS}
    keysets = {k: rng.choice([0.0, 0.5, 0.5, 1.0]) for k in KEYS}
    if keysets['t'] == 0.0 and keysets['u'] == 0.0:
        keysets['t'] = 0.6
    # leading shapes of one case are mutually broadcastable
    base = rng.choice([[()], [(), (3,)], [(), (2, 3), (3,)], [(2, 1), (3,), (2, 3)], [(), (2,)]])
    leaves = []
    ty = rng.choice(['S', 'S', 'S', 'V', 'V', 'M', 'Q', 'P'])
    depth = rng.choice([1, 2, 2, 3, 3, 4])
    tree = gen_tree(rng, ty, depth, leaves, base, keysets, denoms, focus)
    root = None
    if rng.random() < 0.3 and any(l['shape'] for l in leaves):
        root = rng.choice(ROOT_OPS)
    return {'tree': tree, 'leaves': leaves, 'denoms': {k: list(v) for k, v in denoms.items()}, 'root': root,
            'depth': depth}


def gen_cases(rng, tier, focus=()):
    n = 500 if tier == 'quick' else 5000
    if focus:
        n = int(n * 1.5)
    cases = [gen_case(rng, focus) for _ in range(n)]
    # a small exhaustive core: every operation once on its own with every subset of operands carrying the key
    for nm, (argt, rt, needs, rc, fam) in sorted(OPS.items()):
        for subset in range(1, 2 ** len(argt)):
            for den in ((), (2,), (2, 3)):
                leaves = []
                args = []
                for i, (t, need) in enumerate(zip(argt, needs)):
                    sub = gen_leaf(rng, t, leaves, [(), (2,)], {'t': 1.0 if subset >> i & 1 else 0.0, 'u': 0.3},
                                   {'t': den, 'u': ()})
                    args.append(safen(sub, t, need))
                node = {'op': nm, 'args': args, 'ty': rt, 'rc': rc}
                node.update({'radd': {'c': 2.5}, 'rsub': {'c': 2.5}, 'rmul': {'c': 2.5}, 'rdiv': {'c': 2.5},
                             'mod': {'c': 1.25}, 'powr': {'c': 1.5}, 'to_scalar': {'c': 1}, 'row': {'c': 2},
                             'twovec': {'c': [0, 1]}, 'with_norm': {'c': 2.5}}.get(nm, {}))
                cases.append({'tree': node, 'leaves': leaves, 'denoms': {'t': list(den), 'u': []}, 'root': None,
                              'depth': 1, 'core': True})
                if any(t in 'VP' for t in argt) and nm not in ('sep', 'twovec', 'cross', 'ucross', 'perp', 'proj', 'pcross'):
                    # the same with vectors of length exactly one, none masked, derivatives in any direction
                    leaves2, args2 = [], []
                    for i, (t, need) in enumerate(zip(argt, needs)):
                        sub = gen_leaf(rng, t, leaves2, [(), (2,)], {'t': 1.0 if subset >> i & 1 else 0.0, 'u': 0.3},
                                       {'t': den, 'u': ()}, force_axis=t in 'VP')
                        args2.append(sub if (t in 'VP' and need in ('', 'nzv')) else safen(sub, t, need))
                    node2 = dict(node, args=args2)
                    cases.append({'tree': node2, 'leaves': leaves2, 'denoms': {'t': list(den), 'u': []}, 'root': None,
                                  'depth': 1, 'core': True, 'axis_vectors': True})
    # reuse core: one Scalar operand used twice, u1(x) (*|+) u2(x), u2 an operation with a plain number, both orders
    consts = {'radd': {'c': 2.5}, 'rsub': {'c': 2.5}, 'rmul': {'c': 2.5}, 'rdiv': {'c': 2.5}, 'mod': {'c': 1.25},
              'powr': {'c': 1.5}}
    un = sorted(nm for nm, sp in OPS.items() if sp[0] == 'S' and sp[1] == 'S')
    for u1 in un:
        for u2 in ('radd', 'rsub', 'rmul', 'rdiv', 'neg', 'mod', 'pow2'):
            for order in (0, 1):
                leaves = []
                x = gen_leaf(rng, 'S', leaves, [(), (2,)], {'t': 1.0, 'u': 0.3}, {'t': (), 'u': ()})
                n1 = dict({'op': u1, 'args': [safen(dict(x), 'S', OPS[u1][2][0])], 'ty': 'S', 'rc': OPS[u1][3]}, **consts.get(u1, {}))
                n2 = dict({'op': u2, 'args': [safen(dict(x), 'S', OPS[u2][2][0])], 'ty': 'S', 'rc': OPS[u2][3]}, **consts.get(u2, {}))
                pair = [n1, n2] if order == 0 else [n2, n1]
                node = {'op': rng.choice(['mul', 'add']), 'args': pair, 'ty': 'S', 'rc': 'A'}
                cases.append({'tree': node, 'leaves': leaves, 'denoms': {'t': [], 'u': []}, 'root': None,
                              'depth': 2, 'core': True, 'reuse': True})
    return cases


# ---------------------------------------------------------------------------
# numeric part: evaluation
# ---------------------------------------------------------------------------
def build_leaf(Pm, leaf, denoms, with_derivs=True, displace=None):
    """displace = (key, j, s): values moved by s * (j-th denominator slice of d_d<key>)"""
    ty = leaf['ty']
    shape, item = tuple(leaf['shape']), ITEM[ty]
    vals = np.array(leaf['vals'], dtype=float).reshape(shape + item)
    if displace is not None:
        key, j, s = displace
        if key in leaf['derivs']:
            den = tuple(denoms[key])
            d = np.array(leaf['derivs'][key], dtype=float).reshape(shape + item + den)
            dj = d.reshape(shape + item + (-1,))[..., j] if den else d
            vals = vals + s * dj
    m = leaf['mask']
    mask = m if isinstance(m, bool) else np.array(m, bool).reshape(shape)
    if leaf.get('intconst'):
        gen = {'S': Pm.Scalar, 'V': Pm.Vector, 'P': Pm.Pair}[ty]
        return gen(vals.astype(np.int64), mask)
    pcls = dcls = cls_of(Pm, ty)
    if leaf.get('clsmix'):
        pcls, dcls = {'v3_vec': (Pm.Vector3, Pm.Vector), 'vec_vec': (Pm.Vector, Pm.Vector),
                      'vec_v3': (Pm.Vector, Pm.Vector3)}[leaf['clsmix']]
    obj = pcls(vals, mask)
    if with_derivs:
        for key, dv in leaf['derivs'].items():
            den = tuple(denoms[key])
            d = np.array(dv, dtype=float).reshape(shape + item + den)
            obj.insert_deriv(key, dcls(d, mask, drank=len(den)))
    return obj


def conv(Pm, r, cls):
    """the same values, mask and derivatives as an object of class cls (harness-side relabeling: Matrix3 <-> Matrix)"""
    new = cls(r.values, r.mask)
    for k, d in r.derivs.items():
        new.insert_deriv(k, cls(d.values, d.mask, drank=len(d.denom)))
    return new


def apply_op(Pm, node, a, rec=True):
    op = node['op']
    c = node.get('c')
    kw = {} if rec else {'recursive': False}
    if not rec and (op in NO_RECURSIVE_OPTION or op.startswith('_')):
        raise TypeError('no recursive option')
    if op == 'add':
        return a[0] + a[1]
    if op == 'sub':
        return a[0] - a[1]
    if op == 'mul':
        return a[0] * a[1]
    if op == 'div':
        return a[0] / a[1]
    if op == 'radd':
        return c + a[0]
    if op == 'rsub':
        return c - a[0]
    if op == 'rmul':
        return c * a[0]
    if op == 'rdiv':
        return c / a[0]
    if op == 'neg':
        return -a[0]
    if op == 'mod':
        return a[0] % c
    if op in ('pow2', 'pow3', 'pow4', 'powm1', 'pow5', 'powm2'):
        return a[0] ** {'pow2': 2, 'pow3': 3, 'pow4': 4, 'powm1': -1, 'pow5': 5, 'powm2': -2}[op]
    if op == 'powr':
        return a[0] ** c
    if op == 'powhalf':
        return a[0] ** 0.5
    if op == 'abs':
        return a[0].abs(**kw)
    if op == 'absneg':
        return (-a[0]).abs(**kw)
    if op in ('sin', 'cos', 'tan', 'arcsin', 'arccos', 'arctan', 'sqrt', 'log', 'exp', 'reciprocal'):
        return getattr(a[0], op)(**kw)
    if op == 'arctan2':
        return a[0].arctan2(a[1], **kw)
    if op == 'arctan2b':
        return a[0].arctan2(a[1], **kw)
    if op in ('dot', 'cross', 'perp', 'proj', 'sep', 'outer', 'element_mul', 'element_div', 'ucross'):
        return getattr(a[0], op)(a[1], **kw)
    if op in ('pdot', 'pcross'):
        return getattr(a[0], op[1:])(a[1], **kw)
    if op in ('norm', 'norm_sq', 'unit'):
        return getattr(a[0], op)(**kw)
    if op == 'pnorm':
        return a[0].norm(**kw)
    if op in ('rot90', 'swapxy'):
        return getattr(a[0], op)(**kw)
    if op == 'with_norm':
        return a[0].with_norm(c, **kw)
    if op in ('vadd', 'madd'):
        return a[0] + a[1]
    if op == 'vsub':
        return a[0] - a[1]
    if op in ('vscale', 'mscale'):
        return a[0] * a[1]
    if op == 'vdiv':
        return a[0] / a[1]
    if op == 'from_scalars':
        return Pm.Vector3.from_scalars(a[0], a[1], a[2], **kw)
    if op == 'pair_from_scalars':
        return Pm.Pair.from_scalars(a[0], a[1], **kw)
    if op == 'to_scalar':
        return a[0].to_scalar(c, **kw)
    if op in ('matmul', 'matvec'):
        return a[0] * a[1]
    if op == 'transpose':
        return a[0].transpose(**kw)
    if op == 'inverse':
        return a[0].inverse(**kw)
    if op == 'row':
        return a[0].row_vector(c, **kw)
    if op in ('x_rotation', 'y_rotation', 'z_rotation'):
        return conv(Pm, getattr(Pm.Matrix3, op)(a[0], **kw), Pm.Matrix)
    if op == 'twovec':
        return conv(Pm, Pm.Matrix3.twovec(a[0], c[0], a[1], c[1], **kw), Pm.Matrix)
    if op == 'rotate':
        return conv(Pm, a[0], Pm.Matrix3).rotate(a[1], **kw)
    if op == 'unrotate':
        return conv(Pm, a[0], Pm.Matrix3).unrotate(a[1], **kw)
    if op == 'as_matrix3':
        return conv(Pm, Pm.Matrix3.as_matrix3(a[0], **kw), Pm.Matrix)
    if op == 'as_matrix':
        return Pm.Matrix.as_matrix(conv(Pm, a[0], Pm.Matrix3), **kw)
    if op == 'as_vector3':
        return Pm.Vector3.as_vector3(conv(Pm, a[0], Pm.Vector), **kw)
    if op == 'as_vector':
        return Pm.Vector3.as_vector3(Pm.Vector.as_vector(a[0], **kw))
    if op == 'qmul':
        return a[0] * a[1]
    if op == 'qconj':
        return a[0].conj(**kw)
    if op == 'qrecip':
        return a[0].reciprocal(**kw)
    if op == 'to_matrix3':
        return conv(Pm, a[0].to_matrix3(**kw), Pm.Matrix)
    if op == 'from_parts':
        return Pm.Quaternion.from_parts(a[0], a[1], **kw)
    if op == 'to_parts_s':
        return a[0].to_parts(**kw)[0]
    if op == 'to_parts_v':
        return a[0].to_parts(**kw)[1]
    # smooth maps used to stay inside open domains
    if op == '_possq':
        return a[0] * a[0] + 0.5
    if op == '_scale9':
        return a[0] * 0.9
    if op == '_offset':
        off = {'V': Pm.Vector3([0.0, 0.0, 7.0]), 'P': Pm.Pair([0.0, 7.0]), 'Q': Pm.Quaternion([9.0, 0.0, 0.0, 0.0])}[node['ty']]
        return a[0] + off
    if op == '_compsq':
        return a[0].element_mul(a[0]) + Pm.Vector3([0.5, 0.5, 0.5])
    if op == '_wellcond':
        return a[0] * 0.05 + Pm.Matrix(np.eye(3))
    raise KeyError(op)


def apply_root(Pm, root, r, rec=True):
    kw = {} if rec else {'recursive': False}
    nd = len(r.shape)
    if root == 'sum0':
        return r.sum(axis=0, **kw)
    if root == 'sum_last':
        return r.sum(axis=-1, **kw)
    if root == 'mean0':
        return r.mean(axis=0, **kw)
    if root == 'mean_last':
        return r.mean(axis=-1, **kw)
    if root == 'sum_all':
        return r.sum(**kw)
    if root == 'mean_all':
        return r.mean(**kw)
    if root == 'sum_tneg':
        return r.sum(axis=(-1,), **kw)
    if root == 'mean_tneg':
        return r.mean(axis=(-1,), **kw)
    if root == 'sum_t0neg':
        return r.sum(axis=((0, -1) if nd >= 2 else (-1,)), **kw)
    if root == 'mean_lneg':
        return r.mean(axis=[-1], **kw)
    if root == 'sum_tall':
        return r.sum(axis=tuple(range(-nd, 0)), **kw)
    if root == 'mean_tneg2':
        return r.mean(axis=((-2,) if nd >= 2 else (-1,)), **kw)
    if root == 'roll_axis':
        return r.roll_axis(-1, 0, **kw)
    if root == 'move_axis':
        return r.move_axis(0, -1, **kw)
    if root == 'flatten':
        return r.flatten(**kw)
    if root == 'index_neg':
        return r[..., -1]
    if root == 'index_arr':
        return r[np.array([0, 0])]
    if root == 'index_rev':
        return r[::-1]
    if root == 'index_first':
        return r[0]
    if root == 'index_ell':
        return r[..., 0]
    if root == 'reshape_flat':
        return r.reshape((int(np.prod(r.shape)),), **kw)
    if root == 'swap_axes':
        return r.swap_axes(0, nd - 1, **kw) if nd >= 2 else r.reshape(r.shape + (1,), **kw)
    if root == 'stack':
        return Pm.Qube.stack(r, r * 2.0, **kw)
    raise KeyError(root)


# The points at which an operation of the API is not differentiable although its value is defined (the property speaks
# about smooth points only; at these the implementation rightly masks the derivative and keeps the value):
#   sep, ucross, twovec     the two vectors are parallel, antiparallel or zero (angle 0 or pi: |a x b| = 0)
#   unit, norm, with_norm   the zero vector;      perp, proj     a zero second operand
NONSMOOTH_IF_PARALLEL = {'sep', 'ucross', 'twovec'}
NONSMOOTH_IF_ZERO = {'unit': 0, 'norm': 0, 'pnorm': 0, 'with_norm': 0, 'perp': 1, 'proj': 1}


def nonsmooth_elements(node, a):
    """boolean array over the leading shape of the operation's result: True where the operand VALUES lie on the
    operation's singular set (decided on the operands with plain NumPy, not on what the implementation returns)"""
    op = node['op']
    if op in NONSMOOTH_IF_PARALLEL:
        x, y = (np.asarray(o.values, dtype=float) for o in a[:2])
        if x.shape[-1] != 3 or y.shape[-1] != 3:
            return None
        c = np.linalg.norm(np.cross(x, y), axis=-1)
        return c <= 1e-9 * np.linalg.norm(x, axis=-1) * np.linalg.norm(y, axis=-1)
    if op in NONSMOOTH_IF_ZERO:
        x = np.asarray(a[NONSMOOTH_IF_ZERO[op]].values, dtype=float)
        return np.linalg.norm(x, axis=-1) == 0.0
    return None


def eval_tree(Pm, case, with_derivs=True, displace=None, mark_nonsmooth=False):
    """mark_nonsmooth: additionally mask, in the result of every operation with a singular set, the elements whose
    operands lie on it; the implementation's own mask propagation then carries the mark to every element of the final
    result that depends on such a point (used only to decide whether a masked derivative is excused, see run_case)"""
    leaves = [build_leaf(Pm, l, case['denoms'], with_derivs, displace) for l in case['leaves']]

    def go(n):
        if 'leaf' in n:
            return leaves[n['leaf']]
        args = [go(x) for x in n['args']]
        res = apply_op(Pm, n, args)
        if mark_nonsmooth:
            deg = nonsmooth_elements(n, args)
            if deg is not None and np.any(deg):
                res = type(res)(res.values, Pm.Qube.or_(res.mask, np.broadcast_to(deg, res.shape)))
        return res
    r = go(case['tree'])
    if case.get('root'):
        if not r.shape or isinstance(r, Pm.Matrix3):      # Matrix3 rejects sum/mean by design
            return r
        r = apply_root(Pm, case['root'], r)
    return r


def leaf_keys(case, node=None):
    """keys expected on the result: union over the leaves below"""
    ks = set()
    stack = [case['tree']]
    while stack:
        n = stack.pop()
        if 'leaf' in n:
            ks.update(case['leaves'][n['leaf']]['derivs'].keys())
        else:
            stack.extend(n['args'])
    return sorted(ks)


def ops_of(case):
    out = []
    stack = [case['tree']]
    while stack:
        n = stack.pop()
        if 'op' in n:
            if not n['op'].startswith('_') and not n.get('safe'):
                out.append(n['op'])
            stack.extend(n['args'])
    if case.get('root'):
        out.append(case['root'])
    return out


H = 2e-4


def run_case(case, Pm):
    """returns (problem or None, detail, nontrivial, stats)"""
    det = {}
    stats = {'elements': 0, 'skipped_nonsmooth': 0, 'skipped_singular': 0}
    with warnings.catch_warnings():
        warnings.simplefilter('ignore')
        try:
            r = eval_tree(Pm, case)
        except Exception as e:      # noqa
            name, site = lib.exc_family(e)
            return ('exception %s at %s: %s' % (name, site, str(e)[:200]), {'exc': name, 'site': site, 'phase': 'derivs'},
                    True, stats)
        try:
            r0 = eval_tree(Pm, case, with_derivs=False)
        except Exception as e:      # noqa
            name, site = lib.exc_family(e)
            return ('exception without derivatives %s at %s: %s' % (name, site, str(e)[:200]),
                    {'exc': name, 'site': site, 'phase': 'plain'}, True, stats)
        want = leaf_keys(case)
        got = sorted(r.derivs.keys())
        det['keys'] = got
        if got != want:
            return 'key set %s, expected the union of the operand keys %s' % (got, want), det, True, stats
        if r0.derivs:
            return 'operands without derivatives gave a result with derivatives', det, True, stats
        rmask = np.broadcast_to(np.asarray(r.mask), r.shape)
        if not np.array_equal(rmask, np.broadcast_to(np.asarray(r0.mask), r0.shape)):
            return 'mask with derivatives differs from mask without', det, True, stats
        vals = np.asarray(r.values, dtype=float)
        v0 = np.asarray(r0.values, dtype=float)
        keep = ~rmask
        kk = np.broadcast_to(keep.reshape(keep.shape + (1,) * (vals.ndim - keep.ndim)), vals.shape)
        if vals.shape != v0.shape or not np.allclose(vals[kk], v0[kk], rtol=1e-12, atol=1e-12):
            return 'values with derivatives differ from values without', det, True, stats
        if not np.all(np.isfinite(vals[kk])):
            return None, det, False, stats          # not a smooth point (overflow): outside the property
        nontriv = bool(np.any(rmask)) or len(want) > 1 or any(case['denoms'][k] for k in want)
        excused = None
        for key in want:
            d = r.derivs[key]
            den = tuple(case['denoms'][key])
            if tuple(d.shape) != tuple(r.shape):
                return 'd_d%s has shape %s, result %s' % (key, d.shape, r.shape), det, True, stats
            if tuple(d.numer) != tuple(r.numer):
                return 'd_d%s has numerator %s, result %s' % (key, d.numer, r.numer), det, True, stats
            if tuple(d.denom) != tuple(r.denom) + den:
                return 'd_d%s has denominator %s, expected %s' % (key, d.denom, tuple(r.denom) + den), det, True, stats
            if d.derivs:
                return 'd_d%s carries derivatives itself' % key, det, True, stats
            dmask = np.broadcast_to(np.asarray(d.mask), d.shape)
            keepk = keep
            if np.any(dmask & ~rmask):
                # a masked derivative under an unmasked value is right exactly where the element depends on a point at
                # which an operation below is not differentiable (sep of parallel vectors, norm of the zero vector):
                # those elements are outside the property ("at smooth points"); anywhere else it is a violation
                if excused is None:
                    try:
                        rs = eval_tree(Pm, case, with_derivs=False, mark_nonsmooth=True)
                        excused = np.broadcast_to(np.asarray(rs.mask), r.shape) & ~rmask
                    except Exception:       # noqa
                        excused = np.zeros(r.shape, bool)
                if np.any(dmask & ~rmask & ~excused):
                    return 'd_d%s is masked at an unmasked element of the result' % key, det, True, stats
                stats['skipped_singular'] += int(np.sum(dmask & ~rmask))
                keepk = keep & ~dmask
            dv = np.asarray(d.values, dtype=float)
            nd = int(np.prod(den)) if den else 1
            dv = dv.reshape(vals.shape + (nd,))
            for j in range(nd):
                fd = []
                bad_mask = np.zeros(r.shape, bool)
                for h in (H, H / 2):
                    try:
                        rp = eval_tree(Pm, case, False, (key, j, h))
                        rm = eval_tree(Pm, case, False, (key, j, -h))
                    except Exception as e:      # noqa
                        name, site = lib.exc_family(e)
                        return ('exception on displaced operands %s at %s' % (name, site),
                                {'exc': name, 'site': site, 'phase': 'displaced'}, True, stats)
                    bad_mask |= np.broadcast_to(np.asarray(rp.mask), r.shape) | np.broadcast_to(np.asarray(rm.mask), r.shape)
                    fd.append((np.asarray(rp.values, float) - np.asarray(rm.values, float)) / (2 * h))
                rich = (4 * fd[1] - fd[0]) / 3
                err = np.abs(fd[1] - fd[0])
                kj = np.broadcast_to((keepk & ~bad_mask).reshape(keep.shape + (1,) * (vals.ndim - keep.ndim)), vals.shape)
                car = dv[..., j]
                scale = 1 + np.abs(rich) + np.abs(car)
                # smoothness is judged on the finite differences alone (a huge carried derivative at an ill-conditioned
                # point - twovec of nearly parallel vectors - must not make the two step sizes look consistent)
                smooth = kj & np.isfinite(rich) & (err <= 1e-4 * (1 + np.abs(rich))) & (np.abs(vals) < 1e6)
                stats['skipped_nonsmooth'] += int(np.sum(kj & ~smooth))
                stats['elements'] += int(np.sum(smooth))
                diff = np.abs(rich - car)
                tol = 2e-6 * scale + 20 * err
                bad = smooth & ~(diff <= tol)
                if np.any(bad):
                    i = np.unravel_index(int(np.argmax(np.where(bad, diff / scale, 0))), bad.shape)
                    det.update({'key': key, 'denominator_index': j, 'element': [int(x) for x in i],
                                'carried': float(car[i]), 'finite_difference': float(rich[i]),
                                'fd_error_estimate': float(err[i]), 'value': float(vals[i])})
                    return ('d_d%s differs from the finite-difference quotient: carried %.9g, finite difference %.9g'
                            % (key, car[i], rich[i]), det, True, stats)
        # stripping
        if r.wod.derivs or r.without_derivs().derivs:
            return 'wod / without_derivs still carry derivatives', det, True, stats
        if want:
            one = r.without_deriv(want[0])
            if sorted(one.derivs.keys()) != want[1:]:
                return 'without_deriv(%r) left keys %s' % (want[0], sorted(one.derivs.keys())), det, True, stats
        prob = check_nonrecursive(Pm, case)
        if prob:
            return prob, det, True, stats
    return None, det, nontriv, stats


def check_nonrecursive(Pm, case):
    """the top operation with recursive=False returns no derivatives"""
    leaves = [build_leaf(Pm, l, case['denoms']) for l in case['leaves']]

    def go(n, top):
        if 'leaf' in n:
            return leaves[n['leaf']]
        args = [go(x, False) for x in n['args']]
        if top:
            try:
                return apply_op(Pm, n, args, rec=False)
            except TypeError:
                return None         # the operation has no recursive option (operators)
        return apply_op(Pm, n, args)
    if 'leaf' in case['tree']:
        return None
    try:
        r = go(case['tree'], not case.get('root'))
        if case.get('root') and r is not None and not r.shape:
            return None
        if case.get('root') and r is not None and r.shape and not isinstance(r, Pm.Matrix3):
            try:
                r = apply_root(Pm, case['root'], r, rec=False)
            except TypeError:
                return None
            if case['root'].startswith('index'):
                return None
    except Exception as e:      # noqa
        name, site = lib.exc_family(e)
        return 'recursive=False raises %s at %s' % (name, site)
    if r is not None and r.derivs:
        return 'recursive=False returned derivatives %s' % sorted(r.derivs.keys())
    return None


def signature(case, prob, det):
    ops = ops_of(case)
    top = case['root'] or (case['tree'].get('op') if 'op' in case['tree'] else 'leaf')
    sig = {'problem': (prob or '').split(':')[0][:70], 'top': top, 'ops': ' '.join(sorted(set(ops))),
           'n_ops': len(ops), 'denom': bool(any(case['denoms'][k] for k in case['denoms'])),
           'single_op': ops[0] if len(set(ops)) == 1 else None}
    pr = prob or ''
    sig['kind'] = ('keyset' if pr.startswith('key set') else 'fd' if 'finite-difference' in pr else
                   'exception' if pr.startswith('exception') else 'nonrecursive' if pr.startswith('recursive=False') else
                   'strip' if 'wod' in pr or 'without_deriv' in pr else 'structure')
    sig['has_reduction'] = bool(case.get('root')) and case['root'].split('_')[0].rstrip('0') in ('sum', 'mean')
    sig['masked_leaf'] = any(not isinstance(l['mask'], bool) for l in case['leaves'])
    sig['has_log'] = 'log' in ops
    sig['has_conversion'] = bool({'as_matrix3', 'as_matrix', 'as_vector3'} & set(ops))
    if 'exc' in det:
        sig['exc'] = det['exc']
        sig['site'] = det['site']
        sig['phase'] = det.get('phase')
    return sig


def slim(case):
    def t(n):
        if 'leaf' in n:
            return 'x%d' % n['leaf']
        return '%s(%s)' % (n['op'], ','.join(t(a) for a in n['args']))
    return {'expr': (case['root'] + ':' if case.get('root') else '') + t(case['tree']),
            'leaves': [{'ty': l['ty'], 'shape': l['shape'], 'keys': sorted(l['derivs']),
                        'masked': not isinstance(l['mask'], bool)} for l in case['leaves']],
            'denoms': case['denoms']}


# ---------------------------------------------------------------------------
def run(ctx):
    Pm = P()
    ctx.rule = ('random expression trees of depth <= 4 over %d differentiable operations (scalar arithmetic and reflected '
                'forms, %%, integer and real powers, abs, trig/exp/log/sqrt, arctan2, dot/norm/cross/unit/perp/proj/sep/outer, '
                'element_mul/div, with_norm, matrix product/inverse/transpose, axis rotations, twovec, rotate/unrotate, '
                'quaternion product/conj/reciprocal/to_matrix3/from_parts/to_parts, from_scalars/to_scalar) plus %d root '
                'relabelings/reductions (sum, mean, indexing, reshape, swap_axes, stack); operands composed with smooth maps '
                'to stay in open domains; leading shapes from 5 broadcast-compatible sets, random masks; 2 keys, each '
                'leaf carrying each key with probability 0 / 0.5 / 1 (all subsets occur), denominators (), (2,), (3,) per '
                'key; plus a core of every operation alone with every non-empty subset of operands carrying the key, '
                'denominators () and (2,); quick = 500 trees + core, thorough = 5000 trees + core; non-trivial = a masked '
                'element, two keys or a denominator' % (len(OPS), len(ROOT_OPS)))
    ctx.assumptions = [
        'derivative identities are proved over the real numbers for the emitted formulas on the traced path (open '
        'domain: strict path conditions); floats are compared with the finite-difference quotient within '
        '2e-6 relative + 20 x Richardson error estimate',
        'elements where the two step sizes disagree by more than 1e-4 relative (non-smooth or ill-conditioned points) '
        'are outside the property and skipped (counted)',
        'LAPACK inv is a stub in the trace (hypothesis M.Inv(M) = I and Inv(M).M = I); compared numerically',
        'arctan2 is emitted per half-plane branch (atan(y/x), +-PI/2 - atan(x/y)); %% as x - y*floor(x/y) with the '
        'floor constant on the path; real powers as Rpower; tan and negative integer powers get the domain guard the '
        'implementation does not test (cos x <> 0, x <> 0)',
        'sep and twovec: the fixed script does not close the is_derive obligation in time (partial); they are '
        'compositions of proved kernels and are covered numerically']
    ctx.trusted = lib.DEFAULT_TRUSTED + [
        'tools/regen/tracer.py + tracer_c06.py (Sym class, NumPy proxy, simplification rules, branch formulas for '
        'arctan2 / %% / real powers) and the emitter; validated each run by re-evaluating every emitted term at the seed '
        'point against the unpatched implementation',
        'Coquelicot 3.x (is_derive, auto_derive) and the standard library real analysis',
        'float constants nearest to sqrt 2 / PI are emitted as the real numbers sqrt 2 / PI']
    man = regenerate(ctx, Pm)                                  # stage R
    broken = []
    if ctx.ensure_library():                                   # stage P
        with ThreadPoolExecutor(max_workers=2) as ex:
            fut = ex.submit(ctx.prove, ['theories/Props/C06.v'])
            if man is not None:
                broken = compile_generated(ctx, man, timeout=300 if ctx.tier == 'quick' else 900)
            fut.result()
    focus = sorted({fam for b in broken for pre, fam in KERNEL_FAMILY if b.startswith(pre)})
    if focus:
        ctx.log('searching for a concrete failing input in: %s' % focus)
    cases = gen_cases(ctx.rng, ctx.tier, focus)                # stage K+S
    t0 = time.time()
    fails = {}
    shown = {}
    tot = {'elements': 0, 'skipped_nonsmooth': 0, 'skipped_singular': 0}
    for c in cases:
        prob, det, nontriv, stats = run_case(c, Pm)
        for k in tot:
            tot[k] += stats.get(k, 0)
        if stats.get('skipped_singular'):
            ctx.count('trees_with_elements_on_a_singular_set(masked derivative excused there)')
        ctx.note_case(slim(c), nontriv)
        ops = ops_of(c)
        for o in set(ops):
            ctx.count('op:' + o)
        ctx.count('depth:%d' % c['depth'])
        for k in KEYS:
            if any(k in l['derivs'] for l in c['leaves']):
                ctx.count('denom_%s:%s' % (k, tuple(c['denoms'][k])))
        if prob:
            sig = signature(c, prob, det)
            fams = {OPS[o][4] for o in ops if o in OPS} | ({'root'} if c.get('root') else set())
            for b in broken:
                for pre, f in KERNEL_FAMILY:
                    if b.startswith(pre) and f in fams:
                        ctx.concrete_found.add('C06_' + b)
            key = (sig['problem'], sig['top'])
            fails[sig['problem']] = fails.get(sig['problem'], 0) + 1
            shown[key] = shown.get(key, 0) + 1
            if lib.finding_for(ctx.prop, sig, ctx.findings) is None and shown[key] > 3:
                ctx.count('further_failures_not_listed')
                continue
            res = ctx.fail(sig, c, dict(det, problem=prob, expr=slim(c)['expr']), tie=None)
            if res == 'violation':
                ctx.log('FAIL %s: %s' % (slim(c)['expr'][:120], prob[:200]))
    ctx.log('numeric: %d trees, %d unmasked derivative elements compared, %d skipped as non-smooth, in %.1fs; failures: %s'
            % (len(cases), tot['elements'], tot['skipped_nonsmooth'], time.time() - t0, fails))
    ctx.cov['derivative_elements_compared'] = tot['elements']
    ctx.cov['elements_skipped_nonsmooth'] = tot['skipped_nonsmooth']
    ctx.cov['elements_on_singular_set_of_an_operation'] = tot['skipped_singular']
    ctx.cov['numeric_failures'] = fails
    ctx.exhaustive = False
    return ctx.finish()


def replay(path):
    Pm = P()
    d = json.load(open(path))
    if 'case' not in d:
        print(json.dumps(d, indent=1)[:4000])
        return 1
    prob, det, _, stats = run_case(d['case'], Pm)
    print('expression:', slim(d['case'])['expr'])
    print('leaves    :', json.dumps(d['case']['leaves'])[:1500])
    print('denoms    :', d['case']['denoms'])
    for k, v in det.items():
        print('%-10s: %s' % (k, str(v)[:800]))
    print('property holds on this case' if not prob else 'property FAILS on this case: ' + prob)
    return 0 if not prob else 1
