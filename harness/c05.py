"""C05 - every object the API hands back is structurally well-formed.

The invariant is defined once, in Coq (coq/theories/C05Model.v, `wf`).  This check
  R  regenerates the class table from /repo's class bodies (tools/regen/classes_ast.py ->
     coq/gen/Gen_classes.v, fail closed) and compiles it together with the obligation that the
     regenerated table satisfies the hypotheses of the theorems;
  P  compiles Props/C05.v;
  S  runs the API sweep (harness/sweep.py); for every polymath object reachable from every return
     value - and from the receiver/arguments after the call, after in-place mutation and after a
     pickle round trip - extracts the structural record and calls str()/repr() on it;
  K  evaluates `why gen_table record` (the failing clauses of wf) INSIDE COQ on every distinct
     record, and compares the model of the structural operations (mk_qube, insert_deriv, clone, wod,
     ...) with the records of the objects the implementation produced for the same operations.
A record failing wf is a concrete failing input; the call descriptor is the replay."""
import json
import warnings
import os
import subprocess
import sys

import numpy as np

from . import lib, sweep
from .lib import cbool, clist, cstr

GEN = lib.GEN
HEADER = ('From Coq Require Import List ZArith Bool String.\n'
          'From PM Require Import Base C05Model.\n'
          'Add LoadPath "%s" as PMGen.\nFrom PMGen Require Import Gen_classes.\n'
          'Import ListNotations.\n' % GEN)

CLS = ['Qube', 'Scalar', 'Boolean', 'Vector', 'Vector3', 'Pair', 'Matrix', 'Matrix3', 'Quaternion',
       'Polynomial']


def P():
    return sweep.P()


# ---------------------------------------------------------------------------------------
# structural record of one object (python form: nested lists, JSON-able)
# ---------------------------------------------------------------------------------------
def _kind_of_dtype(dt):
    k = dt.kind
    return {'b': 'KBool', 'i': 'KInt', 'u': 'KInt', 'f': 'KFloat'}.get(k, 'KOther')


def _kind_of_scalar(v):
    if isinstance(v, (bool, np.bool_)):
        return 'KBool'
    if isinstance(v, (int, np.integer)):
        return 'KInt'
    if isinstance(v, (float, np.floating)):
        return 'KFloat'
    return 'KOther'


def _shape_ok(s):
    return isinstance(s, tuple) and all(isinstance(n, (int, np.integer)) and 0 <= n < 4000 for n in s)


def _tup(s):
    if _shape_ok(s):
        return [int(n) for n in s]
    return None


def _val(v):
    if isinstance(v, np.ndarray):
        return ['VArr', _kind_of_dtype(v.dtype), [int(n) for n in v.shape]]
    if isinstance(v, (bool, int, float, np.generic)):
        return ['VScalar', _kind_of_scalar(v)]
    return ['VOther']


def _nat(n):
    if isinstance(n, (int, np.integer)) and not isinstance(n, (bool, np.bool_)) and 0 <= n < 10 ** 9:
        return int(n)
    return None


def core_record(o):
    """structural record of one object without looking at its derivatives; None where a field is
    not of the expected type (-> `bad` in Coq, fails wf)."""
    d = o.__dict__
    m = d.get('_mask_', None)
    if isinstance(m, bool):
        mask = ['MBool', bool(m)]
    elif isinstance(m, np.ndarray):
        mask = ['MArr', _kind_of_dtype(m.dtype), [int(n) for n in m.shape]]
    elif isinstance(m, np.bool_):
        mask = ['MNpBool', bool(m)]
    else:
        mask = ['MOther']
    v = d.get('_values_', None)
    u = d.get('_units_', None)
    ro = d.get('_readonly_', None)
    rec = {
        'cls': type(o).__name__,
        'shape': _tup(d.get('_shape_')), 'numer': _tup(d.get('_numer_')), 'denom': _tup(d.get('_denom_')),
        'item': _tup(d.get('_item_')),
        'nrank': _nat(d.get('_nrank_')), 'drank': _nat(d.get('_drank_')), 'rank': _nat(d.get('_rank_')),
        'size': _nat(d.get('_size_')), 'isize': _nat(d.get('_isize_')), 'nsize': _nat(d.get('_nsize_')),
        'dsize': _nat(d.get('_dsize_')),
        'vals': _val(v), 'mask': mask, 'default': _val(d.get('_default_', None)),
        'units': 'none' if u is None else ('units' if type(u).__name__ == 'Units' else 'other'),
        'ro': ro if isinstance(ro, bool) else None,
        'vw': bool(v.flags['WRITEABLE']) if isinstance(v, np.ndarray) else None,
        'mw': bool(m.flags['WRITEABLE']) if isinstance(m, np.ndarray) else None,
    }
    return rec


def record(o, Pm):
    """full structural record: core + per derivative key (core, has derivatives of its own, is the
    d_d<key> attribute the same object) + the set of d_d* attributes"""
    rec = core_record(o)
    dv = o.__dict__.get('_derivs_')
    derivs = []
    if isinstance(dv, dict):
        for k in sorted(dv, key=str):
            x = dv[k]
            if isinstance(x, Pm.Qube):
                derivs.append([str(k), core_record(x), bool(x.__dict__.get('_derivs_')),
                               o.__dict__.get('d_d' + str(k), None) is x,
                               sorted(a[3:] for a in x.__dict__ if a.startswith('d_d'))])
            else:
                derivs.append([str(k), None, False, False, []])
        rec['derivs_is_dict'] = True
    else:
        rec['derivs_is_dict'] = False
    rec['derivs'] = derivs
    rec['dattrs'] = sorted(a[3:] for a in o.__dict__ if a.startswith('d_d'))
    return rec


# ---------------------------------------------------------------------------------------
# Coq printers
# ---------------------------------------------------------------------------------------
def cnatl(l):
    return clist(['%d%%nat' % n for n in l], 'nat')


def cZ(n):
    return '(%d)%%Z' % n


def coq_val(v):
    if v[0] == 'VArr':
        return '(VArr %s %s)' % (v[1], cnatl(v[2]))
    if v[0] == 'VScalar':
        return '(VScalar %s)' % v[1]
    return 'VOther'


def coq_mask(m):
    if m[0] == 'MBool':
        return '(MBool %s)' % cbool(m[1])
    if m[0] == 'MArr':
        return '(MArr %s %s)' % (m[1], cnatl(m[2]))
    if m[0] == 'MNpBool':
        return '(MNpBool %s)' % cbool(m[1])
    return 'MOther'


def copt_bool(b):
    return 'None' if b is None else '(Some %s)' % cbool(b)


def coq_core(r):
    """`core` term, or None when some field had an unexpected Python type (reported directly)"""
    if r is None:
        return None
    for k in ('shape', 'numer', 'denom', 'item', 'nrank', 'drank', 'rank', 'size', 'isize', 'nsize', 'dsize', 'ro'):
        if r[k] is None:
            return None
    if r['cls'] not in CLS or r['units'] == 'other':
        return None
    if max(r['nrank'], r['drank'], r['rank']) > 50:
        return None
    return ('(mkcore C%s %s %s %s %s %d%%nat %d%%nat %d%%nat %s %s %s %s %s %s %s %s %s %s %s)' % (
        r['cls'], cnatl(r['shape']), cnatl(r['numer']), cnatl(r['denom']), cnatl(r['item']),
        r['nrank'], r['drank'], r['rank'], cZ(r['size']), cZ(r['isize']), cZ(r['nsize']), cZ(r['dsize']),
        coq_val(r['vals']), coq_mask(r['mask']), coq_val(r['default']), cbool(r['units'] == 'units'),
        cbool(r['ro']), copt_bool(r['vw']), copt_bool(r['mw'])))


def coq_record(rec):
    c = coq_core(rec)
    if c is None or not rec['derivs_is_dict']:
        return None
    ds = []
    for k, dc, has, same, dattrs in rec['derivs']:
        cc = coq_core(dc)
        if cc is None:
            return None
        ds.append('(%s, mkdsnap %s %s %s %s)' % (cstr(k), cc, cbool(has), cbool(same),
                                                clist([cstr(a) for a in dattrs], 'string')))
    return '(mksnap %s %s %s)' % (c, clist(ds, '(string * dsnap)'), clist([cstr(a) for a in rec['dattrs']], 'string'))


# ---------------------------------------------------------------------------------------
# stage R: regenerate the class table
# ---------------------------------------------------------------------------------------
def regenerate(ctx):
    """tools/regen/classes_ast.py <repo> -> coq/gen/Gen_classes.v, compiled (contains the obligation
    gen_table_ok).  Fail closed: any problem is a broken tie."""
    import fcntl
    os.makedirs(GEN, exist_ok=True)
    out = os.path.join(GEN, 'Gen_classes.v')
    with open(os.path.join(lib.LOCKDIR, '.coq.lock'), 'w') as lk:
        fcntl.flock(lk, fcntl.LOCK_EX)
        p = subprocess.run([sys.executable, os.path.join(lib.VERIF, 'tools', 'regen', 'classes_ast.py'),
                            lib.REPO, out], stdout=subprocess.PIPE, stderr=subprocess.PIPE, text=True)
        if p.returncode != 0:
            ctx.obligations.append(('G-cls:regenerate', False, p.stderr[-1500:]))
            ctx.broken_tie('regeneration', 'G-cls', p.stderr[-1500:])
            return False
        rc, o, e, dt = lib.run_coqc(out, timeout=300, extra=('-R', GEN, 'PMGen'))
        if rc != 0:
            ctx.obligations.append(('gen_table_ok', False, (e or o)[-1500:]))
            ctx.broken_tie('regeneration', 'G-cls', 'Gen_classes.v does not compile / table_ok fails:\n' + (e or o)[-1500:])
            return False
        ctx.obligations.append(('gen_table_ok', True, 'coq/gen/Gen_classes.v'))
        # instantiate the theorems with the regenerated table
        obl = os.path.join(GEN, 'C05_obl.v')
        with open(obl, 'w') as f:
            f.write(HEADER + 'From PM Require Import C05Lemmas.\n'
                    'Lemma C05_ctor_wf_gen : forall a s, mk_qube gen_table a = Some s -> wf gen_table s = true.\n'
                    'Proof. exact (mk_qube_wf gen_table gen_table_ok). Qed.\n'
                    'Lemma C05_reachable_wf_gen : forall l s s\', wf gen_table s = true -> ops_guard gen_table s l = true ->\n'
                    '  run_ops gen_table s l = Some s\' -> wf gen_table s\' = true.\n'
                    'Proof. exact (run_ops_wf gen_table gen_table_ok). Qed.\n')
        rc, o, e, dt = lib.run_coqc(obl, timeout=300)
        ctx.obligations.append(('C05_theorems_at_gen_table', rc == 0, (e or o)[-800:] if rc else 'coq/gen/C05_obl.v'))
        if rc != 0:
            ctx.broken_tie('proof', 'C05_obl', (e or o)[-1500:])
            return False
    return True


# ---------------------------------------------------------------------------------------
# stage S: the sweep monitor (runs in forked workers)
# ---------------------------------------------------------------------------------------
def reachable(ev, Pm):
    """[(where, path, object)]: everything reachable from the return value, and from the receiver
    and arguments after the call (in-place mutation included)"""
    out = []
    seen = set()
    if ev.ok:
        for p, o in sweep.walk_objects(ev.result, Pm, _seen=seen):
            out.append(('ret', p, o))
    for lab, x in ev.operands:
        for p, o in sweep.walk_objects(x, Pm, _path=lab, _seen=seen):
            out.append(('post', p, o))
    return out


def _printable(o):
    try:
        str(o)
        repr(o)
        return None
    except Exception as e:      # noqa
        return '%s: %s' % (type(e).__name__, str(e)[:80])


def worker(chunk):
    """-> dict(terms=[distinct coq terms], occ=[(term index, call id, where, path)], direct=[...],
    stats=...)"""
    import pickle
    Pm = P()
    terms, tindex, occ, direct = [], {}, [], []
    stats = {'calls': 0, 'ok': 0, 'objects': 0, 'exc': {}, 'warn': {}}
    for d in chunk:
        ev = sweep.execute(d, Pm)
        stats['calls'] += 1
        if ev.ok:
            stats['ok'] += 1
        else:
            stats['exc'][ev.exc_family[0]] = stats['exc'].get(ev.exc_family[0], 0) + 1
        for w in ev.warnings:
            stats['warn'][w] = stats['warn'].get(w, 0) + 1
        objs = reachable(ev, Pm)
        # unpickled copies of returned objects (a deterministic quarter of the calls)
        if ev.ok and int(d['id'][:2], 16) % 4 == 0:
            for where, p, o in list(objs):
                if where == 'ret' and isinstance(o, Pm.Qube) and '.derivs[' not in p:
                    try:
                        o2 = pickle.loads(pickle.dumps(o))
                    except Exception:      # pickling failures are C11's business
                        continue
                    first = True
                    for p2, x in sweep.walk_objects(o2, Pm, _path='unpickled(%s)' % p):
                        objs.append(('unpickled', p2, x, o if first else None))
                        first = False
        done = {}
        noprint = set()
        for ent in objs:
            where, p, o = ent[:3]
            src = ent[3] if len(ent) > 3 else None
            stats['objects'] += 1
            pr = _printable(o)
            if pr is not None:
                noprint.add(id(o))
                if not (src is not None and id(src) in noprint):
                    direct.append((d['id'], where, p, 'print', pr))
            if not isinstance(o, Pm.Qube):
                continue
            rec = record(o, Pm)
            term = coq_record(rec)
            if term is None:
                if not (src is not None and done.get(id(src)) in ('malformed', 'unprintable')):
                    direct.append((d['id'], where, p, 'malformed', json.dumps(rec, default=str)[:600]))
                done[id(o)] = 'malformed'
                continue
            i = tindex.get(term)
            if i is None:
                i = tindex[term] = len(terms)
                terms.append(term)
            done[id(o)] = 'unprintable' if pr is not None else i
            # an unpickled copy is charged only with the clauses its source did not already fail
            st = done.get(id(src)) if src is not None else None
            occ.append((i, d['id'], where, p, st if isinstance(st, int) else None))
    return {'terms': terms, 'occ': occ, 'direct': direct, 'stats': stats}


def flags_wrap(x):
    return 'flags gen_table %s' % x


CLAUSE = {1: 'value-shape', 2: 'mask', 3: 'rank-bookkeeping', 4: 'size-bookkeeping', 5: 'default-shape',
          6: 'class-constraints', 7: 'readonly-but-writeable-arrays', 8: 'derivs-not-allowed',
          9: 'd_d-attributes-vs-derivs', 11: 'deriv:value-shape', 12: 'deriv:mask', 13: 'deriv:rank-bookkeeping',
          14: 'deriv:size-bookkeeping', 15: 'deriv:default-shape', 16: 'deriv:class-constraints',
          17: 'deriv:readonly-but-writeable-arrays', 20: 'deriv:not-float', 21: 'deriv:leading-shape',
          22: 'deriv:numerator', 23: 'deriv:has-own-derivs', 24: 'deriv:not-the-d_d-attribute',
          25: 'deriv:not-readonly-under-readonly-parent'}


def sigkey(sig):
    return json.dumps({k: v for k, v in sig.items() if k not in ('args', 'cls', 'detail')}, sort_keys=True)


def signature(desc, where, clause, extra=None):
    r = desc.get('recv') or {}
    if where == 'unpickled':      # the object is a pickle round trip of a returned object: one cause
        return {'clause': clause, 'method': '__pickle__', 'where': 'unpickled'}
    sig = {'clause': clause, 'method': desc['name'], 'cls': desc['cls'], 'where': where,
           'recv_ro': bool(r.get('ro')), 'recv_shapeless': r.get('shape') == [],
           'recv_derivs': r.get('derivs', 'none') != 'none',
           'alias_self': any(s == ['self'] or (s and s[0] == 'varargs' and ['self'] in s[1]) for _, s in desc['args']),
           'args': ','.join('%s=%s' % (n, json.dumps(s)) for n, s in desc['args'] if s != ['omit'])[:300]}
    if extra:
        sig.update(extra)
    return sig


# ---------------------------------------------------------------------------------------
# stage K: model vs implementation on the modelled operations
# ---------------------------------------------------------------------------------------
FULLS = [[], [3], [2, 3], [3, 3], [2, 3, 3], [0], [0, 3], [3, 2], [4], [2, 2], [2, 3, 2]]
KMASKS = [['bool', False], ['bool', True], ['arr', 'shape', True], ['arr', 'shape', False], ['arr', [3], True],
          ['arr', [1], True], ['arr', [2, 3], True], ['arr', [2], True]]


def ctor_cases():
    out = []
    for cls in CLS:
        for full in FULLS:
            for kind in ('float', 'int', 'bool'):
                for nrank in (None, 0, 1, 2):
                    for drank in (None, 0, 1):
                        for mi, mask in enumerate(KMASKS):
                            for vw, units in ((True, False), (False, False), (True, True)):
                                if not vw and not full:
                                    continue
                                out.append({'k': 'ctor', 'cls': cls, 'full': full, 'kind': kind, 'vw': vw,
                                            'nrank': nrank, 'drank': drank, 'mask': mask, 'units': units})
    return out


OPS1 = [['clone', True], ['clone', False], ['wod'], ['delete_deriv', 't'], ['delete_deriv', 'q'],
        ['without_deriv', 't'], ['without_deriv', 'q'], ['as_readonly'], ['copy', True], ['copy', False],
        ['broadcast', [2, 3]], ['broadcast', [3]], ['broadcast', [4, 3]], ['broadcast', [1]], ['broadcast', [2, 0]]] + \
       [['insert_deriv', k, d] for k in ('t', 'q') for d in ('float', 'int', 'nested', 'shape3', 'shape1', 'shape0', 'ro',
                                                            'scalar', 'vector3', 'denom')]
OPS2A = [['as_readonly'], ['insert_deriv', 'q', 'float'], ['insert_deriv', 't', 'shape0'], ['broadcast', [2, 3]],
         ['delete_deriv', 't'], ['copy', True], ['insert_deriv', 'q', 'shape3']]
OPS2A1 = [['insert_deriv', 'q', 'shape1']]
OPS2B = [['clone', True], ['wod'], ['without_deriv', 't'], ['insert_deriv', 'q', 'int'], ['insert_deriv', 't', 'nested'],
         ['as_readonly'], ['copy', True], ['broadcast', [2, 3]], ['delete_deriv', 'q'], ['insert_deriv', 'q', 'shape3'],
         ['insert_deriv', 'q', 'shape1']]


def ops_cases(Pm):
    out = []
    for cls in CLS:
        core, ext = sweep.receivers_for(Pm, cls)
        for r in core + ext:
            for o in OPS1:
                out.append({'k': 'ops', 'recv': r, 'ops': [o]})
            for a in OPS2A:
                for b in OPS2B:
                    out.append({'k': 'ops', 'recv': r, 'ops': [a, b]})
    return out


def deriv_arg(tag, r, Pm):
    shape, item, cls = tuple(r['shape']), tuple(r['item']), r['cls']
    c = getattr(Pm, cls)
    if tag == 'float':
        return sweep.build_receiver(sweep.recv_desc(cls, shape, item, 'float' if c.FLOATS_OK else r['kind'], 'F'), Pm, 3)
    if tag == 'int':
        k = 'int' if c.INTS_OK else ('bool' if c.BOOLS_OK else 'float')
        return sweep.build_receiver(sweep.recv_desc(cls, shape, item, k, 'mix' if shape not in ((), (0,)) else 'F'), Pm, 3)
    if tag == 'nested':
        return sweep.build_receiver(sweep.recv_desc(cls, shape, item, r['kind'], 'F', 't' if c.DERIVS_OK else 'none'), Pm, 3)
    if tag == 'shape3':
        return sweep.build_receiver(sweep.recv_desc(cls, (3,), item, r['kind'], 'mix'), Pm, 3)
    if tag == 'shape1':
        return sweep.build_receiver(sweep.recv_desc(cls, (1,), item, r['kind'], 'aF'), Pm, 3)
    if tag == 'shape0':
        return sweep.build_receiver(sweep.recv_desc(cls, (), item, r['kind'], 'F'), Pm, 3)
    if tag == 'ro':
        return sweep.build_receiver(sweep.recv_desc(cls, shape, item, r['kind'], 'aF' if shape else 'F', 'none', None, True), Pm, 3)
    if tag == 'scalar':
        return sweep.build_receiver(sweep.recv_desc('Scalar', shape, (), 'float', 'F'), Pm, 3)
    if tag == 'vector3':
        return sweep.build_receiver(sweep.recv_desc('Vector3', shape, (3,), 'float', 'F'), Pm, 3)
    if tag == 'denom':
        v = sweep._values('float', shape + item + (2,), 4)
        kw = {'nrank': len(item)} if cls == 'Qube' else {}
        return c(v, drank=1, **kw)
    raise KeyError(tag)


def apply_impl(obj, o, r, Pm):
    """-> (result object, coq op term)"""
    n = o[0]
    if n == 'clone':
        return obj.clone(recursive=o[1]), '(OClone %s)' % cbool(o[1])
    if n == 'wod':
        return obj.wod, 'OWod'
    if n == 'delete_deriv':
        term = '(ODeleteDeriv %s)' % cstr(o[1])
        obj.delete_deriv(o[1])
        return obj, term
    if n == 'without_deriv':
        return obj.without_deriv(o[1]), '(OWithoutDeriv %s)' % cstr(o[1])
    if n == 'as_readonly':
        return obj.as_readonly(), 'OAsReadonly'
    if n == 'copy':
        return obj.copy(recursive=o[1]), '(OCopy %s)' % cbool(o[1])
    if n == 'broadcast':
        term = '(OBroadcast %s)' % cnatl(o[1])
        return obj.broadcast_to(tuple(o[1])), term
    if n == 'insert_deriv':
        d = deriv_arg(o[2], r, Pm)
        dterm = coq_record(record(d, Pm))
        term = '(OInsertDeriv %s %s)' % (cstr(o[1]), dterm)
        if dterm is None:
            raise KeyError('unencodable derivative')
        try:
            obj.insert_deriv(o[1], d)
        except Exception as e:
            e._c05_term = term
            raise
        return obj, term
    raise KeyError(n)


def coq_ctor_args(c):
    m = c['mask']
    if m[0] == 'bool':
        mt = '(MABool %s)' % cbool(m[1])
    else:
        mt = '(MAArr %s %s false)' % (cnatl(c['_mshape']), cbool(m[2]))
    on = lambda x: 'None' if x is None else '(Some %d%%nat)' % x      # noqa: E731
    return '(mkargs C%s %s %s %s %s %s %s %s false)' % (
        c['cls'], cnatl(c['_full']), {'float': 'KFloat', 'int': 'KInt', 'bool': 'KBool'}[c['kind']],
        cbool(c['vw']), on(c['nrank']), on(c['drank']), mt, cbool(c['units']))


def run_kcase(c, Pm):
    """-> (coq case term or None, impl record or None (raised), exception family, result object)"""
    if c['k'] == 'ctor':
        cls = getattr(Pm, c['cls'])
        full = tuple(c['full'])
        v = sweep._values(c['kind'], full, 1)
        if not full:
            v = v[()].item()
        elif not c['vw']:
            v.flags['WRITEABLE'] = False
        # Vector.__init__ (and its subclasses) wrap a Python scalar into an array of shape (1,)
        # before calling Qube.__init__, which is what mk_qube models
        eff = full
        if issubclass(cls, Pm.Vector) and not full:
            eff = (1,)
        c['_full'] = list(eff)
        full_ = full
        full = eff
        m = c['mask']
        if m[0] == 'bool':
            mask = m[1]
        else:
            if m[1] == 'shape':
                nr = c['nrank'] or cls.NRANK or 0
                rk = nr + (c['drank'] or 0)
                ms = full[:max(len(full) - rk, 0)]
            else:
                ms = tuple(m[1])
            c['_mshape'] = list(ms)
            mask = np.zeros(ms, bool)
            if not m[2]:
                mask.flags['WRITEABLE'] = False
        term = '(KCtor %s)' % coq_ctor_args(c)
        try:
            obj = cls(v, mask, units=Pm.Units.KM if c['units'] else None, nrank=c['nrank'], drank=c['drank'])
        except Exception as e:
            return term, None, lib.exc_family(e), None
        return term, record(obj, Pm), None, obj
    obj = sweep.build_receiver(c['recv'], Pm)
    start = coq_record(record(obj, Pm))
    opterms = []
    fam = None
    try:
        for o in c['ops']:
            try:
                obj, t = apply_impl(obj, o, c['recv'], Pm)
            except Exception as e:
                t = getattr(e, '_c05_term', None)
                if t is None:
                    # rebuild the term without running
                    t = _op_term_only(o, c['recv'], Pm)
                opterms.append(t)
                fam = lib.exc_family(e)
                obj = None
                break
            opterms.append(t)
    finally:
        pass
    # remaining ops after a raise are dropped (the model returns None at that op too)
    term = '(KOps %s %s)' % (start, clist(opterms, 'op')) if start is not None and None not in opterms else None
    return term, (record(obj, Pm) if obj is not None else None), fam, obj


def _op_term_only(o, r, Pm):
    n = o[0]
    if n == 'clone':
        return '(OClone %s)' % cbool(o[1])
    if n == 'wod':
        return 'OWod'
    if n == 'delete_deriv':
        return '(ODeleteDeriv %s)' % cstr(o[1])
    if n == 'without_deriv':
        return '(OWithoutDeriv %s)' % cstr(o[1])
    if n == 'as_readonly':
        return 'OAsReadonly'
    if n == 'copy':
        return '(OCopy %s)' % cbool(o[1])
    if n == 'broadcast':
        return '(OBroadcast %s)' % cnatl(o[1])
    if n == 'insert_deriv':
        try:
            return '(OInsertDeriv %s %s)' % (cstr(o[1]), coq_record(record(deriv_arg(o[2], r, Pm), Pm)))
        except Exception:
            return None
    return None


def kworker(chunk):
    Pm = P()
    out = []
    for c in chunk:
        try:
            term, rec, fam, obj = run_kcase(c, Pm)
        except Exception as e:            # the case could not even be set up
            out.append((None, None, ('setup:' + type(e).__name__, str(e)[:80]), None))
            continue
        rt = coq_record(rec) if rec is not None else None
        out.append((term, rt if rec is not None else 'None', fam, rec is not None and rt is None))
    return out


# ---------------------------------------------------------------------------------------
# run
# ---------------------------------------------------------------------------------------
def run(ctx):
    Pm = P()
    ctx.rule = ('API sweep: every public callable (introspection) x receivers {(),(0,),(3,),(2,3)} x mask '
                'representations x derivs/units/read-only x typed argument pools; every polymath object reachable '
                'from the return value, from receiver/arguments after the call and from an unpickled copy is '
                'recorded, printed and judged by `why gen_table` inside Coq; plus constructor / structural-op '
                'histories compared with the model. non-trivial = object with derivatives, mask array, units, '
                'read-only flag or size 0')
    ctx.assumptions = ['the structural record is extracted by Python introspection of the private fields '
                       '(_values_, _mask_, _shape_, ... , d_d* attributes)',
                       'NumPy flag semantics (views inherit WRITEABLE, broadcast views are read-only) are modelled']
    ok_lib = ctx.ensure_library()
    if ok_lib:
        ctx.prove(['theories/Props/C05.v'])
        ok_lib = regenerate(ctx)
        ctx.guards_obligations()       # Qube._merged_mask regenerated from the current source: see coq/obl/Grd_C05.v
    # ---- sweep ----
    calls = sweep.call_list(Pm)
    sel = sweep.select(calls, ctx.rng, ctx.tier)
    ctx.log('sweep: %d of %d calls' % (len(sel), len(calls)))
    byid = {d['id']: d for d in sel}
    results = sweep.run_parallel(sel, worker)
    terms, tindex = [], {}
    occ_by_term = {}
    stats = {'calls': 0, 'ok': 0, 'objects': 0}
    direct = []
    for res in results:
        local = {}
        for i, t in enumerate(res['terms']):
            j = tindex.get(t)
            if j is None:
                j = tindex[t] = len(terms)
                terms.append(t)
            local[i] = j
        for i, cid, where, p, src in res['occ']:
            occ_by_term.setdefault(local[i], []).append((cid, where, p, local[src] if src is not None else None))
        direct.extend(res['direct'])
        for k in ('calls', 'ok', 'objects'):
            stats[k] += res['stats'][k]
        for k, v in res['stats']['exc'].items():
            ctx.count('exc:' + k, v)
        for k, v in res['stats']['warn'].items():
            ctx.count('warning:' + k, v)
    ctx.evaluations += stats['calls']
    ctx.count('calls', stats['calls'])
    ctx.count('calls_returning', stats['ok'])
    ctx.count('objects_recorded', stats['objects'])
    ctx.count('distinct_records', len(terms))
    for d in sel[:3]:
        ctx.samples.append(sweep.describe(d))
    for d in sel:
        r = d.get('recv') or {}
        if r.get('derivs', 'none') != 'none' or r.get('ro') or r.get('units') or r.get('mask') not in (None, 'F') \
                or 0 in (r.get('shape') or []):
            ctx.nontrivial.add(d['id'])
        ctx.count('cls:' + d['cls'])
    ctx.log('sweep done: %d objects, %d distinct records' % (stats['objects'], len(terms)))
    # objects whose fields have unexpected Python types, or that do not print
    seen_sig = set()
    for cid, where, p, what, detail in direct:
        d = byid[cid]
        sig = signature(d, where, 'print' if what == 'print' else 'malformed', {'detail': detail[:60]})
        key = sigkey(sig)
        if key in seen_sig:
            continue
        seen_sig.add(key)
        ctx.fail(sig, {'call': d, 'path': p, 'where': where}, {'what': what, 'detail': detail,
                                                               'call': sweep.describe(d)})
    # ---- judge the records inside Coq ----
    flagged = {}
    if ok_lib:
        flagged = eval_flags(ctx, terms)
    for ti, clauses in sorted(flagged.items()):
        for cid, where, p, src in occ_by_term.get(ti, []):
            d = byid[cid]
            for cl in clauses:
                if src is not None and cl in flagged.get(src, []):
                    continue
                sig = signature(d, where, CLAUSE.get(cl, str(cl)))
                key = sigkey(sig)
                ctx.count('wf-failures')
                if key in seen_sig:
                    continue
                seen_sig.add(key)
                ctx.fail(sig, {'call': d, 'path': p, 'where': where},
                         {'failing_clause': CLAUSE.get(cl, cl), 'record': terms[ti], 'call': sweep.describe(d)})
    # ---- unpickled copies of LARGE objects and of objects pickled with reduced precision (the sweep's receivers
    # have at most six elements and default precision; the pickler switches encodings above 200 elements and with
    # set_pickle_digits - seeded change C05-I left a flat values array on an object with two leading axes)
    if ok_lib:
        import pickle
        from . import c11
        pterms, pcases = [], []
        npk = 150 if ctx.tier == 'quick' else 1500
        for k in range(npk):
            c = c11.lossy_case(ctx.rng) if k % 3 else c11.gen_object(ctx.rng, shape=ctx.rng.choice(c11.BIG_SHAPES))
            try:
                with warnings.catch_warnings():
                    warnings.simplefilter('ignore')
                    o2 = pickle.loads(pickle.dumps(c11.build(c, Pm)))
            except Exception:              # pickling failures are C11's business
                continue
            for p2, x in sweep.walk_objects(o2, Pm, _path='unpickled'):
                if isinstance(x, Pm.Qube):
                    term = coq_record(record(x, Pm))
                    small = {kk: c[kk] for kk in ('mode', 'cls', 'shape', 'numer', 'denom', 'dtype', 'digits') if kk in c}
                    if term is None:
                        ctx.fail({'part': 'pickled', 'clause': 'malformed', 'cls': c['cls'], 'path': p2.split('.')[0]},
                                 {'part': 'pickled', 'case': small, 'c11': c}, {'path': p2})
                    else:
                        pterms.append(term)
                        pcases.append((small, p2, c))
        ctx.evaluations += len(pterms)
        ctx.count('pickled_objects', len(pterms))
        uniq = sorted(set(pterms))
        pflag = eval_flags_named(ctx, uniq, 'pickled') if uniq else {}
        seenp = set()
        for ti, clauses in sorted((pflag or {}).items()):
            for (small, p2, cfull), t in zip(pcases, pterms):
                if t != uniq[ti]:
                    continue
                for cl in clauses:
                    sig = {'part': 'pickled', 'clause': CLAUSE.get(cl, str(cl)), 'cls': small['cls'],
                           'mode': small.get('mode'), 'leading_rank': len(small['shape'])}
                    key = sigkey(sig)
                    if key not in seenp:
                        seenp.add(key)
                        ctx.fail(sig, {'part': 'pickled', 'case': small, 'c11': cfull}, {'path': p2, 'record': t[:600]})
    # ---- model correspondence ----
    if ok_lib:
        correspondence(ctx, Pm)
    ctx.exhaustive = (ctx.tier == 'thorough')
    return ctx.finish()


def eval_flags(ctx, terms, shard=250):
    """{term index: [failing clause numbers]} by `why gen_table` inside Coq"""
    out = {}
    files = []
    for k in range(0, len(terms), shard):
        path = os.path.join(ctx.dir, 'rec_%04d.v' % (k // shard))
        with open(path, 'w') as f:
            f.write(HEADER + '\nDefinition cases : list snapshot := %s.\n' % clist(terms[k:k + shard], 'snapshot'))
            f.write('Eval vm_compute in (%s).\n' % flags_wrap('cases'))
        files.append((k, path))
    from concurrent.futures import ThreadPoolExecutor

    def job(kp):
        k, path = kp
        rc, o, e, dt = lib.run_coqc(path, timeout=900)
        return k, path, rc, o, e
    with ThreadPoolExecutor(max_workers=lib.NPROC) as ex:
        for k, path, rc, o, e in ex.map(job, files):
            if rc != 0:
                ctx.broken_tie('correspondence', 'records', path + '\n' + (e or o)[-1500:])
                continue
            lists = lib.parse_nat_lists(o)
            if len(lists) != 1:
                ctx.broken_tie('correspondence', 'records', path + ' unparsable: ' + o[-300:])
                continue
            for n in lists[0]:
                out.setdefault(k + n // 100, []).append(n % 100)
            for ext in ('.vo', '.vok', '.vos', '.glob'):
                try:
                    os.remove(path[:-2] + ext)
                except OSError:
                    pass
    return out


def correspondence(ctx, Pm):
    cases = ctor_cases() + ops_cases(Pm)
    total = len(cases)
    if ctx.tier != 'thorough':
        idx = sorted(ctx.rng.sample(range(total), min(total, 5000)))
        cases = [cases[i] for i in idx]
    ctx.log('correspondence: %d of %d constructor/op cases' % (len(cases), total))
    res = sweep.run_parallel(cases, kworker, chunk=500)
    flat = [x for r in res for x in r]
    terms, where = [], []
    recs = []
    for c, (term, rt, fam, unenc) in zip(cases, flat):
        ctx.count('K:' + c['k'])
        if term is None or unenc:
            ctx.count('K:unencodable')
            continue
        if fam is not None:
            ctx.count('K:raised:' + fam[0])
        terms.append('(%s, %s)' % (term, '(@None snapshot)' if rt == 'None' else '(Some %s)' % rt))
        where.append(c)
        if rt != 'None':
            recs.append((rt, c))
    ctx.traces += len(terms)
    ctx.evaluations += len(terms)
    # the records the implementation produced here are judged by wf as well
    uniq = sorted(set(r for r, _ in recs))
    fl = eval_flags_named(ctx, uniq, 'krec')
    badrec = {}
    for ti, cls_ in fl.items():
        badrec[uniq[ti]] = cls_
    reported = set()
    for rt, c in recs:
        if rt in badrec:
            for cl in badrec[rt]:
                sig = {'clause': CLAUSE.get(cl, str(cl)), 'method': '+'.join(o[0] for o in c.get('ops', [['ctor']])),
                       'cls': c.get('cls') or c['recv']['cls'], 'where': 'history',
                       'recv_ro': bool((c.get('recv') or {}).get('ro')),
                       'recv_shapeless': (c.get('recv') or {}).get('shape') == [],
                       'ops': json.dumps(c.get('ops'))}
                key = json.dumps(sig, sort_keys=True)
                if key not in reported:
                    reported.add(key)
                    ctx.fail(sig, c, {'failing_clause': CLAUSE.get(cl, cl), 'record': rt}, tie='model-vs-impl')
    mism = ctx.coq_eval_shards('kcases', HEADER, terms, lambda x: 'mismatches gen_table %s' % x, shard=250)
    ctx.cov['correspondence_mismatches'] = len(mism or [])
    if mism:
        j = mism[0]
        shown = ctx.coq_show(HEADER, 'run05 gen_table (fst %s)' % terms[j])
        ctx.broken_tie('correspondence', 'model-vs-impl',
                       {'n_mismatch': len(mism), 'first_case': where[j], 'impl_and_case': terms[j][:3000],
                        'model': shown,
                        'more': [where[k] for k in mism[1:8]]})


def eval_flags_named(ctx, terms, name):
    old = ctx.dir
    sub = os.path.join(old, name)
    os.makedirs(sub, exist_ok=True)
    ctx.dir = sub
    try:
        return eval_flags(ctx, terms)
    finally:
        ctx.dir = old


def replay(path):
    Pm = P()
    d = json.load(open(path))
    if 'case' not in d:
        print(json.dumps(d, indent=1)[:3000])
        return 1
    c = d['case']
    ctx = lib.Ctx('C05', 'quick', 0)
    ctx.dir = os.path.join(lib.BUILD, 'C05', 'replay')
    os.makedirs(ctx.dir, exist_ok=True)
    objs = []
    if c.get('part') == 'pickled':
        import pickle
        from . import c11
        print('pickled   :', c['case'])
        o2 = pickle.loads(pickle.dumps(c11.build(c['c11'], Pm)))
        objs = [('unpickled', p2, x) for p2, x in sweep.walk_objects(o2, Pm, _path='unpickled')]
    elif 'call' in c:
        print('call      :', sweep.describe(c['call']))
        ev = sweep.execute(c['call'], Pm)
        print('outcome   :', 'returned ' + type(ev.result).__name__ if ev.ok else 'raised %s at %s' % ev.exc_family)
        objs = reachable(ev, Pm)
    else:
        print('history   :', c)
        term, rec, fam, obj = run_kcase(c, Pm)
        print('outcome   :', 'raised %s' % (fam,) if fam else 'returned')
        if obj is not None:
            objs = [('history', 'result', obj)]
    terms, labels, bad = [], [], 0
    for where, p, o in objs:
        pr = _printable(o)
        if pr:
            print('  %s %s: does not print: %s' % (where, p, pr))
            bad += 1
        if isinstance(o, Pm.Qube):
            t = coq_record(record(o, Pm))
            if t is None:
                print('  %s %s: malformed fields: %s' % (where, p, record(o, Pm)))
                bad += 1
            else:
                terms.append(t)
                labels.append((where, p))
    fl = eval_flags(ctx, terms) if terms else {}
    for i, (where, p) in enumerate(labels):
        if i in fl:
            bad += 1
            print('  %s %s: wf FAILS clauses %s\n     record %s' % (where, p, [CLAUSE.get(x, x) for x in fl[i]], terms[i]))
    print('%d objects examined inside Coq' % len(terms))
    print('property holds on this case' if not bad else 'property FAILS on this case')
    return 0 if not bad else 1
