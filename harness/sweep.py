"""The shared API sweep (DESIGN.md section 5) - used by C05 and C07, reusable by C03/C08/C19.

What it is
----------
Every public callable of every polymath class (Qube, Scalar, Boolean, Vector, Vector3, Pair,
Matrix, Matrix3, Quaternion, Polynomial, Units) is discovered by introspection (``dir``; names
starting with ``_`` are skipped except the operator dunders in DUNDERS plus the pseudo calls
``__init__`` (constructor), ``__pickle__`` (pickle round trip), ``__copy__`` (copy.copy)).  Each is
called on small *receivers* of each class with arguments drawn from typed pools keyed by the
parameter name and default (inspect.signature).  The list of calls is a pure function of the
source tree (sorted names x fixed pools): ``call_list(Pm)``.  thorough runs the whole list,
quick runs a seeded sample of it (the seed does nothing else).

API
---
``call_list(Pm)``                 -> list of call descriptors (JSON-able dicts, see below)
``select(calls, rng, tier)``      -> the calls to run in this tier (all / seeded sample)
``build_call(desc, Pm)``          -> (fn, receiver, args, kwargs, argobjs)  fresh objects
``execute(desc, Pm, before=None)``-> Event  (runs ONE call: outcome, warnings, objects)
``iter_calls(rng, tier, Pm, before=None)`` -> generator of Event over select(call_list)
``run_parallel(descs, worker, nproc)``     -> fork-parallel map of ``worker(chunk)`` over the
                                              call list (worker is a module-level function that
                                              loops ``execute`` itself and returns small data)
``deep_snapshot(obj)``            -> bit-for-bit nested tuple (see docstring)
``diff_snapshots(a, b)``          -> list of (path, before, after) leaf differences
``walk_objects(result, Pm)``      -> [(path, object)] every polymath object reachable from a value
``constants(Pm)``                 -> [(name, object)] all shared class constants (Units.*, Scalar.ONE ...)
``is_inplace(desc)``              -> the call is documented as in-place
``INPLACE_NAMES``, ``BROADCAST_NAMES``

A call descriptor is
    {'cls': 'Vector3', 'name': 'dot', 'kind': 'method'|'static'|'class'|'prop'|'ctor'|'pseudo',
     'recv': <receiver descriptor or None>, 'args': [[param, spec], ...], 'id': <sha1>}
a receiver descriptor is
    {'cls','shape','item','kind','mask','derivs','units','ro'}   (see RECV docs below)
and an argument spec is a small list: ['lit', python literal] | ['self'] | ['same'] (a fresh equal
twin of the receiver) | ['obj', receiver descriptor] | ['units', name] | ['cls', [names]] |
['bcast'] (same class, a different broadcastable array shape) | ['bcast1'] (same class, shape (1,), masked by an array mask) | ['nparr', dtype, shape] | ['mask', rep] | ['index', tag] | ['derivdict', n] | ['omit'].
Everything is rebuilt from the descriptor by ``build_call`` so a descriptor alone replays a call.

An Event has: desc, fn, recv, args, kwargs, ok (bool), result, exc (exception or None),
exc_family (class name, site) via lib.exc_family, warnings (list of category names), token (what
``before`` returned), t (seconds).
"""
import copy
import hashlib
import inspect
import itertools
import json
import os
import pickle
import signal
import time
import types
import warnings

import numpy as np

from . import lib

CLASS_NAMES = ['Qube', 'Scalar', 'Boolean', 'Vector', 'Vector3', 'Pair', 'Matrix', 'Matrix3',
               'Quaternion', 'Polynomial', 'Units']

_BIN = ['add', 'sub', 'mul', 'truediv', 'floordiv', 'mod', 'pow', 'and', 'or', 'xor', 'matmul']
DUNDERS = (['__%s__' % b for b in _BIN] + ['__r%s__' % b for b in _BIN] + ['__i%s__' % b for b in _BIN]
           + ['__div__', '__rdiv__', '__idiv__',
              '__getitem__', '__setitem__', '__eq__', '__ne__', '__lt__', '__le__', '__gt__', '__ge__',
              '__neg__', '__pos__', '__abs__', '__invert__', '__len__', '__iter__', '__bool__',
              '__nonzero__', '__str__', '__repr__', '__copy__', '__int__', '__float__', '__hash__',
              '__contains__'])
PSEUDO = ['__init__', '__pickle__', '__copycopy__']

# the documented in-place set (DESIGN C07)
INPLACE_NAMES = set(['__i%s__' % b for b in _BIN] + ['__idiv__', '__setitem__', 'set_units',
                     'insert_deriv', 'insert_derivs', 'delete_deriv', 'delete_derivs', 'as_readonly',
                     'match_readonly', 'set_pickle_digits', 'set_default_pickle_digits',
                     'set_name'])
# the one documented side effect: broadcasting marks array-valued sources read-only
BROADCAST_NAMES = set(['broadcast_to', 'broadcast_into_shape', 'broadcast'])


def is_inplace(desc):
    n = desc['name']
    return n in INPLACE_NAMES or n.startswith('_set_')


def P():
    lib.setup_impl_path()
    import polymath
    return polymath


# =====================================================================================
# receivers
# =====================================================================================
# item shape used for the receivers of each class ('Qube' gets two: () and (2,))
ITEMS = {'Qube': [(), (2,)], 'Scalar': [()], 'Boolean': [()], 'Vector': [(3,)], 'Vector3': [(3,)],
         'Pair': [(2,)], 'Matrix': [(2, 2)], 'Matrix3': [(3, 3)], 'Quaternion': [(4,)],
         'Polynomial': [(3,), (4,), (2,)]}     # (4,): order 3, the array-based root solver; (2,): a line (invert_line)
SHAPES = [(), (0,), (3,), (2, 3)]
MASKS = ['F', 'T', 'aF', 'mix', 'bview']


def _clsinfo(Pm, name):
    c = getattr(Pm, name)
    return c


def recv_desc(cls, shape, item, kind='float', mask='F', derivs='none', units=None, ro=False):
    return {'cls': cls, 'shape': list(shape), 'item': list(item), 'kind': kind, 'mask': mask,
            'derivs': derivs, 'units': units, 'ro': bool(ro)}


def receivers_for(Pm, cname):
    """Deterministic receiver list for a class: (core, extended).  core receivers meet every
    argument variant; extended ones only the base argument combination and the aliased one.
    Covers shapes (), (0,), (3,), (2,3) [size-0 with items for item classes], each mask
    representation, derivatives (plain 't', and 't'+'xy' where xy has denominator (2,)), units,
    the read-only flag and int/bool kinds where the class admits them."""
    if cname == 'Units':
        return [{'cls': 'Units', 'units': u} for u in ('KM', 'DEG', 'UNITLESS')], \
               [{'cls': 'Units', 'units': u} for u in ('SEC', 'custom', 'unnamed')]
    c = getattr(Pm, cname)
    core, ext = [], []
    kinds = [k for k, ok in (('float', c.FLOATS_OK), ('int', c.INTS_OK), ('bool', c.BOOLS_OK)) if ok]
    k0 = kinds[0]
    for item in ITEMS[cname]:
        dv = 't' if c.DERIVS_OK else 'none'
        dv2 = 't+xy' if c.DERIVS_OK else 'none'
        un = 'KM' if c.UNITS_OK else None
        core += [recv_desc(cname, (3,), item, k0, 'mix'),
                 recv_desc(cname, (), item, k0, 'F'),
                 recv_desc(cname, (2, 3), item, k0, 'F', dv, un),
                 recv_desc(cname, (3,), item, k0, 'aF', dv2),
                 recv_desc(cname, (0,), item, k0, 'F'),
                 recv_desc(cname, (3,), item, k0, 'mix', dv, None, True)]
        if item != ITEMS[cname][0]:
            core = core[:-3] + [core[-1]]     # second item shape of Qube: fewer
        for shape in SHAPES:
            for m in MASKS:
                if shape == () and m not in ('F', 'T'):
                    continue
                if shape == (0,) and m in ('mix', 'bview'):
                    continue
                d = recv_desc(cname, shape, item, k0, m)
                if d not in core:
                    ext.append(d)
        ext += [recv_desc(cname, (), item, k0, 'F', dv2, un),
                recv_desc(cname, (), item, k0, 'T', dv),
                recv_desc(cname, (2, 3), item, k0, 'mix', dv2, None, True),
                recv_desc(cname, (2, 3), item, k0, 'bview', dv),
                recv_desc(cname, (0,), item, k0, 'aF', dv, un),
                recv_desc(cname, (3,), item, k0, 'F', 'none', un, True),
                recv_desc(cname, (), item, k0, 'F', 'none', None, True)]
        if c.UNITS_OK and item == ITEMS[cname][0]:
            ext.append(recv_desc(cname, (3,), item, k0, 'mix', dv, 'unnamed'))
        for k in kinds[1:]:
            ext += [recv_desc(cname, (3,), item, k, 'mix'), recv_desc(cname, (), item, k, 'F'),
                    recv_desc(cname, (2, 3), item, k, 'F')]
        if c.DERIVS_OK and cname not in ('Matrix3', 'Quaternion') and item == ITEMS[cname][0]:
            # objects with denominator axes (extract/transpose/reshape_denom, join/split/swap_items never ran otherwise)
            core.append(dict(recv_desc(cname, (3,), item, k0, 'mix'), denom=[2]))
            ext += [dict(recv_desc(cname, (), item, k0, 'F'), denom=[2]),
                    dict(recv_desc(cname, (2, 3), item, k0, 'aF'), denom=[2, 3]),
                    dict(recv_desc(cname, (3,), item, k0, 'T'), denom=[3])]
    # de-duplicate, keep order
    seen, c2, e2 = set(), [], []
    for lst, out in ((core, c2), (ext, e2)):
        for d in lst:
            key = json.dumps(d, sort_keys=True)
            if key not in seen:
                seen.add(key)
                out.append(d)
    return c2, e2


def _values(kind, full_shape, salt=0):
    n = int(np.prod(full_shape)) if full_shape else 1
    base = (np.arange(n) * 7 + 3 + salt) % 11 - 4          # -4..6, zeros included
    if kind == 'float':
        arr = base * 0.5 + (0.25 if salt else 0.0)
        arr = arr.astype(np.float64)
    elif kind == 'int':
        arr = base.astype(np.int64)
    else:
        arr = (base % 2 == 0)
    return arr.reshape(full_shape)


def make_mask(rep, shape):
    shape = tuple(shape)
    if rep == 'F':
        return False
    if rep == 'T':
        return True
    if shape == ():
        return rep == 'T'
    if rep == 'aF':
        return np.zeros(shape, bool)
    n = int(np.prod(shape))
    if rep == 'bview':
        last = (np.arange(shape[-1]) % 3 == 1)
        return np.broadcast_to(last, shape)
    return (np.arange(n) % 3 == 1).reshape(shape)


def build_units(Pm, name):
    if name is None:
        return None
    if name == 'custom':
        return Pm.Units((1, -1, 0), (1, 1000, 0), 'm/s')
    if name == 'unnamed':       # units as arithmetic leaves them: no name of their own (seeded change C07-O: printing
        return Pm.Units((1, -2, 0), (1, 1000, 0))      # them stored a generated name in the operand's Units object)
    return getattr(Pm.Units, name)


def build_receiver(d, Pm, salt=0):
    """A fresh object for a receiver descriptor (no state shared with any earlier build)."""
    if d['cls'] == 'Units':
        return build_units(Pm, d['units'])
    c = getattr(Pm, d['cls'])
    shape, item = tuple(d['shape']), tuple(d['item'])
    denom = tuple(d.get('denom', ()))              # receivers that are themselves partial derivatives
    if denom:
        vals = _values(d['kind'], shape + item + denom, salt)
        mask = make_mask(d['mask'], shape)
        kw = {'drank': len(denom)}
        if d['cls'] == 'Qube':
            kw['nrank'] = len(item)
        obj = c(vals, mask, units=build_units(Pm, d.get('units')), **kw)
        return obj.as_readonly() if d.get('ro') else obj
    vals = _values(d['kind'], shape + item, salt)
    if d['cls'] == 'Matrix3' or (d['cls'] == 'Matrix' and item == (2, 2)):
        vals = vals + 2.0 * np.eye(item[0])          # mostly non-singular ...
        if len(shape) >= 1 and shape[0] >= 2:
            vals[1] = 0.                             # ... and one singular matrix per array
    if d['cls'] == 'Polynomial' and len(shape) >= 1 and shape[0] >= 2:
        vals[1, ..., 0] = 0.                         # one polynomial per array with a leading zero coefficient
        if int(np.prod(shape)) >= 3 and d['mask'] in ('aF', 'mix') and d.get('derivs', 'none') in ('none', 't+xy'):
            # ... and, for some mask / derivative combinations only, one whose coefficients are all zero (seeded change C07-H; the other
            # receivers stay without one: roots() treats "some polynomial is all zero" as a separate case, C07-A)
            vals.reshape((-1,) + item)[-1] = 0.
    mask = make_mask(d['mask'], shape)
    if shape + item == ():
        vals = vals[()].item()
    kw = {}
    if d['cls'] == 'Qube':
        kw['nrank'] = len(item)
    obj = c(vals, mask, units=build_units(Pm, d.get('units')), **kw)
    dv = d.get('derivs', 'none')
    if dv != 'none':
        dcls = c if d['cls'] != 'Polynomial' else c
        tv = _values('float', shape + item, salt + 1)
        if shape + item == ():
            tv = float(tv)
        dk = dict(kw)
        obj.insert_deriv('t', dcls(tv, make_mask('mix' if shape else 'F', shape), **dk))
        if dv == 't+xy':
            xv = _values('float', shape + item + (2,), salt + 2)
            dk2 = dict(kw)
            dk2['drank'] = 1
            obj.insert_deriv('xy', dcls(xv, False, **dk2))
    if d.get('ro'):
        obj = obj.as_readonly()
    return obj


# =====================================================================================
# argument pools
# =====================================================================================
BOOL_PARAMS = {'recursive', 'remask', 'inclusive', 'override', 'nozeros', 'check', 'retain_cache',
               'readonly', 'coerce', '_protected', 'mask_endpoints', 'clip', 'zeros', 'purge',
               'include_antimask', 'partials'}
OBJ_PARAMS = {'arg', 'arg1', 'arg2', 'other', 'value', 'lower', 'upper', 'limit', 'match', 'replace',
              'high', 'low', 'a', 'b', 'c', 'x', 'y', 'z', 'factor', 'norm', 'vector', 'vector1',
              'vector2', 'pole', 'angle', 'radius', 'longitude', 'ra', 'dec', 'length', 'ai', 'aj', 'ak',
              'matrix', 'scalar', 'constant', 'fill', 'deriv', 'example', 'default', 'first', 'second',
              'top', 'shift'}


def _scalar_desc(shape=(), kind='float', mask='F', derivs='none', units=None):
    return recv_desc('Scalar', shape, (), kind, mask, derivs, units)


# parameters that take a Scalar / a Vector3 / a Matrix3 whatever the class of the receiver: their BASE choice must be
# of that type, or every call of the method is rejected before it does anything (measured: clip_component,
# from_cylindrical, from_euler, twovec, from_parts, from_rotation ... never succeeded with a twin of the receiver)
SCALARISH = {'lower', 'upper', 'limit', 'low', 'high', 'radius', 'longitude', 'z', 'ra', 'dec', 'length', 'ai', 'aj',
             'ak', 'angle', 'scalar', 'shift', 'top', 'norm', 'factor'}
VECTORISH = {'vector', 'vector1', 'vector2', 'pole'}
MATRIXISH = {'matrix'}


def typed_base(cname, mname, pname, recv):
    """valid specs (mostly-valid first) for a typed parameter, or []"""
    shape = tuple(recv['shape']) if recv and 'shape' in recv else (3,)
    arr = shape if shape not in ((), (0,)) else (3,)
    if mname == 'clip2d' and pname in ('lower', 'upper'):
        return [['obj', recv_desc('Pair', (), (2,), 'float', 'F')], ['obj', recv_desc('Pair', arr, (2,), 'float', 'mix')],
                ['obj', recv_desc('Pair', (), (2,), 'float', 'T')], ['lit', None]]
    if pname in SCALARISH or (pname in ('a', 'b', 'c') and mname in ('solve_quadratic', 'eval_quadratic')) \
            or (pname in ('x', 'y') and mname == 'from_scalars') or (pname == 'arg' and mname in ('is_inside', 'is_outside', 'is_above', 'is_below')):
        if cname == 'Scalar' and mname not in ('solve_quadratic', 'from_cylindrical'):
            return []           # a twin of a Scalar receiver already is one
        return [['obj', _scalar_desc((), 'float')], ['obj', _scalar_desc(arr, 'float', 'mix', 't')],
                ['obj', _scalar_desc((), 'float', 'T')], ['obj', _scalar_desc(arr, 'float', 'T')]]
    if pname in VECTORISH and cname != 'Vector3':
        return [['obj', recv_desc('Vector3', (), (3,), 'float', 'F')], ['obj', recv_desc('Vector3', arr, (3,), 'float', 'mix', 't')],
                ['obj', recv_desc('Vector3', (), (3,), 'float', 'T')]]
    if pname in MATRIXISH and cname != 'Matrix3':
        return [['obj', recv_desc('Matrix3', (), (3, 3), 'float', 'F')], ['obj', recv_desc('Matrix3', arr, (3, 3), 'float', 'mix', 't')]]
    if mname == 'mul_values' and pname in ('a', 'b'):
        return [['nparr', 'float', [4]], ['nparr', 'float', [3, 4]]]
    return []


def obj_pool(cname, mname, pname, recv):
    """Object-valued parameter: a value of the type the parameter takes (typed_base), the receiver itself
    (aliasing), an equal twin, a Scalar, numbers, an ndarray, None and an object of a foreign class."""
    shape = tuple(recv['shape']) if recv and 'shape' in recv else (3,)
    pool = typed_base(cname, mname, pname, recv) + \
        [['same'], ['self'], ['obj', _scalar_desc((), 'float')], ['lit', 2], ['lit', 0.5], ['lit', 1.0]]
    pool.append(['obj', _scalar_desc(shape, 'float', 'mix' if shape not in ((), (0,)) else 'F', 't')])
    pool.append(['bcast'])        # same class, another array shape that broadcasts with the receiver's
    pool.append(['bcast1'])       # same class, shape (1,), fully masked through an ARRAY mask
    pool.append(['lit', None])
    # entirely masked through the SINGLE value True (shapeless and, if the receiver has axes, shaped):
    # the representation for which "masked arguments are ignored" paths differ from array masks
    pool.append(['obj', _scalar_desc((), 'float', 'T')])
    if shape not in ((), (0,)):
        pool.append(['obj', _scalar_desc(shape, 'float', 'T')])
    pool.append(['obj', _scalar_desc((), 'float', units='KM')])     # units arriving through an operand
    if cname == 'Units':
        return [['units', 'SEC'], ['self'], ['lit', None], ['lit', 2], ['units', 'KM']]
    pool.append(['obj', _scalar_desc((), 'int')])
    pool.append(['obj', recv_desc('Vector3', shape, (3,), 'float', 'F', 't')])
    pool.append(['nparr', 'float', list(shape)])
    pool.append(['lit', 0])
    if cname in ('Matrix', 'Matrix3'):
        it = (3,) if cname == 'Matrix3' else (2,)
        pool.insert(2, ['obj', recv_desc('Vector', shape, it, 'float', 'mix' if shape not in ((), (0,)) else 'F')])
    return pool


def index_pool(recv):
    return [['index', t] for t in ('0', '-1', 'colon', 'ellipsis', '0:2', 'boolarr', 'intscalar',
                                   'True', 'False', 'tuple01', 'masked_int', 'intarr', '5', 'Boolean',
                                   'none')]


SHAPE_POOL = [['lit', s] for s in ([3], [2, 3], [], [6], [3, 2], [1, 3], [0], [2, 1, 3], [4])]
AXIS_POOL = [['lit', a] for a in (None, 0, -1, [0, 1], 1, 5)]


def pool_for(cname, mname, pname, param, recv):
    """The pool (a list of argument specs) for one parameter.  The FIRST entry is the base choice."""
    has_default = param is not None and param.default is not inspect.Parameter.empty
    default = param.default if has_default else None
    omit = [['omit']] if has_default else []
    if param is not None and param.kind == inspect.Parameter.VAR_KEYWORD:
        return [['omit']]
    if param is not None and param.kind == inspect.Parameter.VAR_POSITIONAL:
        if mname in ('or_', 'and_'):
            return [['varargs', [['mask', 'mix'], ['mask', 'F']]], ['varargs', [['mask', 'T'], ['mask', 'aF'], ['mask', 'mix']]],
                    ['varargs', [['mask', 'mix'], ['mask', 'mix2']]]]
        if mname in ('from_scalars', 'maximum', 'minimum'):
            n = {'Pair': 2, 'Vector3': 3, 'Quaternion': 4, 'Matrix3': 9, 'Matrix': 4, 'Polynomial': 3}.get(cname, 3)
            sc = [['obj', _scalar_desc((), 'float')], ['obj', _scalar_desc((3,), 'float', 'mix', 't')], ['lit', 2.],
                  ['obj', _scalar_desc((), 'float', 'T')], ['obj', _scalar_desc((3,), 'float', 'F')], ['lit', 0],
                  ['obj', _scalar_desc((), 'int')], ['obj', _scalar_desc((3,), 'float', 'T')], ['lit', 1.5]]
            return [['varargs', sc[:n]], ['varargs', (sc[3:] + sc[:3])[:n]], ['varargs', [['same'], ['self']]],
                    ['varargs', sc[:n + 1]], ['varargs', []],
                    ['varargs', [['obj', _scalar_desc((), 'float', units='KM')]] + sc[1:n]]]
        return [['varargs', [['same'], ['self']]], ['varargs', [['self'], ['obj', _scalar_desc((), 'float')], ['lit', 2]]],
                ['varargs', [['self'], ['self'], ['same']]], ['varargs', []],
                ['varargs', [['obj', _scalar_desc((3,), 'float', 'mix', 't')], ['obj', _scalar_desc((), 'int')],
                             ['obj', _scalar_desc((3,), 'float', 'F')]]]]
    if cname == 'Units':
        if pname in ('name', 'name1', 'name2'):
            return omit + [['lit', 'km'], ['lit', None], ['lit', {'km': 1, 's': -1}]]
        if pname == 'namedict':
            return [['lit', {'km': 1, 's': -1}], ['lit', {}]]
        if pname == 'power':
            return [['lit', 2], ['lit', -1], ['lit', 0.5], ['lit', 0], ['lit', 1], ['lit', 1.0]]
        if pname in ('units', 'arg', 'arg1', 'arg2', 'first', 'second'):
            return [['units', 'SEC'], ['self'], ['lit', None], ['units', 'KM'], ['lit', 'km'], ['lit', 3]]
        if pname == 'value':
            return [['lit', 2.0], ['nparr', 'float', [3]], ['obj', _scalar_desc((3,), 'float', 'mix')]]
        if pname == 'exponents':
            return [['lit', [1, 0, 0]], ['lit', [0, 0, 0]]]
        if pname == 'triple':
            return [['lit', [1, 1000, 0]], ['lit', [1, 180, 1]]]
    if mname == '__init__' and pname == 'arg' and cname != 'Units':
        return [['vals'], ['same'], ['lit', 2], ['lit', 1.5], ['vals', 'list'], ['vals', 'ma'], ['lit', True],
                ['lit', None], ['obj', _scalar_desc((3,), 'float', 'mix', 't')], ['lit', 'abc'], ['vals', 'ro']]
    if pname in BOOL_PARAMS or isinstance(default, bool):
        if has_default and isinstance(default, bool):
            return omit + [['lit', not default], ['lit', default]]
        return omit + [['lit', True], ['lit', False]]
    if pname in ('builtins',):
        return omit + [['lit', True], ['lit', False]]
    if pname == 'masked':
        return omit + [['lit', True], ['lit', -1], ['lit', 0]]
    if pname == 'out':
        return omit
    if pname in ('axis', 'axes') and mname not in ('to_pair', 'to_euler', 'from_euler', 'from_euler_via_matrix', 'twovec'):
        if mname in ('extract_numer', 'extract_denom', 'slice_numer', 'as_diagonal', 'to_vector',
                     'clip_component', 'norm', 'norm_sq', 'axis_rotation', 'as_size_zero', 'sort') or \
                mname.startswith('mask_where_component'):
            return omit + [['lit', 0], ['lit', -1], ['lit', 1], ['lit', 5]]
        return omit + AXIS_POOL
    if pname == 'axes':
        if mname == 'to_pair':
            return omit + [['lit', [0, 1]], ['lit', [2, 0]], ['lit', [0, 7]]]
        return omit + [['lit', 'rzxz'], ['lit', 'sxyz'], ['lit', 'bogus']]
    if pname in ('axis1', 'axis2', 'source', 'destination', 'start'):
        if mname == 'twovec':          # the two axes must differ for the call to be accepted
            return [['lit', 0], ['lit', 2], ['lit', 1], ['lit', 5]] if pname == 'axis1' else \
                [['lit', 1], ['lit', 2], ['lit', 0], ['lit', 5]]
        return omit + [['lit', 0], ['lit', -1], ['lit', 1], ['lit', 5]]
    if pname == 'shape':
        if mname in ('reshape_numer', 'reshape_denom'):
            return [['lit', [3]], ['lit', [2]], ['lit', [1, 3]], ['lit', [2, 2]], ['lit', [4]], ['lit', [3, 1]], ['lit', []]]
        return omit + SHAPE_POOL
    if pname == 'classes':
        return omit + [['cls', ['Vector', 'Matrix']], ['cls', ['Scalar']], ['cls', ['Vector3', 'Pair', 'Qube']], ['cls', []]]
    if pname in ('key', 'new_key'):
        return [['lit', 't'], ['lit', 'xy'], ['lit', 'q']] if pname == 'key' else [['lit', 'q'], ['lit', 't'], ['lit', 'xy']]
    if pname == 'preserve':
        return omit + [['lit', 't'], ['lit', ['t']], ['lit', ['q']], ['lit', ['xy', 't']]]
    if pname == 'method':
        return omit + [['lit', 'replace'], ['lit', 'add'], ['lit', 'insert'], ['lit', 'bogus']]
    if pname == 'units':
        return omit + [['units', 'KM'], ['units', 'DEG'], ['lit', None], ['lit', 'km'], ['lit', False], ['units', 'M']]
    if pname == 'mask':
        if mname in ('mask_where', 'remask', 'remask_or', '__init__'):
            return omit + [['mask', 'mix'], ['lit', True], ['lit', False], ['mask', 'Boolean'], ['mask', 'aF'],
                           ['mask', 'bad'], ['lit', None], ['mask', 'ma']]
        return omit + [['lit', True], ['mask', 'mix'], ['lit', False], ['mask', 'ma']]
    if pname == 'antimask':
        return [['mask', 'anti'], ['lit', True], ['lit', False], ['mask', 'aF'], ['mask', 'Boolean']]
    if pname == 'index':
        if mname in ('__getitem__', '__setitem__'):
            return index_pool(recv)
        return [['lit', 0], ['lit', 1], ['lit', -1], ['lit', 5]]
    if pname in ('index1', 'index2', 'indx', 'indx0', 'indx1', 'column', 'row', 'order', 'nrank', 'drank', 'rank'):
        base = [['lit', 0], ['lit', 1], ['lit', 2], ['lit', -1], ['lit', 5]]
        if pname in ('nrank', 'drank', 'rank') and has_default:
            return omit + base[:3]
        if pname == 'index2':
            base = [['lit', 2], ['lit', 1], ['lit', 0], ['lit', 5]]
        return omit + base
    if pname == 'dtype':
        return omit + [['lit', 'int'], ['lit', 'bool'], ['lit', 'float'], ['lit', 'bogus']]
    if pname in ('numer', 'denom'):
        return omit + [['lit', [2]], ['lit', []], ['lit', [3]], ['lit', [2, 2]], ['lit', [3, 3]], ['lit', [4]]]
    if pname == 'derivs':
        return omit + [['derivdict', 1], ['derivdict', 2], ['lit', None], ['derivdict', 3]]
    if pname == 'digits' and mname == '__round__':
        return [['lit', 1], ['lit', 0], ['lit', -1]]
    if pname == 'digits':
        return omit + [['lit', 'single'], ['lit', 8], ['lit', ['double', 'single']], ['lit', 'bogus']]
    if pname == 'reference':
        return omit + [['lit', 'fpzip'], ['lit', 1.0], ['lit', 'median'], ['lit', 'bogus']]
    if pname == 'delta':
        return omit + [['lit', 1e-9], ['lit', 10.0]]
    if pname == 'op':
        return omit
    if pname in OBJ_PARAMS:
        pool = obj_pool(cname, mname, pname, recv)
        if mname == 'eval' and pname == 'x':          # a polynomial is evaluated at a Scalar
            shape = tuple(recv['shape']) if recv and 'shape' in recv else (3,)
            pool = [['obj', _scalar_desc(shape if shape != (0,) else (), 'float', 'F', 't')],
                    ['obj', _scalar_desc((3,), 'float', 'mix')]] + pool
        if has_default:
            return omit + pool
        return pool
    if has_default:
        return omit + [['lit', None], ['lit', 2], ['same']]
    return [['same'], ['self'], ['lit', 2], ['lit', None], ['obj', _scalar_desc((), 'float')]]


def _index_value(tag, recv, Pm):
    shape = tuple(recv._shape_) if isinstance(recv, Pm.Qube) else ()
    n0 = shape[0] if shape else 1
    if tag == '0':
        return 0
    if tag == '-1':
        return -1
    if tag == '5':
        return 5
    if tag == 'colon':
        return slice(None)
    if tag == 'ellipsis':
        return Ellipsis
    if tag == '0:2':
        return slice(0, 2)
    if tag == 'True':
        return True
    if tag == 'False':
        return False
    if tag == 'none':
        return None
    if tag == 'boolarr':
        return (np.arange(int(np.prod(shape))) % 2 == 0).reshape(shape) if shape else np.array(True)
    if tag == 'Boolean':
        return Pm.Boolean((np.arange(int(np.prod(shape))) % 2 == 0).reshape(shape) if shape else True,
                          make_mask('mix', shape))
    if tag == 'intscalar':
        return Pm.Scalar(0)
    if tag == 'masked_int':
        return Pm.Scalar([0, 1, 0], [False, True, False])
    if tag == 'intarr':
        return np.array([0, max(n0 - 1, 0), 0])
    if tag == 'tuple01':
        return (0, Ellipsis) if len(shape) < 2 else (slice(None), 1)
    raise KeyError(tag)


def build_arg(spec, recv, rdesc, Pm, salt=1):
    """value for one argument spec (fresh objects, except ['self'] which aliases the receiver)"""
    t = spec[0]
    if t == 'lit':
        v = spec[1]
        if isinstance(v, list) and not (v and isinstance(v[0], str)):
            return tuple(v)
        return v
    if t == 'self':
        return recv
    if t == 'vals':
        d = rdesc or _scalar_desc((3,))
        v = _values(d['kind'], tuple(d['shape']) + tuple(d['item']), 2)
        how = spec[1] if len(spec) > 1 else None
        if how == 'list':
            return v.tolist()
        if how == 'ma':
            return np.ma.MaskedArray(v, mask=(np.arange(v.size).reshape(v.shape) % 4 == 1))
        if how == 'ro':
            v.flags['WRITEABLE'] = False
        return v
    if t == 'same':
        if rdesc is None:
            return Pm.Scalar(2.)
        return build_receiver(rdesc, Pm, salt)
    if t == 'obj':
        return build_receiver(spec[1], Pm, salt)
    if t == 'bcast1':
        if rdesc is None or 'shape' not in rdesc:
            return Pm.Scalar([1.], [True])
        d = dict(rdesc)
        d['shape'], d['mask'], d['ro'], d['derivs'] = [1], 'aF', False, 'none'
        o = build_receiver(d, Pm, salt)
        o._mask_[...] = True
        return o
    if t == 'bcast':
        if rdesc is None or 'shape' not in rdesc:
            return Pm.Scalar([1., 2., 3.])
        other = {(): (3,), (3,): (2, 3), (2, 3): (3,), (0,): (1,)}.get(tuple(rdesc['shape']), (1,))
        d = dict(rdesc)
        d['shape'] = list(other)
        d['mask'] = 'F' if rdesc['mask'] in ('F', 'T') else 'mix'
        d['ro'] = False
        return build_receiver(d, Pm, salt)
    if t == 'units':
        return build_units(Pm, spec[1])
    if t == 'cls':
        return tuple(getattr(Pm, n) for n in spec[1])
    if t == 'nparr':
        return _values(spec[1], tuple(spec[2]), 5)
    if t == 'mask':
        shape = tuple(recv._shape_) if isinstance(recv, Pm.Qube) else (3,)
        rep = spec[1]
        if rep == 'Boolean':
            return Pm.Boolean(make_mask('mix', shape) if shape else True)
        if rep == 'bad':
            return np.zeros(shape + (2,), bool)
        if rep == 'ma':
            # a boolean MaskedArray: its masked entries mean "masked" whatever boolean hides under them
            if not shape:
                return np.ma.MaskedArray([False], mask=[True])[0]
            b = np.asarray(make_mask('mix', shape))
            return np.ma.MaskedArray(b, mask=np.roll(np.logical_not(b).ravel(), 1).reshape(shape) & (np.arange(b.size).reshape(shape) % 2 == 0))
        if rep == 'anti':
            m = make_mask('mix', shape)
            return np.logical_not(m) if shape else True
        if rep == 'mix2':
            return np.roll(np.asarray(make_mask('mix', shape)), 1) if shape else False
        return make_mask(rep, shape)
    if t == 'index':
        return _index_value(spec[1], recv, Pm)
    if t == 'derivdict':
        if not isinstance(recv, Pm.Qube):
            return {}
        d = {}
        shape, item = tuple(recv._shape_), tuple(recv._numer_)
        c = type(recv)
        kw = {'nrank': len(item)} if c is Pm.Qube else {}
        try:
            v = _values('float', shape + item, 9)
            d['q'] = c(v if shape + item else float(v), **kw)
            if spec[1] >= 2:
                kw2 = dict(kw)
                kw2['drank'] = 1
                d['r'] = c(_values('float', shape + item + (2,), 8), **kw2)
            if spec[1] >= 3:      # a derivative that carries derivatives of its own, int valued
                kw3 = dict(kw)
                inner = c(_values('float', shape + item, 4) if shape + item else 1.5, **kw3)
                inner.insert_deriv('z', c(_values('float', shape + item, 3) if shape + item else 2.5, **kw3))
                d['n'] = inner
        except Exception:
            pass
        return d
    if t == 'varargs':
        return [build_arg(s, recv, rdesc, Pm, salt + i) for i, s in enumerate(spec[1])]
    raise KeyError(spec)


# =====================================================================================
# discovery and the call list
# =====================================================================================
_NOT_CALLS = ('__init__', '__new__', '__getstate__', '__setstate__', '__init_subclass__', '__class_getitem__')


def _polymath_dunder(c, n):
    """a special method (``__round__`` ...) that a polymath class defines itself and that is not in the fixed
    list: found by introspection so that a newly added one is swept too"""
    if not (n.startswith('__') and n.endswith('__')) or n in _NOT_CALLS:
        return False
    for k in c.__mro__:
        if k.__module__.startswith('polymath') and isinstance(k.__dict__.get(n), types.FunctionType):
            return True
    return False


def discover(Pm):
    """[(class name, attribute name, kind, signature or None)] sorted; kind in
    method/static/class/prop.  Non-callable class attributes are not calls (polymath/Units valued
    ones are the shared constants, see constants())."""
    out = []
    for cname in CLASS_NAMES:
        c = getattr(Pm, cname)
        for n in sorted(dir(c)):
            if n.startswith('_') and n not in DUNDERS and not _polymath_dunder(c, n):
                continue
            a = inspect.getattr_static(c, n)
            if isinstance(a, property):
                out.append((cname, n, 'prop', None))
                continue
            if isinstance(a, staticmethod):
                kind, f = 'static', a.__func__
            elif isinstance(a, classmethod):
                kind, f = 'class', a.__func__
            elif isinstance(a, types.FunctionType):
                kind, f = 'method', a
            elif isinstance(a, (types.WrapperDescriptorType, types.MethodDescriptorType)):
                if n in DUNDERS and cname != 'Units' and n in ('__str__', '__repr__', '__eq__', '__ne__', '__hash__'):
                    kind, f = 'method', None
                else:
                    continue
            else:
                continue
            sig = None
            if f is not None:
                try:
                    sig = inspect.signature(f)
                except (TypeError, ValueError):
                    sig = None
            out.append((cname, n, kind, sig))
        if cname != 'Units':
            out.append((cname, '__init__', 'ctor', inspect.signature(c.__init__)))
            out.append((cname, '__pickle__', 'pseudo', None))
            out.append((cname, '__copycopy__', 'pseudo', None))
        else:
            out.append((cname, '__init__', 'ctor', inspect.signature(c.__init__)))
    return out


def constants(Pm):
    """Every shared class constant that is a polymath or Units object: [(dotted name, object)]."""
    out = []
    for cname in CLASS_NAMES:
        c = getattr(Pm, cname)
        for n in sorted(c.__dict__):
            v = c.__dict__[n]
            if isinstance(v, (Pm.Qube, Pm.Units)):
                out.append(('%s.%s' % (cname, n), v))
            elif isinstance(v, (list, tuple, dict)) and n.isupper():
                seq = v.values() if isinstance(v, dict) else v
                for i, e in enumerate(seq):
                    if isinstance(e, (Pm.Qube, Pm.Units)):
                        out.append(('%s.%s[%d]' % (cname, n, i), e))
    return out


def _params(sig, kind):
    if sig is None:
        return []
    ps = list(sig.parameters.values())
    if kind in ('method', 'class', 'ctor') and ps:
        ps = ps[1:]
    return ps


def _variants(cname, mname, kind, sig, rdesc, full):
    """argument variants for one (method, receiver): the base combination, then each parameter
    varied over its pool with the others at base (one-at-a-time).  full=False: base + aliased."""
    ps = _params(sig, kind)
    if mname in DUNDERS and sig is None:
        ps = []
    pools = []
    for p in ps:
        pools.append((p.name, pool_for(cname, mname, p.name, p, rdesc)))
    if kind in ('static', 'class', 'ctor') and rdesc is not None and pools:
        # the receiver plays the first object-valued parameter
        pass
    base = [[n, pl[0]] for n, pl in pools]
    out = [base]
    for i, (n, pl) in enumerate(pools):
        alts = pl[1:] if full else [s for s in pl[1:] if s == ['self']][:1]
        for alt in alts:
            v = [list(x) for x in base]
            v[i] = [n, alt]
            out.append(v)
    # a second base in which every object parameter is a plain number (the "number fast paths"), and each boolean
    # option flipped on it: methods often take another branch for (numbers, option off) - seeded change C07-J
    if full:
        def first_number(pl):
            for s_ in pl:
                if s_[0] == 'lit' and isinstance(s_[1], (int, float)) and not isinstance(s_[1], bool):
                    return s_
            return None
        nums = {i: first_number(pl) for i, (n, pl) in enumerate(pools) if n in OBJ_PARAMS}
        if nums and all(v is not None for v in nums.values()):
            base2 = [list(x) for x in base]
            for i, v in nums.items():
                base2[i] = [pools[i][0], v]
            if len(nums) >= 2:
                # different numbers, so that a range (lower, upper) is not empty
                lits = sorted({tuple(s_) for i in nums for s_ in pools[i][1] if s_[0] == 'lit' and isinstance(s_[1], (int, float))
                               and not isinstance(s_[1], bool)}, key=lambda t: t[1])
                if len(lits) >= 2:
                    ks = sorted(nums)
                    base2[ks[0]] = [pools[ks[0]][0], list(lits[0])]
                    base2[ks[-1]] = [pools[ks[-1]][0], list(lits[-1])]
            if base2 != base:
                out.append(base2)
                for i, (n, pl) in enumerate(pools):
                    if n in BOOL_PARAMS:
                        for alt in pl[1:]:
                            if alt[0] == 'lit' and isinstance(alt[1], bool):
                                v = [list(x) for x in base2]
                                v[i] = [n, alt]
                                out.append(v)
    # aliasing: the same object for every object parameter
    objp = [i for i, (n, pl) in enumerate(pools) if ['self'] in pl]
    if len(objp) >= 2:
        v = [list(x) for x in base]
        for i in objp:
            v[i] = [pools[i][0], ['self']]
        out.append(v)
    return out


def call_id(d):
    return hashlib.sha1(json.dumps(d, sort_keys=True, default=str).encode()).hexdigest()[:16]


INT_METHODS = ('as_index', 'as_index_and_mask', 'int', 'as_int', '__invert__', '__lshift__', '__rshift__')


def call_list(Pm):
    """The whole deterministic call list."""
    calls = []
    disc = discover(Pm)
    rc = {c: receivers_for(Pm, c) for c in CLASS_NAMES}
    for cname, mname, kind, sig in disc:
        core, ext = rc[cname]
        for full, rl in ((True, core), (False, ext)):
            for rdesc in rl:
                # methods that make sense for integers only get every argument variant on the integer receivers
                # (seeded change C07-N: as_index(masked=k) wrote into an int64 operand with a partial mask)
                full_ = full or (mname in INT_METHODS and rdesc.get('kind') == 'int')
                for args in _variants(cname, mname, kind, sig, rdesc, full_):
                    d = {'cls': cname, 'name': mname, 'kind': kind, 'recv': rdesc, 'args': args}
                    calls.append(d)
    seen = set()
    out = []
    for d in calls:
        d['id'] = call_id(d)
        if d['id'] not in seen:
            seen.add(d['id'])
            out.append(d)
    return out


QUICK_N = 110000


def select(calls, rng, tier, n=None):
    """thorough: the whole list.  quick: a small exhaustive core - for every (class, callable) its
    first call (base receiver, base arguments) and eight seeded picks among its calls (all of them for groups of at most 120 calls and for Units) - plus a seeded
    sample of n calls from the whole list.  The seed never reaches outside the list."""
    if tier == 'thorough':
        return calls
    n = n or QUICK_N
    if len(calls) <= n:
        return calls
    groups = {}
    for i, d in enumerate(calls):
        groups.setdefault((d['cls'], d['name']), []).append(i)
    chosen = set()
    for key in sorted(groups):
        g = groups[key]
        chosen.add(g[0])
        if key[0] == 'Units' or len(g) <= 120:      # small groups (all of Units: 935 calls) run completely
            chosen.update(g)
            continue
        for _ in range(8):
            chosen.add(g[rng.randrange(len(g))])
    # the calls in which every object parameter is a plain number and a boolean option is switched off run completely
    for i, d in enumerate(calls):
        a = d['args']
        if (len(a) >= 2 and all(x[1][0] in ('lit', 'omit') for x in a) and any(x[1] == ['lit', False] for x in a)
                and any(x[0] in OBJ_PARAMS and x[1][0] == 'lit' and isinstance(x[1][1], (int, float))
                        and not isinstance(x[1][1], bool) for x in a)):
            chosen.add(i)
    chosen.update(rng.sample(range(len(calls)), n))
    return [calls[i] for i in sorted(chosen)]


# =====================================================================================
# executing one call
# =====================================================================================
class Event(object):
    __slots__ = ('desc', 'fn', 'recv', 'args', 'kwargs', 'ok', 'result', 'exc', 'exc_family',
                 'warnings', 'token', 't', 'operands')


class SweepTimeout(Exception):
    pass


def _alarm(signum, frame):
    raise SweepTimeout('call exceeded the per-call time limit')


def build_call(desc, Pm):
    """-> (fn, recv, args, kwargs, operands) where operands = [(label, object)] are the receiver and
    every argument object (aliases appear once per position, same identity)."""
    cname, mname, kind = desc['cls'], desc['name'], desc['kind']
    c = getattr(Pm, cname)
    recv = build_receiver(desc['recv'], Pm) if desc['recv'] is not None else None
    if cname == 'Units' and recv is not None and is_inplace(desc):
        # a documented mutator must not be aimed at a shared constant: use a private copy
        recv = Pm.Units(recv.exponents, recv.triple, copy.deepcopy(recv.name))
    args, kwargs, operands = [], {}, [('recv', recv)]
    sig_params = None
    positional = True
    for i, (pname, spec) in enumerate(desc['args']):
        if spec[0] == 'omit':
            positional = False
            continue
        v = build_arg(spec, recv, desc['recv'], Pm, salt=1 + i)
        if spec[0] == 'varargs':
            args.extend(v)
            for j, e in enumerate(v):
                operands.append(('%s[%d]' % (pname, j), e))
            continue
        operands.append((pname, v))
        if positional:
            args.append(v)
        else:
            kwargs[pname] = v
    if kind == 'prop':
        fn = lambda: getattr(recv, mname)                       # noqa: E731
    elif kind == 'ctor':
        fn = c
    elif kind == 'pseudo':
        if mname == '__pickle__':
            fn = lambda: pickle.loads(pickle.dumps(recv))       # noqa: E731
        else:
            fn = lambda: copy.copy(recv)                        # noqa: E731
    elif kind in ('static', 'class'):
        fn = getattr(c, mname)
        # give static helpers the receiver as their first object argument when the base
        # choice there is a twin: keeps class-specific receivers in play
        if args and desc['args'] and desc['args'][0][1] == ['same']:
            args[0] = recv
            operands[1] = (operands[1][0], recv)
    elif mname == '__iter__':
        fn = lambda: list(itertools.islice(iter(recv), 20))     # noqa: E731
    else:
        fn = getattr(recv, mname)
    return fn, recv, args, kwargs, operands


_GLOBALS = None


def _save_globals(Pm):
    from polymath.extensions import pickler
    return (Pm.Qube.PREFER_BUILTIN_TYPES, Pm.Qube.DISABLE_CACHE, pickler.DEFAULT_PICKLE_DIGITS,
            pickler.DEFAULT_PICKLE_REFERENCE)


def _restore_globals(Pm, g):
    from polymath.extensions import pickler
    Pm.Qube.PREFER_BUILTIN_TYPES, Pm.Qube.DISABLE_CACHE = g[0], g[1]
    pickler.DEFAULT_PICKLE_DIGITS, pickler.DEFAULT_PICKLE_REFERENCE = g[2], g[3]


def execute(desc, Pm, before=None, timeout=10):
    """Run ONE call.  `before(desc, recv, operands)` is invoked after the operands exist and before
    the call (snapshot hook); its return value is the event's token."""
    global _GLOBALS
    if _GLOBALS is None:
        _GLOBALS = _save_globals(Pm)
    ev = Event()
    ev.desc = desc
    ev.result = None
    ev.exc = None
    ev.exc_family = None
    ev.warnings = []
    ev.token = None
    t0 = time.time()
    old = signal.signal(signal.SIGALRM, _alarm)
    signal.alarm(timeout)
    try:
        with warnings.catch_warnings(record=True) as wl:
            warnings.simplefilter('always')
            try:
                fn, recv, args, kwargs, operands = build_call(desc, Pm)
            except SweepTimeout:
                raise
            except Exception as e:          # the descriptor cannot be built: not a call
                ev.fn = None
                ev.recv = None
                ev.args, ev.kwargs, ev.operands = [], {}, []
                ev.ok = False
                ev.exc = e
                ev.exc_family = ('BuildError:' + type(e).__name__, '')
                ev.t = time.time() - t0
                return ev
            ev.fn, ev.recv, ev.args, ev.kwargs, ev.operands = fn, recv, args, kwargs, operands
            if before is not None:
                ev.token = before(desc, recv, operands)
            try:
                ev.result = fn(*args, **kwargs)
                if isinstance(ev.result, types.GeneratorType) or \
                        type(ev.result).__name__ in ('QubeIterator', 'QubeNDIterator'):
                    ev.result = list(itertools.islice(ev.result, 40))
                ev.ok = True
            except SweepTimeout as e:
                ev.ok = False
                ev.exc = e
                ev.exc_family = ('SweepTimeout', '')
            except Exception as e:
                ev.ok = False
                ev.exc = e
                ev.exc_family = lib.exc_family(e)
            ev.warnings = sorted(set(w.category.__name__ for w in wl))
    finally:
        signal.alarm(0)
        signal.signal(signal.SIGALRM, old)
        _restore_globals(Pm, _GLOBALS)
    ev.t = time.time() - t0
    return ev


def iter_calls(rng, tier, Pm, before=None, calls=None):
    """Generator of Events over the tier's selection of the call list (in-process)."""
    calls = calls if calls is not None else select(call_list(Pm), rng, tier)
    for d in calls:
        yield execute(d, Pm, before=before)


def run_parallel(descs, worker, nproc=None, chunk=400):
    """Fork-parallel: `worker(list of descriptors) -> picklable result`; returns the results in
    call-list order (one per chunk).  The worker imports polymath itself (P())."""
    import multiprocessing as mp
    nproc = nproc or lib.NPROC
    chunks = [descs[i:i + chunk] for i in range(0, len(descs), chunk)]
    if nproc <= 1 or len(chunks) <= 1:
        return [worker(c) for c in chunks]
    ctx = mp.get_context('fork')
    with ctx.Pool(nproc) as pool:
        return pool.map(worker, chunks, chunksize=1)


# =====================================================================================
# snapshots and object walks
# =====================================================================================
def _arr_snap(a):
    return ('A', a.dtype.str, tuple(a.shape), a.tobytes(), bool(a.flags['WRITEABLE']))


def _units_snap(u):
    if u is None:
        return None
    name = u.name
    if isinstance(name, dict):
        name = tuple(sorted(name.items()))
    return ('U', id(u), tuple(u.exponents), tuple(u.triple), name, repr(u.factor), repr(u.factor_inv))


def deep_snapshot(obj, Pm=None, _depth=0):
    """Bit-for-bit snapshot as nested tuples/dicts that compare with ==.

    Qube -> {'T': class name, 'values': array snap | ('py', type name, repr), 'mask': array snap |
    ('py', 'bool', repr), 'units': ('U', id, exponents, triple, name, factor, factor_inv) | None,
    'readonly': bool, 'derivs': {key: snapshot}, 'dattrs': sorted d_d* attribute names}
    array snap = ('A', dtype, shape, bytes (hidden values included), WRITEABLE).
    ndarray -> array snap; MaskedArray -> ('MA', data snap, mask snap); Units -> units snap;
    tuple/list/dict/set -> same container of snapshots; anything else -> ('O', type name, repr)
    for builtin scalars/str/None, ('O', type name) otherwise."""
    if Pm is None:
        Pm = P()
    if _depth > 6:
        return ('deep',)
    if isinstance(obj, Pm.Qube):
        v = obj.__dict__.get('_values_')
        m = obj.__dict__.get('_mask_')
        d = {'T': type(obj).__name__,
             'values': _arr_snap(v) if isinstance(v, np.ndarray) else ('py', type(v).__name__, repr(v)),
             'mask': _arr_snap(m) if isinstance(m, np.ndarray) else ('py', type(m).__name__, repr(m)),
             'units': _units_snap(obj.__dict__.get('_units_')),
             'readonly': obj.__dict__.get('_readonly_'),
             'derivs': {k: deep_snapshot(dv, Pm, _depth + 1)
                        for k, dv in (obj.__dict__.get('_derivs_') or {}).items()},
             'dattrs': tuple(sorted(k for k in obj.__dict__ if k.startswith('d_d')))}
        return d
    if isinstance(obj, Pm.Units):
        return _units_snap(obj)
    if isinstance(obj, np.ma.MaskedArray):
        return ('MA', _arr_snap(np.asarray(obj.data)), _arr_snap(np.asarray(np.ma.getmaskarray(obj))))
    if isinstance(obj, np.ndarray):
        if obj.dtype == object:
            return ('AO', tuple(obj.shape), tuple(deep_snapshot(e, Pm, _depth + 1) for e in obj.ravel()))
        return _arr_snap(obj)
    if isinstance(obj, (tuple, list)):
        return (type(obj).__name__,) + tuple(deep_snapshot(e, Pm, _depth + 1) for e in obj)
    if isinstance(obj, dict):
        return {('k', repr(k)): deep_snapshot(v, Pm, _depth + 1) for k, v in obj.items()}
    if isinstance(obj, (set, frozenset)):
        return ('set', tuple(sorted(repr(e) for e in obj)))
    if obj is None or isinstance(obj, (bool, int, float, str, complex, np.generic, slice, type(Ellipsis))):
        return ('O', type(obj).__name__, repr(obj))
    return ('O', type(obj).__name__)


def diff_snapshots(a, b, path=''):
    """[(path, before, after)] for every leaf that differs.  Array snaps are split into
    .dtype/.shape/.bytes/.writeable leaves so that flag changes can be told from content changes."""
    if a == b:
        return []
    if isinstance(a, dict) and isinstance(b, dict):
        out = []
        for k in sorted(set(a) | set(b), key=repr):
            if k not in a:
                out.append(('%s.%s' % (path, k), '<absent>', _short(b[k])))
            elif k not in b:
                out.append(('%s.%s' % (path, k), _short(a[k]), '<absent>'))
            else:
                out.extend(diff_snapshots(a[k], b[k], '%s.%s' % (path, k)))
        return out
    if isinstance(a, tuple) and isinstance(b, tuple) and a and b and a[0] == b[0] == 'A':
        out = []
        for i, nm in ((1, 'dtype'), (2, 'shape'), (3, 'bytes'), (4, 'writeable')):
            if a[i] != b[i]:
                out.append(('%s.%s' % (path, nm), _short(a[i]), _short(b[i])))
        return out
    if isinstance(a, tuple) and isinstance(b, tuple) and a and b and a[0] == b[0] == 'U':
        out = []
        for i, nm in ((1, 'identity'), (2, 'exponents'), (3, 'triple'), (4, 'name'), (5, 'factor'), (6, 'factor_inv')):
            if a[i] != b[i]:
                out.append(('%s.units.%s' % (path, nm), _short(a[i]), _short(b[i])))
        return out
    if isinstance(a, tuple) and isinstance(b, tuple) and len(a) == len(b) and a and a[0] == b[0] and \
            a[0] in ('tuple', 'list', 'MA', 'AO'):
        out = []
        for i in range(1, len(a)):
            out.extend(diff_snapshots(a[i], b[i], '%s[%d]' % (path, i - 1)))
        return out
    return [(path, _short(a), _short(b))]


def _short(x):
    if isinstance(x, bytes):
        return x.hex()[:96]
    s = repr(x)
    return s if len(s) < 200 else s[:200] + '...'


def walk_objects(result, Pm=None, _path='result', _depth=0, _seen=None):
    """Every polymath object (Qube or Units) reachable from a return value: the value itself,
    members of tuples/lists/dicts/object arrays, exhausted iterators (execute() has already
    turned iterators into lists), and - recursively - derivatives.  -> [(path, object)].
    A derivative is reported with path '<parent>.derivs[key]'."""
    if Pm is None:
        Pm = P()
    if _seen is None:
        _seen = set()
    out = []
    if _depth > 6:
        return out
    if isinstance(result, Pm.Qube):
        if id(result) in _seen:
            return out
        _seen.add(id(result))
        out.append((_path, result))
        for k, dv in list((result.__dict__.get('_derivs_') or {}).items()):
            out.extend(walk_objects(dv, Pm, '%s.derivs[%s]' % (_path, k), _depth + 1, _seen))
        return out
    if isinstance(result, Pm.Units):
        if id(result) not in _seen:
            _seen.add(id(result))
            out.append((_path, result))
        return out
    if isinstance(result, (tuple, list)):
        for i, e in enumerate(result):
            out.extend(walk_objects(e, Pm, '%s[%d]' % (_path, i), _depth + 1, _seen))
    elif isinstance(result, dict):
        for k, e in result.items():
            out.extend(walk_objects(e, Pm, '%s[%r]' % (_path, k), _depth + 1, _seen))
    elif isinstance(result, np.ndarray) and result.dtype == object:
        for i, e in enumerate(result.ravel()):
            out.extend(walk_objects(e, Pm, '%s.flat[%d]' % (_path, i), _depth + 1, _seen))
    elif hasattr(result, '__next__'):
        for i, e in enumerate(itertools.islice(result, 40)):
            out.extend(walk_objects(e, Pm, '%s.next[%d]' % (_path, i), _depth + 1, _seen))
    return out


def describe(desc):
    """one-line human form of a call descriptor"""
    r = desc['recv']
    if r is None:
        rs = '-'
    elif r['cls'] == 'Units':
        rs = 'Units.%s' % r['units']
    else:
        rs = '%s%s item%s %s mask=%s derivs=%s units=%s%s' % (
            r['cls'], tuple(r['shape']), tuple(r['item']), r['kind'], r['mask'], r['derivs'], r['units'],
            ' ro' if r['ro'] else '')
    return '%s.%s(%s) on [%s]' % (desc['cls'], desc['name'],
                                  ', '.join('%s=%s' % (n, json.dumps(s)) for n, s in desc['args']), rs)
