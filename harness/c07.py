"""C07 - non-in-place operations never modify their operands or the shared constants; copy() shares
no writable storage with its source.

 P  Props/C07.v (heap model: C07_frame, C07_frame_obs, C07_copy_independent, C07_copy_content,
    C07_reachable_wf).
 S  (a) snapshot monitor on the API sweep (harness/sweep.py): every public call that is not
        documented as in-place is bracketed by bit-for-bit deep snapshots of the receiver and of every
        argument (aliased arguments included) - for returning and raising calls alike; after EVERY
        call (in-place ones too) all shared class constants (Units.*, Scalar.ONE, Vector3.ZAXIS ...,
        found by introspection) are compared with their baseline.  The only exemption is the
        documented one: broadcast_to / broadcast_into_shape / broadcast may turn the read-only flag
        and the WRITEABLE flags of array-valued operands from writable to read-only.
    (b) "derive B from A, mutate one through the public mutators, observe the other" for copy(),
        copy(recursive=False), copy(readonly=True), copy.copy: nothing may show through, and no
        writable storage may be shared (np.shares_memory on every pair of arrays).
 K  short histories (constructor, negation, addition - also of an object with itself -, slices,
    broadcast_to, copy, a raising call, item assignment, +=, as_readonly, delete_deriv) run on the
    implementation and on the model; the observable content of ALL live objects is compared inside Coq.
"""
import copy as _copy
import json
import os

import numpy as np

from . import lib, sweep
from .lib import cbool, clist

HEADER = ('From Coq Require Import List ZArith Bool.\nFrom PM Require Import C07Model.\n'
          'Import ListNotations.\nOpen Scope Z_scope.\n')


def P():
    return sweep.P()


# ---------------------------------------------------------------------------------------
# (a) the snapshot monitor
# ---------------------------------------------------------------------------------------
_CONST = None


def _const_fingerprint(Pm):
    return [(n, sweep.deep_snapshot(o, Pm)) for n, o in sweep.constants(Pm)]


def _restore_constant(obj, saved_dict):
    obj.__dict__.clear()
    obj.__dict__.update(_copy.deepcopy(saved_dict))


def leaf_kind(path):
    """class of a changed leaf, for signatures"""
    for k in ('writeable', 'readonly', 'bytes', 'shape', 'dtype', 'dattrs'):
        if path.endswith('.' + k):
            return {'bytes': 'content', 'writeable': 'WRITEABLE', 'readonly': 'readonly-flag'}.get(k, k)
    if '.units' in path:
        return 'units'
    if '.derivs' in path:
        return 'derivs'
    if '.mask' in path:
        return 'mask'
    if '.values' in path:
        return 'values'
    return 'other'


def exempt_broadcast(desc, label, diff):
    """broadcasting an array-valued object marks it read-only: flag changes towards read-only only.
    Documented broadcasts: broadcast_to / broadcast_into_shape / broadcast, and the derivative handed
    to with_deriv ("all derivatives are broadcasted to the shape of the object if necessary")."""
    if not (desc['name'] in sweep.BROADCAST_NAMES or (desc['name'] == 'with_deriv' and label == 'value')):
        return False
    path, before, after = diff
    if path.endswith('.readonly'):
        return before == 'False' and after == 'True'
    if path.endswith('.writeable'):
        return before == 'True' and after == 'False'
    return False


def worker(chunk):
    global _CONST
    Pm = P()
    consts = sweep.constants(Pm)
    if _CONST is None:
        _CONST = {n: (sweep.deep_snapshot(o, Pm), _copy.deepcopy(o.__dict__)) for n, o in consts}
    out = []
    stats = {'calls': 0, 'checked': 0, 'raised': 0, 'inplace': 0, 'operands': 0, 'aliased': 0}

    def before(desc, recv, operands):
        if sweep.is_inplace(desc):
            return None
        snaps = []
        seen = set()
        for lab, o in operands:
            if id(o) in seen:
                continue
            seen.add(id(o))
            snaps.append((lab, o, sweep.deep_snapshot(o, Pm)))
        return snaps

    for d in chunk:
        ev = sweep.execute(d, Pm, before=before)
        stats['calls'] += 1
        if ev.fn is None:
            continue
        if not ev.ok:
            stats['raised'] += 1
        if ev.token is not None:
            stats['checked'] += 1
            if any(s == ['self'] for _, s in d['args']):
                stats['aliased'] += 1
            for lab, o, snap0 in ev.token:
                stats['operands'] += 1
                snap1 = sweep.deep_snapshot(o, Pm)
                if snap1 != snap0:
                    diffs = [x for x in sweep.diff_snapshots(snap0, snap1, lab) if not exempt_broadcast(d, lab, x)]
                    if diffs:
                        out.append((d['id'], 'operand', lab, diffs[:6], ev.ok,
                                    None if ev.ok else ev.exc_family))
        else:
            stats['inplace'] += 1
        # shared constants, after every call
        for n, o in consts:
            s1 = sweep.deep_snapshot(o, Pm)
            if s1 != _CONST[n][0]:
                # a documented mutator aimed at the constant itself is the caller's doing
                if not (ev.token is None and any(x is o for _, x in ev.operands)):
                    out.append((d['id'], 'constant', n, sweep.diff_snapshots(_CONST[n][0], s1, n)[:6], ev.ok,
                                None if ev.ok else ev.exc_family))
                _restore_constant(o, _CONST[n][1])
    return {'fail': out, 'stats': stats}


def signature(desc, kind, label, diffs, ok):
    return {'kind': kind, 'method': desc['name'], 'cls': desc['cls'],
            'operand': label if kind == 'constant' else ('recv' if label == 'recv' else 'arg'),
            'changed': '+'.join(sorted(set(leaf_kind(p) for p, _, _ in diffs))),
            'raised': not ok,
            'recv_ro': bool((desc.get('recv') or {}).get('ro')),
            'alias_self': any(s == ['self'] for _, s in desc['args'])}


# ---------------------------------------------------------------------------------------
# (b) derive B from A, mutate one, observe the other
# ---------------------------------------------------------------------------------------
DERIVE = ['copy', 'copy_norec', 'copy_ro', 'copycopy']
# derivations that SHARE arrays by design; only the derivative SET (keys, d_d attributes) is
# per-object there, so only that is observed and only the derivative mutators are applied
DERIVE_VIEW = ['clone', 'polynomial', 'as_vector']
DERIV_MUTATORS = ['insert_deriv', 'delete_deriv', 'delete_derivs']
MUTATORS = ['setitem0', 'setitem_masked', 'setitem_all', 'iadd', 'imul', 'isub', 'set_units', 'insert_deriv',
            'delete_deriv', 'as_readonly', 'deriv_setitem', 'deriv_iadd', 'values_write', 'mask_write',
            'deriv_values_write', 'delete_derivs', 'iand']


def derive(a, how):
    if how == 'copy':
        return a.copy()
    if how == 'copy_norec':
        return a.copy(recursive=False)
    if how == 'copy_ro':
        return a.copy(readonly=True)
    if how == 'clone':
        return a.clone()
    if how == 'polynomial':
        return _poly(a)
    if how == 'as_vector':
        return a.as_vector()
    return _copy.copy(a)


def _poly(a):
    import polymath
    return polymath.Polynomial(a)


def mutate(x, how, Pm):
    """apply one public mutator; exceptions (read-only objects, unsupported operators) are fine"""
    idx = (0,) * len(x.shape) if x.shape else Ellipsis
    one = x.zeros((), numer=x.numer, dtype=x.dtype()) if hasattr(x, 'zeros') else 0
    if how == 'setitem0':
        x[idx] = (x[idx] + 1) if x.is_numeric() else x[idx].logical_not()
    elif how == 'setitem_masked':
        x[idx] = x[idx].as_all_masked()
    elif how == 'setitem_all':
        x[...] = one
    elif how == 'iadd':
        x += 1
    elif how == 'imul':
        x *= 2
    elif how == 'isub':
        x -= x.copy()
    elif how == 'set_units':
        x.set_units(Pm.Units.M if x.units is None or x.units.exponents == (1, 0, 0) else None)
    elif how == 'insert_deriv':
        x.insert_deriv('zz', x.wod.as_float().copy())
    elif how == 'delete_deriv':
        x.delete_deriv('t')
    elif how == 'delete_derivs':
        x.delete_derivs()
    elif how == 'as_readonly':
        x.as_readonly()
    elif how == 'deriv_setitem':
        dd = x.derivs['t']
        dd[idx] = dd[idx] + 1
    elif how == 'deriv_iadd':
        dd = x.derivs['t']
        dd += 1
    elif how == 'values_write':
        v = x.values
        v[...] = v + 1 if v.dtype.kind != 'b' else ~v
    elif how == 'mask_write':
        m = x.mask
        m[...] = ~m
    elif how == 'deriv_values_write':
        v = x.derivs['t'].values
        v[...] = v + 1
    elif how == 'iand':
        x &= x.copy()
    else:
        raise KeyError(how)


def arrays_of(x):
    out = []
    for nm, o in [('', x)] + [('.d_d' + k, dv) for k, dv in x.derivs.items()]:
        for f in ('_values_', '_mask_'):
            a = getattr(o, f)
            if isinstance(a, np.ndarray):
                out.append((nm + '.' + f, a))
    return out


def seq_cases(Pm):
    out = []
    for cname in sweep.CLASS_NAMES:
        if cname == 'Units':
            continue
        core, ext = sweep.receivers_for(Pm, cname)
        for r in core + ext:
            for dv in DERIVE:
                for side in ('mutate_copy', 'mutate_source'):
                    for mu in MUTATORS:
                        out.append({'recv': r, 'derive': dv, 'side': side, 'mutator': mu})
            views = ['clone'] + (['polynomial'] if cname in ('Vector', 'Vector3', 'Pair', 'Quaternion') else []) \
                + (['as_vector'] if cname == 'Polynomial' else [])
            for dv in views:
                for side in ('mutate_copy', 'mutate_source'):
                    for mu in DERIV_MUTATORS:
                        out.append({'recv': r, 'derive': dv, 'side': side, 'mutator': mu})
    return out


def run_seq(c, Pm):
    """-> None (fine) or dict(what, diffs)"""
    a = sweep.build_receiver(c['recv'], Pm)
    b = derive(a, c['derive'])
    if c['derive'] in DERIVE_VIEW:
        target, other = (b, a) if c['side'] == 'mutate_copy' else (a, b)
        keys0 = (sorted(other.derivs), sorted(k for k in other.__dict__ if k.startswith('d_d')))
        try:
            mutate(target, c['mutator'], Pm)
            raised = None
        except Exception as e:      # noqa
            raised = type(e).__name__
        keys1 = (sorted(other.derivs), sorted(k for k in other.__dict__ if k.startswith('d_d')))
        if keys1 != keys0:
            return {'what': 'derivative-set-shows-through', 'raised': raised,
                    'diffs': [('derivs', str(keys0), str(keys1))]}
        return None
    # no writable storage may be shared
    for na, xa in arrays_of(a):
        for nb, xb in arrays_of(b):
            if xa.size and xb.size and np.shares_memory(xa, xb) and (xa.flags.writeable or xb.flags.writeable):
                return {'what': 'shares-writable-storage', 'diffs': [('source%s / copy%s' % (na, nb), '', '')]}
    target, other = (b, a) if c['side'] == 'mutate_copy' else (a, b)
    snap0 = sweep.deep_snapshot(other, Pm)
    try:
        mutate(target, c['mutator'], Pm)
        raised = None
    except Exception as e:      # noqa
        raised = type(e).__name__
    snap1 = sweep.deep_snapshot(other, Pm)
    if snap1 != snap0:
        return {'what': 'shows-through', 'raised': raised,
                'diffs': sweep.diff_snapshots(snap0, snap1, 'copy' if other is b else 'source')[:6]}
    return None


def seq_worker(chunk):
    Pm = P()
    out = []
    for i, c in enumerate(chunk):
        try:
            r = run_seq(c, Pm)
        except Exception as e:      # the derivation itself failed (C19's business): not a case
            r = {'what': 'setup', 'err': '%s: %s' % (type(e).__name__, str(e)[:80])}
        out.append(r)
    return out


# ---------------------------------------------------------------------------------------
# (K) histories on implementation and model
# ---------------------------------------------------------------------------------------
N = 3


def gen_history(rng, length):
    """a random well-typed history over the model's alphabet; tracks what the generator must know:
    length, 2-D (broadcast result), derivative present, mask array present"""
    h, objs = [], []

    def new():
        vals = [rng.randint(-3, 3) for _ in range(N)]
        slots = [['TVals', vals]]
        hasm = rng.random() < 0.4
        hasd = rng.random() < 0.5
        if hasm:
            slots.append(['TMask', [int(rng.random() < 0.4) for _ in range(N)]])
        if hasd:
            slots.append(['TDVals', [rng.randint(-3, 3) for _ in range(N)]])
        h.append(['HNew', slots])
        objs.append({'len': N, 'two': False, 'd': hasd, 'm': hasm})

    new()
    for _ in range(length):
        k = rng.random()
        a = rng.randrange(len(objs))
        A = objs[a]
        if k < 0.12:
            new()
        elif k < 0.22:
            h.append(['HNeg', a])
            objs.append(dict(A))
        elif k < 0.34:
            cands = [j for j, B in enumerate(objs) if B['len'] == A['len'] and not B['d'] and not A['d']
                     and B['two'] == A['two']]
            if cands:
                b = rng.choice(cands + [a])
                h.append(['HAdd', a, b])
                objs.append({'len': A['len'], 'two': A['two'], 'd': False, 'm': A['m'] or objs[b]['m']})
        elif k < 0.46:
            if not A['two']:
                off, ln = rng.randint(0, A['len']), rng.randint(0, A['len'])
                real = max(0, min(ln, A['len'] - min(off, A['len'])))
                if real >= 1:
                    h.append(['HView', a, off, ln])
                    objs.append({'len': real, 'two': False, 'd': A['d'], 'm': A['m']})
        elif k < 0.54:
            if not A['two']:
                h.append(['HBroadcast', a])
                objs.append({'len': A['len'], 'two': True, 'd': A['d'], 'm': A['m']})
        elif k < 0.66:
            h.append(['HCopy', a])
            objs.append(dict(A))
        elif k < 0.70:
            h.append(['HRaise', [a]])
        elif k < 0.80:
            if A['d'] and rng.random() < 0.5 and not A['two']:
                h.append(['HSet', a, 'TDVals', rng.randrange(A['len']), rng.randint(-9, 9)])
            elif not A['d'] and not A['m'] and not A['two']:
                h.append(['HSet', a, 'TVals', rng.randrange(A['len']), rng.randint(-9, 9)])
        elif k < 0.88:
            h.append(['HIadd', a, rng.randint(-2, 2)])
        elif k < 0.94:
            h.append(['HFreeze', a])
        else:
            h.append(['HDelDeriv', a])
            # the generator's view of `d` stays conservative: deletion may be refused (read-only)
    return h


def obs_impl(o, two):
    def row(x):
        x = np.asarray(x)
        return x[0] if two and x.ndim == 2 else x
    slots = [['TVals', [int(v) for v in row(o._values_)], bool(o._values_.flags.writeable)]]
    m = o._mask_
    if isinstance(m, np.ndarray):
        slots.append(['TMask', [int(v) for v in row(m)], True])
    if 't' in o._derivs_:
        d = o._derivs_['t']
        slots.append(['TDVals', [int(round(float(v))) for v in row(d._values_)], bool(d._values_.flags.writeable)])
        if isinstance(d._mask_, np.ndarray):
            slots.append(['TDMask', [int(v) for v in row(d._mask_)], True])
    return {'slots': slots, 'maskb': bool(m) if not isinstance(m, np.ndarray) else False, 'ro': bool(o._readonly_)}


def run_history(h, Pm):
    """-> list of observations of ALL live objects after the history"""
    objs, two = [], []
    S = Pm.Scalar
    for st in h:
        op = st[0]
        try:
            if op == 'HNew':
                d = dict((t, c) for t, c in st[1])
                mask = np.array(d['TMask'], bool) if 'TMask' in d else False
                o = S(np.array(d['TVals'], dtype=np.int64), mask)
                if 'TDVals' in d:
                    o.insert_deriv('t', S(np.array(d['TDVals'], dtype=np.float64)))
                objs.append(o)
                two.append(False)
            elif op == 'HNeg':
                objs.append(-objs[st[1]])
                two.append(two[st[1]])
            elif op == 'HAdd':
                objs.append(objs[st[1]] + objs[st[2]])
                two.append(two[st[1]])
            elif op == 'HView':
                objs.append(objs[st[1]][st[2]:st[2] + st[3]])
                two.append(False)
            elif op == 'HBroadcast':
                o = objs[st[1]]
                objs.append(o.broadcast_to((2,) + o.shape))
                two.append(True)
            elif op == 'HCopy':
                objs.append(objs[st[1]].copy())
                two.append(two[st[1]])
            elif op == 'HRaise':
                o = objs[st[1][0]]
                try:
                    o.reshape((o.size + 1,))
                    raise AssertionError('reshape to a wrong size returned')
                except ValueError:
                    pass
            elif op == 'HSet':
                o = objs[st[1]]
                tgt = o if st[2] == 'TVals' else o.derivs.get('t')
                if tgt is not None and st[3] < (tgt.shape[0] if tgt.shape else 0):
                    try:
                        tgt[st[3]] = st[4]
                    except ValueError:
                        pass
            elif op == 'HIadd':
                try:
                    objs[st[1]].__iadd__(st[2])
                except ValueError:
                    pass
            elif op == 'HFreeze':
                objs[st[1]].as_readonly()
            elif op == 'HDelDeriv':
                try:
                    objs[st[1]].delete_deriv('t')
                except ValueError:
                    pass
        except AssertionError:
            raise
    return [obs_impl(o, t) for o, t in zip(objs, two)]


def cZl(l):
    return clist(['(%d)' % v for v in l], 'Z')


def coq_tag(t):
    return {'TVals': 'TVals', 'TMask': 'TMask', 'TDVals': '(TDVals 0%nat)', 'TDMask': '(TDMask 0%nat)'}[t]


def coq_hist(h):
    out = []
    for st in h:
        op = st[0]
        if op == 'HNew':
            out.append('(HNew %s false None)' % clist(['(%s, %s)' % (coq_tag(t), cZl(c)) for t, c in st[1]]))
        elif op in ('HNeg', 'HBroadcast', 'HCopy', 'HFreeze'):
            out.append('(%s %d%%nat)' % (op, st[1]))
        elif op == 'HAdd':
            out.append('(HAdd %d%%nat %d%%nat)' % (st[1], st[2]))
        elif op == 'HView':
            out.append('(HView %d%%nat %d%%nat %d%%nat)' % (st[1], st[2], st[3]))
        elif op == 'HRaise':
            out.append('(HRaise %s)' % clist(['%d%%nat' % a for a in st[1]], 'nat'))
        elif op == 'HSet':
            out.append('(HSet %d%%nat %s %d%%nat (%d))' % (st[1], coq_tag(st[2]), st[3], st[4]))
        elif op == 'HIadd':
            out.append('(HIadd %d%%nat (%d))' % (st[1], st[2]))
        elif op == 'HDelDeriv':
            out.append('(HDelDeriv %d%%nat 0%%nat)' % st[1])
    return clist(out, 'hcall')


def coq_obs(ol):
    items = []
    for o in ol:
        sl = clist(['(%s, %s, %s)' % (coq_tag(t), cZl(c), cbool(w)) for t, c, w in o['slots']], '(tag * list Z * bool)')
        items.append('(mkoobs %s %s None %s)' % (sl, cbool(o['maskb']), cbool(o['ro'])))
    return clist(items, 'oobs')


def hist_worker(chunk):
    Pm = P()
    out = []
    for h in chunk:
        try:
            ol = run_history(h, Pm)
            out.append(('(%s, %s)' % (coq_hist(h), coq_obs(ol)), None))
        except Exception as e:      # noqa
            out.append((None, '%s: %s' % (type(e).__name__, str(e)[:100])))
    return out


# ---------------------------------------------------------------------------------------
# run
# ---------------------------------------------------------------------------------------
def run(ctx):
    Pm = P()
    ctx.rule = ('API sweep (every public callable x receivers x typed argument pools incl. aliased arguments): '
                'bit-for-bit snapshots of receiver, arguments and all shared constants around every call not '
                'documented as in-place (returning or raising); copy()-independence sequences over all receivers x '
                '4 ways to copy x mutate copy/source x 17 public mutators; histories compared with the heap model. '
                'non-trivial = call with array-valued operands, derivatives, units, aliased arguments, or raising')
    ctx.assumptions = ['snapshots are taken through the private fields _values_/_mask_/_units_/_derivs_/_readonly_ '
                       'and the d_d* attributes; caches are not part of an operand\'s content',
                       'in the histories WRITEABLE of mask arrays is outside the projection (masks are shared by design)']
    if ctx.ensure_library():
        ctx.prove(['theories/Props/C07.v'])
        ctx.purity_obligations()       # regenerated from the current source: see coq/obl/Pur_C07.v
    # ---- (a) sweep monitor ----
    calls = sweep.call_list(Pm)
    sel = sweep.select(calls, ctx.rng, ctx.tier)
    byid = {d['id']: d for d in sel}
    ctx.log('sweep: %d of %d calls, %d shared constants' % (len(sel), len(calls), len(sweep.constants(Pm))))
    results = sweep.run_parallel(sel, worker)
    tot = {}
    seen = set()
    for res in results:
        for k, v in res['stats'].items():
            tot[k] = tot.get(k, 0) + v
        for cid, kind, label, diffs, ok, fam in res['fail']:
            d = byid[cid]
            sig = signature(d, kind, label, diffs, ok)
            ctx.count('monitor-failures')
            key = json.dumps(sig, sort_keys=True)
            if key in seen:
                continue
            seen.add(key)
            ctx.fail(sig, {'call': d, 'operand': label},
                     {'call': sweep.describe(d), 'changed': [list(x) for x in diffs],
                      'outcome': 'returned' if ok else 'raised %s at %s' % tuple(fam)})
    for k, v in tot.items():
        ctx.count('sweep:' + k, v)
    ctx.evaluations += tot.get('calls', 0)
    ctx.count('constants', len(sweep.constants(Pm)))
    for d in sel:
        r = d.get('recv') or {}
        if r.get('shape') not in (None, []) or r.get('derivs', 'none') != 'none' or r.get('units'):
            ctx.nontrivial.add(d['id'])
    for d in sel[:3]:
        ctx.samples.append(sweep.describe(d))
    ctx.log('monitor done: %s' % tot)
    # ---- (b) copy sequences ----
    seqs = seq_cases(Pm)
    nseq = len(seqs)
    if ctx.tier != 'thorough':
        seqs = [seqs[i] for i in sorted(ctx.rng.sample(range(nseq), min(nseq, 4000)))]
    ctx.log('copy sequences: %d of %d' % (len(seqs), nseq))
    res = [x for r in sweep.run_parallel(seqs, seq_worker, chunk=500) for x in r]
    for c, r in zip(seqs, res):
        ctx.evaluations += 1
        ctx.nontrivial.add(lib.case_hash(c))
        if r is None:
            ctx.count('seq:ok')
            continue
        if r['what'] == 'setup':
            ctx.count('seq:setup-failed')
            continue
        ctx.count('seq:' + r['what'])
        sig = {'kind': 'copy-' + r['what'], 'derive': c['derive'], 'side': c['side'], 'mutator': c['mutator'],
               'cls': c['recv']['cls'], 'recv_ro': c['recv']['ro'],
               'changed': '+'.join(sorted(set(leaf_kind(p) for p, _, _ in r['diffs'])))}
        key = json.dumps(sig, sort_keys=True)
        if key in seen:
            continue
        seen.add(key)
        ctx.fail(sig, c, {'what': r['what'], 'changed': [list(x) for x in r['diffs']]})
    # ---- (K) histories ----
    nh = 600 if ctx.tier != 'thorough' else 6000
    hists = [gen_history(ctx.rng, ctx.rng.randint(2, 9)) for _ in range(nh)]
    res = [x for r in sweep.run_parallel(hists, hist_worker, chunk=200) for x in r]
    terms, idx = [], []
    for i, (t, err) in enumerate(res):
        if t is None:
            ctx.count('hist:impl-error')
            ctx.broken_tie('correspondence', 'history-run', {'history': hists[i], 'error': err})
            continue
        terms.append(t)
        idx.append(i)
    ctx.traces = len(terms)
    ctx.evaluations += len(terms)
    for h in hists:
        for st in h:
            ctx.count('hist:' + st[0])
    mism = ctx.coq_eval_shards('hist', HEADER, terms, lambda x: 'mismatches %s' % x, shard=150)
    ctx.cov['correspondence_mismatches'] = len(mism or [])
    if mism:
        j = mism[0]
        h = hists[idx[j]]
        shown = ctx.coq_show(HEADER, 'run07 %s' % coq_hist(h))
        ctx.broken_tie('correspondence', 'model-vs-impl',
                       {'n_mismatch': len(mism), 'first_history': h, 'impl': run_history(h, Pm), 'model': shown})
    ctx.exhaustive = (ctx.tier == 'thorough')
    return ctx.finish()


def replay(path):
    Pm = P()
    d = json.load(open(path))
    if 'case' not in d:
        print(json.dumps(d, indent=1)[:4000])
        return 1
    c = d['case']
    if 'call' in c:
        print('call      :', sweep.describe(c['call']))
        res = worker([c['call']])
        for cid, kind, label, diffs, ok, fam in res['fail']:
            print('  %s %s changed (%s):' % (kind, label, 'returned' if ok else 'raised %s' % (fam,)))
            for p, b, a in diffs:
                print('     %s: %s -> %s' % (p, b, a))
        bad = bool(res['fail'])
    else:
        print('sequence  :', c)
        r = run_seq(c, Pm)
        print('result    :', r)
        bad = r is not None
    print('property FAILS on this case' if bad else 'property holds on this case')
    return 1 if bad else 0
